"""Inlining of *new* private helpers.

A refactoring that extracts a few lines into a private helper (module-level function or method whose name starts with
an underscore) must not change what the rules see.  Every private helper that exists on the reference tree is listed in
KNOWN_HELPERS - the rules analyse those as functions of their own.  A call of any *other* private helper of the same
package, at statement level (`T = h(...)`, `T1, T2 = h(...)`, `return h(...)`, `h(...)`), is replaced by the helper's
body with its parameters bound and its locals renamed, provided the helper is structured (every `return` is the last
statement of its block, no loops around returns, no yield / nested def / global).  The helper itself stays in the
program model as an ordinary function."""
import ast


from .astutil import ast_copy as _copy


class copy:     # namespace shim: copy.deepcopy on AST nodes
    deepcopy = staticmethod(_copy)

KNOWN_HELPERS = {
    '_generate_key_value_pairs', '_solve_bruteforce', '_special_constraints_eq_zero', '_special_constraints_le_zero',
    '_get_bounds', '_empty_pcbo', '_recompute_best', '_create_spin_schedule', '_package_spin_results',
    '_reduce_degree', '_create_pubo', '_to_puso', '_append_constraint', '_pop_constraint', '_next_ancilla',
    '_check_key_valid', '_filtered_range', '_x', '_y',
}
MAX_DEPTH = 3
DEMOTABLE = {'_package_spin_results'}


def _is_min_scan(h):
    """A one-parameter helper that returns the minimum element of its argument (None when empty): a scan loop with an
    incumbent that starts as None, or min(arg, ..., default=None).  Such a helper plays a role of its own in the rules
    (C13: recompute of `best`), whatever it is called - it is analysed as a function, not inlined."""
    a = h.args
    if len(a.posonlyargs + a.args) != 1 or a.vararg or a.kwarg:
        return False
    p = (a.posonlyargs + a.args)[0].arg
    body = _strip_doc(h.body)
    rets = [n for s_ in body for n in ast.walk(s_) if isinstance(n, ast.Return)]
    if not rets:
        return False
    for r in rets:
        v = r.value
        if isinstance(v, ast.Call) and isinstance(v.func, ast.Name) and v.func.id == 'min' and v.args \
                and isinstance(v.args[0], ast.Name) and v.args[0].id == p:
            return True
    loops = [n for n in body if isinstance(n, ast.For) and isinstance(n.iter, ast.Name) and n.iter.id == p]
    if loops and all(isinstance(r.value, ast.Name) for r in rets):
        inc = rets[-1].value.id
        init_none = any(isinstance(n, ast.Assign) and isinstance(n.targets[0], ast.Name) and n.targets[0].id == inc
                        and isinstance(n.value, ast.Constant) and n.value.value is None for n in body)
        return init_none
    return False


def _always_returns(stmts):
    if not stmts:
        return False
    s = stmts[-1]
    if isinstance(s, (ast.Return, ast.Raise)):
        return True
    if isinstance(s, ast.If):
        return _always_returns(s.body) and _always_returns(s.orelse)
    return False


def _structured(stmts, in_loop=False):
    """Returns only as last statement of a block, never inside loops / try / with."""
    for i, s in enumerate(stmts):
        if isinstance(s, ast.Return):
            if in_loop or i != len(stmts) - 1:
                return False
        elif isinstance(s, ast.If):
            if not _structured(s.body, in_loop) or not _structured(s.orelse, in_loop):
                return False
        elif isinstance(s, (ast.For, ast.While)):
            if not _structured(s.body, True) or not _structured(s.orelse, True):
                return False
        elif isinstance(s, (ast.Try, ast.With)):
            for blk in [getattr(s, 'body', []), getattr(s, 'orelse', []), getattr(s, 'finalbody', [])] + \
                    [h.body for h in getattr(s, 'handlers', [])]:
                if any(isinstance(n, ast.Return) for b in blk for n in ast.walk(b)):
                    # a return inside try/with: allowed only if the try is the last statement and every block is structured
                    if i != len(stmts) - 1 or in_loop:
                        return False
                    if not _structured(blk, in_loop):
                        return False
        elif isinstance(s, (ast.FunctionDef, ast.ClassDef, ast.Global, ast.Nonlocal)):
            return False
    for s in stmts:
        for n in ast.walk(s):
            if isinstance(n, (ast.Yield, ast.YieldFrom, ast.Await)):
                return False
    return True


class _Renamer(ast.NodeTransformer):
    def __init__(self, mapping):
        self.mapping = mapping

    def visit_Name(self, node):
        if node.id in self.mapping:
            m = self.mapping[node.id]
            if isinstance(m, str):
                return ast.copy_location(ast.Name(id=m, ctx=node.ctx), node)
            if isinstance(node.ctx, ast.Load):
                return copy.deepcopy(m)
        return node


def _lower(stmts, make_result, rest):
    """Rewrite a structured block so that `return E` becomes make_result(E) and the statements after an
    always-returning `if` move into its else branch.  `rest` = statements that follow in the enclosing block."""
    out = []
    for i, s in enumerate(stmts):
        if isinstance(s, ast.Return):
            out += make_result(s.value)
            return out, True
        if isinstance(s, ast.If) and any(isinstance(n, ast.Return) for n in ast.walk(s)):
            tail = stmts[i + 1:]
            b, bret = _lower(s.body, make_result, [])
            if bret and not _always_returns(s.orelse):
                o, oret = _lower(list(s.orelse) + tail, make_result, [])
                out.append(ast.If(test=s.test, body=b or [ast.Pass()], orelse=o))
                return out, oret
            o, oret = _lower(s.orelse, make_result, [])
            if not bret and oret:
                b2, b2ret = _lower(list(s.body) + tail, make_result, [])
                out.append(ast.If(test=s.test, body=b2 or [ast.Pass()], orelse=o))
                return out, b2ret
            out.append(ast.If(test=s.test, body=b or [ast.Pass()], orelse=o))
            if bret and oret:
                return out, True
            continue
        if isinstance(s, ast.Try) and any(isinstance(n, ast.Return) for n in ast.walk(s)):
            nb, _ = _lower(s.body, make_result, [])
            handlers = []
            for h in s.handlers:
                hb, _ = _lower(h.body, make_result, [])
                handlers.append(ast.ExceptHandler(type=h.type, name=h.name, body=hb or [ast.Pass()]))
            no, _ = _lower(s.orelse, make_result, [])
            out.append(ast.Try(body=nb or [ast.Pass()], handlers=handlers, orelse=no, finalbody=s.finalbody))
            return out, True
        out.append(s)
    return out, False


def _strip_doc(body):
    if body and isinstance(body[0], ast.Expr) and isinstance(getattr(body[0], 'value', None), ast.Constant) \
            and isinstance(body[0].value.value, str):
        return body[1:]
    return body


_MODEL_CLASSES = ('PCBO', 'PCSO', 'PUBO', 'PUSO', 'QUBO', 'QUSO')


def _bind_unbound_calls(node, selfname):
    """`PCBO.m(obj, args)` with obj not the enclosing method's self  ->  `obj.m(args)` (inside inlined helper bodies only:
    a callback parameter that received an unbound method)."""
    for c in ast.walk(node):
        if isinstance(c, ast.Call) and isinstance(c.func, ast.Attribute) and isinstance(c.func.value, ast.Name) \
                and c.func.value.id in _MODEL_CLASSES and c.args and not isinstance(c.args[0], ast.Starred) \
                and not (isinstance(c.args[0], ast.Name) and c.args[0].id == selfname):
            recv = c.args[0]
            c.func = ast.copy_location(ast.Attribute(value=recv, attr=c.func.attr, ctx=ast.Load()), c.func)
            c.args = list(c.args[1:])


def _dead_after(fnode, stmt, call):
    """Names passed to `call` that the caller never reads after statement `stmt` (locals or parameters of the caller;
    a statement inside a loop is followed by the whole loop)."""
    names = {x.id for x in call.args if isinstance(x, ast.Name)} | {k.value.id for k in call.keywords if isinstance(k.value, ast.Name)}
    if not names or not hasattr(stmt, 'end_lineno') or stmt.end_lineno is None:
        return ()
    a = fnode.args
    own = {x.arg for x in a.posonlyargs + a.args + a.kwonlyargs}
    own |= {n.id for n in ast.walk(fnode) if isinstance(n, ast.Name) and isinstance(n.ctx, ast.Store)}
    decl = {nm for n in ast.walk(fnode) if isinstance(n, (ast.Global, ast.Nonlocal)) for nm in n.names}
    region_start = (stmt.end_lineno, stmt.end_col_offset or 0)
    loop = None
    p = getattr(stmt, '_parent', None)
    while p is not None and p is not fnode:
        if isinstance(p, (ast.For, ast.While, ast.AsyncFor)):
            loop = p
        if isinstance(p, (ast.FunctionDef, ast.AsyncFunctionDef, ast.Lambda, ast.ClassDef)):
            return ()
        p = getattr(p, '_parent', None)
    if p is not fnode:
        return ()
    if loop is not None:
        return ()           # in a loop the call itself reads its arguments again in the next iteration
    inside_stmt = {id(x) for x in ast.walk(stmt)}
    live = set()
    for n in ast.walk(fnode):
        if isinstance(n, ast.Name) and n.id in names and isinstance(n.ctx, ast.Load) and id(n) not in inside_stmt:
            pos = (getattr(n, 'lineno', 0), getattr(n, 'col_offset', 0))
            if pos >= region_start:
                live.add(n.id)
            elif loop is not None and (loop.lineno, loop.col_offset) <= pos:
                live.add(n.id)
    # nested functions may read the name at any time
    for n in ast.walk(fnode):
        if n is not fnode and isinstance(n, (ast.FunctionDef, ast.AsyncFunctionDef, ast.Lambda)):
            live |= {x.id for x in ast.walk(n) if isinstance(x, ast.Name) and x.id in names}
    return tuple(sorted((names & own) - live - decl))


def _const_truth(t):
    """truth value of a test that is a constant (after a constant argument was substituted), else None"""
    if isinstance(t, ast.Constant):
        return bool(t.value)
    if isinstance(t, ast.UnaryOp) and isinstance(t.op, ast.Not):
        v = _const_truth(t.operand)
        return None if v is None else not v
    return None


def _prune_constant_branches(stmts):
    """`if True: A else: B` -> A, `if False: A else: B` -> B (branches decided by a constant argument of an inlined helper);
    conditional expressions likewise."""
    class X(ast.NodeTransformer):
        def visit_IfExp(self, node):
            self.generic_visit(node)
            v = _const_truth(node.test)
            return node if v is None else (node.body if v else node.orelse)
    out = []
    for st in stmts:
        st = X().visit(st)
        if isinstance(st, ast.If):
            v = _const_truth(st.test)
            if v is not None:
                out += _prune_constant_branches(st.body if v else st.orelse)
                continue
        for field in ('body', 'orelse', 'finalbody'):
            blk = getattr(st, field, None)
            if isinstance(blk, list) and blk and isinstance(blk[0], ast.stmt) and not isinstance(st, (ast.FunctionDef, ast.ClassDef)):
                nb = _prune_constant_branches(blk)
                setattr(st, field, nb if (nb or field != 'body') else [ast.Pass()])
        out.append(st)
    return out


def _as_single_return(body):
    """`if C: return A` ... `return B` (guard clauses that only return) as one `return A if C else B`; None when the body is
    not of that form."""
    if len(body) == 1 and isinstance(body[0], ast.Return):
        return None          # already single
    def conv(stmts):
        if not stmts:
            return None
        st = stmts[0]
        if isinstance(st, ast.Return) and len(stmts) == 1:
            return st.value if st.value is not None else ast.Constant(value=None)
        if isinstance(st, ast.If):
            then = conv(st.body)
            if then is None:
                return None
            rest = conv(st.orelse) if st.orelse else conv(stmts[1:])
            if st.orelse and len(stmts) > 1:
                return None
            if rest is None:
                return None
            return ast.IfExp(test=st.test, body=then, orelse=rest)
        return None
    e = conv(list(body))
    if e is None:
        return None
    r = ast.Return(value=e)
    ast.copy_location(r, body[0])
    ast.fix_missing_locations(r)
    return r


def _tuple_handback(targets, rets, argname, param):
    """`.., a, .. = h(.., a, ..)` where every return of h hands the final value of the parameter back in that position."""
    if not (targets and len(targets) == 1 and isinstance(targets[0], ast.Tuple) and rets):
        return False
    elts = targets[0].elts
    pos = [i for i, t_ in enumerate(elts) if isinstance(t_, ast.Name) and t_.id == argname]
    if len(pos) != 1:
        return False
    i = pos[0]
    return all(isinstance(r.value, ast.Tuple) and len(r.value.elts) == len(elts) and isinstance(r.value.elts[i], ast.Name)
               and r.value.elts[i].id == param for r in rets)


def expand_call(call, helper, kind, targets, uid, self_arg=None, dead=()):
    """Statements replacing the statement that contains `call` (kind: 'assign' | 'return' | 'expr')."""
    a = helper.args
    if a.kwonlyargs:
        return None
    params = [x.arg for x in a.posonlyargs + a.args]
    kwname = a.kwarg.arg if a.kwarg else None
    args = list(call.args)
    if self_arg is not None:
        args = [self_arg] + args
    vaname, va_extra = (a.vararg.arg if a.vararg else None), []
    if vaname is not None:
        # *args of the helper: only when it is passed on whole (`f(*args)`); the extra positional arguments are spliced there
        if any(isinstance(x, ast.Starred) for x in args) or len(args) < len(params):
            return None
        for n_ in [x for s_ in _strip_doc(helper.body) for x in ast.walk(s_)]:
            if isinstance(n_, ast.Name) and n_.id == vaname:
                par = getattr(n_, '_parent', None)
                gp = getattr(par, '_parent', None)
                if not (isinstance(par, ast.Starred) and isinstance(gp, ast.Call) and any(x is par for x in gp.args)):
                    return None
        va_extra = args[len(params):]
        args = args[:len(params)]
    if any(isinstance(x, ast.Starred) for x in args) or any(k.arg is None for k in call.keywords):
        return None
    bound = {}
    for p, x in zip(params, args):
        bound[p] = x
    kw_extra = []
    for k in call.keywords:
        if k.arg in params and k.arg not in bound:
            bound[k.arg] = k.value
        elif kwname is not None and k.arg is not None and k.arg not in params:
            kw_extra.append(k)
        else:
            return None
    defaults = dict(zip(params[len(params) - len(a.defaults):], a.defaults))
    for p in params:
        if p not in bound:
            if p not in defaults:
                return None
            bound[p] = defaults[p]
    body = _strip_doc(helper.body)
    if not _structured(body):
        return None
    if kwname is not None:
        # **kwargs may only be passed on as **kwargs
        okk = True
        for n_ in [x for s_ in body for x in ast.walk(s_)]:
            if isinstance(n_, ast.Name) and n_.id == kwname:
                par = getattr(n_, '_parent', None)
                if not (isinstance(par, ast.keyword) and par.arg is None):
                    okk = False
        if not okk:
            return None
    stores = {n.id for s in body for n in ast.walk(s) if isinstance(n, ast.Name) and isinstance(n.ctx, (ast.Store, ast.Del))}
    mapping, pre = {}, []
    argnames = [bound[p].id for p in params if isinstance(bound[p], ast.Name)]
    rets = [n for s_ in body for n in ast.walk(s_) if isinstance(n, ast.Return)]
    tname = targets[0].id if kind == 'assign' and targets and len(targets) == 1 and isinstance(targets[0], ast.Name) else None
    for p in params:
        x = bound[p]
        # a parameter the helper rebinds may still take the caller's name when the caller's variable is dead
        # afterwards (`return h(a)`) or is assigned the helper's final value of that parameter (`a = h(a)`)
        exact = isinstance(x, ast.Name) and p in stores and argnames.count(x.id) == 1 and (
            kind == 'return' or x.id in dead or (tname == x.id and rets and all(isinstance(r.value, ast.Name) and r.value.id == p for r in rets))
            or _tuple_handback(targets, rets, x.id, p))
        if isinstance(x, ast.Name) and (p not in stores or exact):
            mapping[p] = x.id
        elif isinstance(x, ast.Constant) and p not in stores:
            mapping[p] = x
        elif isinstance(x, ast.Attribute) and isinstance(x.value, ast.Name) and p not in stores and (
                x.value.id[:1].isupper() or x.value.id in ('operator', 'math', 'np', 'numpy', 'itertools', 'functools', 'qv')):
            mapping[p] = x          # e.g. an unbound method PCBO.add_constraint_eq_zero passed as a callback
        else:
            nm = '%s__%s%d' % (p, helper.name.strip('_'), uid)
            mapping[p] = nm
            pre.append(ast.Assign(targets=[ast.Name(id=nm, ctx=ast.Store())], value=copy.deepcopy(x)))
    # copy-out elimination: a helper local that is what every `return` hands to the caller's target takes the target's
    # name (element-wise for tuple targets), provided the target is not also read by the helper through an argument
    argreads = {n.id for a_ in bound.values() if isinstance(a_, ast.AST) for n in ast.walk(a_) if isinstance(n, ast.Name)}
    if kind == 'assign' and targets and len(targets) == 1:
        tg = targets[0]
        tnames = [tg] if isinstance(tg, ast.Name) else (list(tg.elts) if isinstance(tg, ast.Tuple) else [])
        if tnames and all(isinstance(t_, ast.Name) for t_ in tnames):
            for i_, t_ in enumerate(tnames):
                vals = []
                for r in rets:
                    v_ = r.value
                    if isinstance(tg, ast.Tuple):
                        v_ = v_.elts[i_] if isinstance(v_, ast.Tuple) and len(v_.elts) == len(tnames) else None
                    vals.append(v_)
                locs = {v_.id for v_ in vals if isinstance(v_, ast.Name)}
                if len(locs) == 1 and None not in vals:
                    r_ = next(iter(locs))
                    if r_ in stores and r_ not in params and r_ not in mapping and t_.id not in argreads \
                            and t_.id not in mapping.values():
                        mapping[r_] = t_.id
    for loc in stores:
        if loc not in mapping:
            mapping[loc] = '%s__%s%d' % (loc, helper.name.strip('_'), uid)
    body = [_Renamer(mapping).visit(copy.deepcopy(s)) for s in body]
    if kwname is not None:
        for s_ in body:
            for c_ in ast.walk(s_):
                if isinstance(c_, ast.Call):
                    newk = []
                    for k_ in c_.keywords:
                        if k_.arg is None and isinstance(k_.value, ast.Name) and k_.value.id in (kwname, mapping.get(kwname)):
                            newk += [ast.keyword(arg=e.arg, value=_copy(e.value)) for e in kw_extra]
                        else:
                            newk.append(k_)
                    c_.keywords = newk
    if vaname is not None:
        # the extra arguments are evaluated at the call, before the body runs: anything but a plain name / constant gets a name
        ve = []
        for k_, e in enumerate(va_extra):
            if isinstance(e, (ast.Name, ast.Constant)):
                ve.append(e)
            else:
                nm_ = '%s%d__%s%d' % (vaname, k_, helper.name.strip('_'), uid)
                pre.append(ast.Assign(targets=[ast.Name(id=nm_, ctx=ast.Store())], value=copy.deepcopy(e)))
                ve.append(ast.Name(id=nm_, ctx=ast.Load()))
        va_extra = ve
        for s_ in body:
            for c_ in ast.walk(s_):
                if isinstance(c_, ast.Call):
                    na = []
                    for x in c_.args:
                        if isinstance(x, ast.Starred) and isinstance(x.value, ast.Name) and x.value.id in (vaname, mapping.get(vaname)):
                            na += [_copy(e) for e in va_extra]
                        else:
                            na.append(x)
                    c_.args = na
    for s_ in body:
        _bind_unbound_calls(s_, self_arg.id if isinstance(self_arg, ast.Name) else None)
    if any(isinstance(v_, ast.Constant) for v_ in mapping.values()):
        body = _prune_constant_branches(body)

    def make_result(value):
        if kind == 'return':
            return [ast.Return(value=value)]
        if kind == 'expr':
            return [ast.Expr(value=value)] if value is not None and not isinstance(value, (ast.Name, ast.Constant)) else []
        v = value if value is not None else ast.Constant(value=None)
        if tname is not None and isinstance(v, ast.Name) and v.id == tname:
            return []
        if len(targets) == 1 and ast.dump(targets[0]).replace('Store()', 'Load()') == ast.dump(v):
            return []
        if len(targets) == 1 and isinstance(targets[0], ast.Tuple) and isinstance(v, ast.Tuple) and len(v.elts) == len(targets[0].elts) \
                and all(isinstance(t_, ast.Name) for t_ in targets[0].elts):
            # element-wise, when no target is read by a later element (no swap semantics needed)
            tn = [t_.id for t_ in targets[0].elts]
            changed = [None if (isinstance(e, ast.Name) and e.id == t_) else t_ for t_, e in zip(tn, v.elts)]
            reads_later = any(isinstance(x, ast.Name) and x.id in changed[:i] for i, e in enumerate(v.elts) for x in ast.walk(e))
            if not reads_later:
                out_ = []
                for t_, e in zip(targets[0].elts, v.elts):
                    if isinstance(e, ast.Name) and e.id == t_.id:
                        continue
                    out_.append(ast.Assign(targets=[ast.Name(id=t_.id, ctx=ast.Store())], value=e))
                return out_
        return [ast.Assign(targets=copy.deepcopy(targets), value=v)]
    low, allret = _lower(body, make_result, [])
    if kind != 'return' and not allret:
        # falling off the end returns None
        low = low + make_result(None) if kind == 'assign' else low
    return pre + low


def _fold_return_vars(fnode):
    """`x = E ; return x` with x used nowhere else  ->  `return E` (the named-result spelling of a return)."""
    uses = {}
    for n in ast.walk(fnode):
        if isinstance(n, ast.Name):
            uses[n.id] = uses.get(n.id, 0) + 1
    changed = [False]
    pairs = {}

    def count(node):
        for field in ('body', 'orelse', 'finalbody'):
            blk = getattr(node, field, None)
            if isinstance(blk, list) and blk and isinstance(blk[0], ast.stmt):
                for a, b in zip(blk, blk[1:]):
                    if isinstance(a, ast.Assign) and len(a.targets) == 1 and isinstance(a.targets[0], ast.Name) \
                            and isinstance(b, ast.Return) and isinstance(b.value, ast.Name) and b.value.id == a.targets[0].id:
                        pairs[b.value.id] = pairs.get(b.value.id, 0) + 1
                for s in blk:
                    if not isinstance(s, (ast.FunctionDef, ast.ClassDef)):
                        count(s)
        for h in getattr(node, 'handlers', []) or []:
            for a, b in zip(h.body, h.body[1:]):
                if isinstance(a, ast.Assign) and len(a.targets) == 1 and isinstance(a.targets[0], ast.Name) \
                        and isinstance(b, ast.Return) and isinstance(b.value, ast.Name) and b.value.id == a.targets[0].id:
                    pairs[b.value.id] = pairs.get(b.value.id, 0) + 1
            for s in h.body:
                count(s)
    count(fnode)

    def fix(stmts):
        out = []
        i = 0
        while i < len(stmts):
            s = stmts[i]
            nxt = stmts[i + 1] if i + 1 < len(stmts) else None
            if isinstance(s, ast.Assign) and len(s.targets) == 1 and isinstance(s.targets[0], ast.Name) \
                    and isinstance(nxt, ast.Return) and isinstance(nxt.value, ast.Name) \
                    and nxt.value.id == s.targets[0].id and uses.get(nxt.value.id) == 2 * pairs.get(nxt.value.id, 0):
                r = ast.Return(value=s.value)
                ast.copy_location(r, nxt)
                out.append(r)
                changed[0] = True
                i += 2
                continue
            out.append(s)
            i += 1
        return out

    def walk(node):
        for field in ('body', 'orelse', 'finalbody'):
            blk = getattr(node, field, None)
            if isinstance(blk, list) and blk and isinstance(blk[0], ast.stmt):
                for s in blk:
                    if not isinstance(s, (ast.FunctionDef, ast.ClassDef)):
                        walk(s)
                setattr(node, field, fix(blk))
        for h in getattr(node, 'handlers', []) or []:
            for s in h.body:
                walk(s)
            h.body = fix(h.body)
    walk(fnode)
    return changed[0]


def _split_or_guards(fnode):
    """`if A or B: <body that always leaves>` (no else)  ->  `if A: <body>` ; `if B: <body>` - the short-circuit order
    of the disjunction made explicit, so that path rules see that B is only evaluated when A is false."""
    changed = [False]

    def leaves(stmts):
        return bool(stmts) and isinstance(stmts[-1], (ast.Return, ast.Raise, ast.Continue, ast.Break))

    def fix(stmts):
        out = []
        for s_ in stmts:
            if isinstance(s_, ast.If) and not s_.orelse and isinstance(s_.test, ast.BoolOp) and isinstance(s_.test.op, ast.Or) \
                    and leaves(s_.body) and len(s_.body) <= 3:
                for v in s_.test.values:
                    n = ast.If(test=v, body=[_copy(b) for b in s_.body], orelse=[])
                    ast.copy_location(n, s_)
                    out.append(n)
                changed[0] = True
            else:
                out.append(s_)
        return out

    def walk(node):
        for field in ('body', 'orelse', 'finalbody'):
            blk = getattr(node, field, None)
            if isinstance(blk, list) and blk and isinstance(blk[0], ast.stmt):
                for s_ in blk:
                    if not isinstance(s_, (ast.FunctionDef, ast.ClassDef)):
                        walk(s_)
                setattr(node, field, fix(blk))
        for h in getattr(node, 'handlers', []) or []:
            for s_ in h.body:
                walk(s_)
            h.body = fix(h.body)
    walk(fnode)
    return changed[0]


def _unroll_table_loops(fnode, module_tree):
    """`for k, f in TABLE: body` over a module-level literal tuple / list of constants, lambdas or tuples of these (at most
    8 rows, body without break / continue / else) -> the body once per row with the row substituted (a call of a lambda
    from the table is replaced by the lambda's body).  The table-driven spelling of repeated code."""
    tables = {}
    for st in module_tree.body:
        if isinstance(st, ast.Assign) and len(st.targets) == 1 and isinstance(st.targets[0], ast.Name) \
                and isinstance(st.value, (ast.Tuple, ast.List)) and 1 <= len(st.value.elts) <= 8:
            tables[st.targets[0].id] = st.value
    if not tables:
        return False
    stores = {n.id for n in ast.walk(fnode) if isinstance(n, ast.Name) and isinstance(n.ctx, ast.Store)}
    changed = [False]

    def simple(e):
        return isinstance(e, (ast.Constant, ast.Lambda, ast.Name, ast.Attribute))

    class Sub(ast.NodeTransformer):
        def __init__(self, mp):
            self.mp = mp

        def visit_Call(self, node):
            self.generic_visit(node)
            if isinstance(node.func, ast.Lambda) and not node.keywords and len(node.args) == len(node.func.args.args) \
                    and not any(isinstance(a, ast.Starred) for a in node.args):
                lam = node.func
                inner = dict(zip([a.arg for a in lam.args.args], node.args))
                return _Renamer(inner).visit(_copy(lam.body))
            return node

        def visit_Name(self, node):
            if node.id in self.mp and isinstance(node.ctx, ast.Load):
                return _copy(self.mp[node.id])
            return node

    def fix(stmts):
        out = []
        for s_ in stmts:
            if isinstance(s_, ast.For) and isinstance(s_.iter, ast.Name) and s_.iter.id in tables and s_.iter.id not in stores \
                    and not s_.orelse and not any(isinstance(x, (ast.Break, ast.Continue)) for b in s_.body for x in ast.walk(b)):
                rows = tables[s_.iter.id].elts
                tg = s_.target
                names = [tg.id] if isinstance(tg, ast.Name) else ([e.id for e in tg.elts] if isinstance(tg, ast.Tuple) and
                                                                  all(isinstance(e, ast.Name) for e in tg.elts) else None)
                ok = names is not None
                if ok:
                    for r in rows:
                        vals = [r] if isinstance(tg, ast.Name) else (r.elts if isinstance(r, (ast.Tuple, ast.List)) else None)
                        if vals is None or len(vals) != len(names) or not all(simple(v) for v in vals):
                            ok = False
                if ok and not any(n_.id in names for b in s_.body for n_ in ast.walk(b) if isinstance(n_, ast.Name) and isinstance(n_.ctx, ast.Store)):
                    for r in rows:
                        vals = [r] if isinstance(tg, ast.Name) else list(r.elts)
                        mp = dict(zip(names, vals))
                        for b in s_.body:
                            nb = Sub(mp).visit(_copy(b))
                            ast.copy_location(nb, s_)
                            out.append(nb)
                    changed[0] = True
                    continue
            out.append(s_)
        return out

    def walk(node):
        for field in ('body', 'orelse', 'finalbody'):
            blk = getattr(node, field, None)
            if isinstance(blk, list) and blk and isinstance(blk[0], ast.stmt):
                for s_ in blk:
                    if not isinstance(s_, (ast.FunctionDef, ast.ClassDef)):
                        walk(s_)
                setattr(node, field, fix(blk))
        for h in getattr(node, 'handlers', []) or []:
            for s_ in h.body:
                walk(s_)
            h.body = fix(h.body)
    walk(fnode)
    return changed[0]


def _fold_field_aliases(fnode):
    """`m = self._mapping` (a local bound once to a private attribute of a parameter, the attribute never rebound in the
    function) ... `m[i]`  ->  `self._mapping[i]`: the alias names the same object, and the rules look for the field."""
    a = fnode.args
    params = {x.arg for x in a.posonlyargs + a.args + a.kwonlyargs}
    count, val, stmt_of = {}, {}, {}
    for n in ast.walk(fnode):
        if isinstance(n, ast.Name) and isinstance(n.ctx, (ast.Store, ast.Del)):
            count[n.id] = count.get(n.id, 0) + 1
    for n in ast.walk(fnode):
        if isinstance(n, ast.Assign) and len(n.targets) == 1 and isinstance(n.targets[0], ast.Name) \
                and isinstance(n.value, ast.Attribute) and isinstance(n.value.value, ast.Name) and n.value.value.id in params \
                and n.value.attr.startswith('_') and not n.value.attr.startswith('__') and count.get(n.targets[0].id) == 1 \
                and n.targets[0].id not in params:
            val[n.targets[0].id] = n.value
            stmt_of[n.targets[0].id] = n
    if not val:
        return False
    # the attribute must not be rebound in this function
    rebound = {(x.value.id, x.attr) for x in ast.walk(fnode) if isinstance(x, ast.Attribute) and isinstance(x.ctx, (ast.Store, ast.Del))
               and isinstance(x.value, ast.Name)}
    val = {k: v for k, v in val.items() if (v.value.id, v.attr) not in rebound}
    if not val:
        return False

    class T(ast.NodeTransformer):
        def visit_Name(self, node):
            if node.id in val and isinstance(node.ctx, ast.Load):
                return ast.copy_location(_copy(val[node.id]), node)
            return node

        def visit_Assign(self, node):
            if any(node is s_ for s_ in stmt_of.values()):
                return node
            return self.generic_visit(node)
    fnode.body = [T().visit(s_) for s_ in fnode.body]
    return True


_PURE_BUILTINS = {'isinstance', 'len', 'type', 'id', 'callable', 'hasattr'}


def _header_exprs(st):
    """the expressions evaluated by the CFG node of statement `st` (header of a compound statement, whole simple one)"""
    if isinstance(st, (ast.If, ast.While)):
        return [st.test]
    if isinstance(st, (ast.For, ast.AsyncFor)):
        return [st.iter, st.target]
    if isinstance(st, (ast.With, ast.AsyncWith)):
        return [i.context_expr for i in st.items] + [i.optional_vars for i in st.items if i.optional_vars is not None]
    if isinstance(st, (ast.Try, ast.FunctionDef, ast.ClassDef, ast.AsyncFunctionDef)):
        return []
    return [st]


def _fold_attr_snapshots(fnode):
    """`c = other.best` (a local bound once to a public attribute of a parameter) read only while the attribute cannot
    have changed - no call and no store to an attribute of that name on any path from the snapshot to the read - is the
    attribute itself: `c` -> `other.best`.  The rules look for the field."""
    from .cfg import CFG
    a = fnode.args
    params = {x.arg for x in a.posonlyargs + a.args + a.kwonlyargs}
    count = {}
    for n in ast.walk(fnode):
        if isinstance(n, ast.Name) and isinstance(n.ctx, (ast.Store, ast.Del)):
            count[n.id] = count.get(n.id, 0) + 1
    cands = {}
    for n in ast.walk(fnode):
        if isinstance(n, ast.Assign) and len(n.targets) == 1 and isinstance(n.targets[0], ast.Name) \
                and isinstance(n.value, ast.Attribute) and isinstance(n.value.value, ast.Name) and n.value.value.id in params \
                and not (n.value.attr.startswith('__') and n.value.attr.endswith('__')) and count.get(n.targets[0].id) == 1 \
                and n.targets[0].id not in params and count.get(n.value.value.id, 0) == 0:
            cands[n.targets[0].id] = n
    if not cands:
        return False
    g = CFG(fnode)
    stmts = [x for x in g.nodes if isinstance(x, ast.AST)]
    if not all(any(x is n for x in stmts) for n in cands.values()):
        return False

    def facts(st, attr, name):
        calls = stores = reads = False
        for e in _header_exprs(st):
            for x in ast.walk(e):
                if isinstance(x, ast.Call) and not (isinstance(x.func, ast.Name) and x.func.id in _PURE_BUILTINS):
                    calls = True
                if isinstance(x, ast.Attribute) and x.attr == attr and isinstance(x.ctx, (ast.Store, ast.Del)):
                    stores = True
                if isinstance(x, (ast.Lambda, ast.ListComp, ast.SetComp, ast.DictComp, ast.GeneratorExp, ast.Await, ast.Yield)):
                    calls = True
                if isinstance(x, ast.Name) and x.id == name and isinstance(x.ctx, ast.Load):
                    reads = True
        return calls, stores, reads
    val = {}
    for name, snap in cands.items():
        attr = snap.value.attr
        fx = {id(st): facts(st, attr, name) for st in stmts}
        # nested functions reading the name: give up
        if any(isinstance(x, ast.Name) and x.id == name for st in stmts if isinstance(st, (ast.FunctionDef, ast.AsyncFunctionDef, ast.ClassDef))
               for x in ast.walk(st)):
            continue
        readers = [st for st in stmts if fx[id(st)][2]]
        impure = [st for st in stmts if st is not snap and (fx[id(st)][0] or fx[id(st)][1])]
        ok = bool(readers)
        for r in readers:
            if fx[id(r)][0]:
                ok = False      # a call inside the reading statement: evaluation order
            for i in impure:
                if i is r:
                    if any(b_ is not snap and g.reaches(b_, r, avoid={snap}) for b_, _l in g.succ.get(r, ())):
                        ok = False      # in a loop: the store of one iteration precedes the read of the next (unless the
                        #                 snapshot is taken again in between)
                    continue
                if g.reaches(snap, i) and any(b_ is not snap and g.reaches(b_, r, avoid={snap}) or b_ is r for b_, _l in g.succ.get(i, ())):
                    ok = False
        if ok:
            val[name] = snap
    if not val:
        return False

    class T(ast.NodeTransformer):
        def visit_Name(self, node):
            if node.id in val and isinstance(node.ctx, ast.Load):
                return ast.copy_location(_copy(val[node.id].value), node)
            return node
    fnode.body = [T().visit(s_) for s_ in fnode.body]
    return True


_OPCMP = {'lt': ast.Lt, 'le': ast.LtE, 'eq': ast.Eq, 'ne': ast.NotEq, 'ge': ast.GtE, 'gt': ast.Gt, 'is_': ast.Is, 'is_not': ast.IsNot,
          'contains': None}
_OPBIN = {'add': ast.Add, 'sub': ast.Sub, 'mul': ast.Mult, 'truediv': ast.Div, 'floordiv': ast.FloorDiv, 'mod': ast.Mod, 'pow': ast.Pow}
_OPINPLACE = {'iadd': ast.Add, 'isub': ast.Sub, 'imul': ast.Mult, 'itruediv': ast.Div, 'ifloordiv': ast.FloorDiv, 'ipow': ast.Pow}


def _operator_calls(fnode, modtree=None):
    """`operator.ne(a, b)` -> `a != b`, `operator.add(a, b)` -> `a + b`, `operator.not_(a)` -> `not a`, `operator.neg(a)` -> `-a`,
    `t = operator.iadd(t, v)` -> `t += v` (the functional spelling of an operator, typically after a table of operators was
    unrolled or an operator was passed to a helper); also for names imported from the operator module."""
    changed = [False]
    mods, names = {'operator'}, {}
    for n in (modtree.body if modtree is not None else []):
        if isinstance(n, ast.Import):
            for a_ in n.names:
                if a_.name == 'operator':
                    mods.add(a_.asname or 'operator')
        elif isinstance(n, ast.ImportFrom) and n.module == 'operator' and not n.level:
            for a_ in n.names:
                names[a_.asname or a_.name] = a_.name
    local = {x.id for x in ast.walk(fnode) if isinstance(x, ast.Name) and isinstance(x.ctx, ast.Store)} | \
        {x.arg for x in fnode.args.posonlyargs + fnode.args.args + fnode.args.kwonlyargs}

    def opname(f):
        if isinstance(f, ast.Attribute) and isinstance(f.value, ast.Name) and f.value.id in mods and f.value.id not in local:
            return f.attr
        if isinstance(f, ast.Name) and f.id in names and f.id not in local:
            return names[f.id]
        return None

    class T(ast.NodeTransformer):
        def visit_Assign(self, node):
            v = node.value
            if isinstance(v, ast.Call) and not v.keywords and len(v.args) == 2 and len(node.targets) == 1:
                nm = opname(v.func)
                if nm in _OPINPLACE and ast.dump(node.targets[0]).replace('Store()', 'Load()') == ast.dump(v.args[0]):
                    changed[0] = True
                    return ast.copy_location(ast.AugAssign(target=node.targets[0], op=_OPINPLACE[nm](), value=self.visit(v.args[1])), node)
            return self.generic_visit(node)

        def visit_Call(self, node):
            self.generic_visit(node)
            nm = opname(node.func)
            if nm is not None and not node.keywords:
                a = node.args
                if nm in _OPCMP and _OPCMP[nm] is not None and len(a) == 2:
                    changed[0] = True
                    return ast.copy_location(ast.Compare(left=a[0], ops=[_OPCMP[nm]()], comparators=[a[1]]), node)
                if nm in _OPBIN and len(a) == 2:
                    changed[0] = True
                    return ast.copy_location(ast.BinOp(left=a[0], op=_OPBIN[nm](), right=a[1]), node)
                if nm == 'not_' and len(a) == 1:
                    changed[0] = True
                    return ast.copy_location(ast.UnaryOp(op=ast.Not(), operand=a[0]), node)
                if nm == 'neg' and len(a) == 1:
                    changed[0] = True
                    return ast.copy_location(ast.UnaryOp(op=ast.USub(), operand=a[0]), node)
            return node
    fnode.body = [T().visit(s_) for s_ in fnode.body]
    return changed[0]


def _merge_conditional_tail(fnode):
    """`if C: K = A  else: K = A + E` (A a local accumulator that is not read afterwards and is re-initialised before it is
    read again) -> `if not C: A += E ; K = A`: the accumulating spelling of the same final value."""
    changed = [False]

    def loads_after(name, node):
        end = getattr(node, 'end_lineno', node.lineno)
        return any(isinstance(x, ast.Name) and x.id == name and isinstance(x.ctx, ast.Load) and x.lineno > end for x in ast.walk(fnode))

    def fix(stmts, loop_body):
        out = []
        for i, st in enumerate(stmts):
            done = False
            if isinstance(st, ast.If) and len(st.body) == 1 and len(st.orelse) == 1 and all(
                    isinstance(b, ast.Assign) and len(b.targets) == 1 and isinstance(b.targets[0], ast.Name) for b in (st.body[0], st.orelse[0])) \
                    and st.body[0].targets[0].id == st.orelse[0].targets[0].id:
                K = st.body[0].targets[0].id
                for plain, plus, neg in ((st.body[0], st.orelse[0], True), (st.orelse[0], st.body[0], False)):
                    if isinstance(plain.value, ast.Name) and plain.value.id != K and isinstance(plus.value, ast.BinOp) \
                            and isinstance(plus.value.op, ast.Add) and isinstance(plus.value.left, ast.Name) and plus.value.left.id == plain.value.id:
                        A = plain.value.id
                        if loads_after(A, st):
                            continue
                        if loop_body is not None:
                            # re-initialised at the top level of the loop body before this statement
                            reset = any(isinstance(b, ast.Assign) and any(
                                isinstance(x, ast.Name) and x.id == A for t in b.targets for x in ([t] if isinstance(t, ast.Name) else
                                                                                                   t.elts if isinstance(t, ast.Tuple) else []))
                                for b in stmts[:i])
                            if not reset or stmts is not loop_body:
                                continue
                        test = ast.UnaryOp(op=ast.Not(), operand=st.test) if neg else st.test
                        if neg and isinstance(st.test, ast.UnaryOp) and isinstance(st.test.op, ast.Not):
                            test = st.test.operand
                        new_if = ast.If(test=test, body=[ast.AugAssign(target=ast.Name(id=A, ctx=ast.Store()), op=ast.Add(), value=plus.value.right)], orelse=[])
                        cp = ast.Assign(targets=[ast.Name(id=K, ctx=ast.Store())], value=ast.Name(id=A, ctx=ast.Load()))
                        for x in (new_if, cp):
                            ast.copy_location(x, st)
                            ast.fix_missing_locations(x)
                        out += [new_if, cp]
                        changed[0] = done = True
                        break
            if not done:
                for field in ('body', 'orelse', 'finalbody'):
                    blk = getattr(st, field, None)
                    if isinstance(blk, list) and blk and isinstance(blk[0], ast.stmt) and not isinstance(st, (ast.FunctionDef, ast.ClassDef)):
                        lb = blk if isinstance(st, (ast.For, ast.While)) and field == 'body' else (loop_body if not isinstance(st, (ast.For, ast.While)) else None)
                        setattr(st, field, fix(blk, lb))
                out.append(st)
        return out
    fnode.body = fix(fnode.body, None)
    return changed[0]


def _fold_reflection(fnode):
    """Constant string building and reflective attribute access written out: `"add_%s" % "x"` -> `"add_x"`,
    `getattr(o, "m")` -> `o.m`, and `f = o.m` immediately followed by the only use `.. f(args) ..` -> `.. o.m(args) ..`
    (what is left after a helper that received the method name as a constant was inlined)."""
    changed = [False]

    def cstr(n):
        return isinstance(n, ast.Constant) and isinstance(n.value, (str, int))

    class T(ast.NodeTransformer):
        def visit_BinOp(self, node):
            self.generic_visit(node)
            if isinstance(node.op, ast.Mod) and isinstance(node.left, ast.Constant) and isinstance(node.left.value, str):
                r = node.right
                vals = [r] if cstr(r) else list(r.elts) if isinstance(r, ast.Tuple) and all(cstr(e) for e in r.elts) else None
                if vals is not None:
                    try:
                        out = node.left.value % tuple(v.value for v in vals)
                    except Exception:
                        return node
                    changed[0] = True
                    return ast.copy_location(ast.Constant(value=out), node)
            if isinstance(node.op, ast.Add) and all(isinstance(x, ast.Constant) and isinstance(x.value, str) for x in (node.left, node.right)):
                changed[0] = True
                return ast.copy_location(ast.Constant(value=node.left.value + node.right.value), node)
            return node

        def visit_JoinedStr(self, node):
            self.generic_visit(node)
            parts = []
            for v in node.values:
                if isinstance(v, ast.Constant) and isinstance(v.value, str):
                    parts.append(v.value)
                elif isinstance(v, ast.FormattedValue) and cstr(v.value) and v.conversion == -1 and v.format_spec is None:
                    parts.append(str(v.value.value))
                else:
                    return node
            changed[0] = True
            return ast.copy_location(ast.Constant(value=''.join(parts)), node)

        def visit_Call(self, node):
            self.generic_visit(node)
            f = node.func
            if isinstance(f, ast.Attribute) and f.attr == 'format' and isinstance(f.value, ast.Constant) and isinstance(f.value.value, str) \
                    and all(cstr(a) for a in node.args) and not node.keywords:
                try:
                    out = f.value.value.format(*[a.value for a in node.args])
                except Exception:
                    return node
                changed[0] = True
                return ast.copy_location(ast.Constant(value=out), node)
            if isinstance(f, ast.Name) and f.id == 'getattr' and len(node.args) == 2 and not node.keywords \
                    and isinstance(node.args[1], ast.Constant) and isinstance(node.args[1].value, str) and node.args[1].value.isidentifier():
                changed[0] = True
                return ast.copy_location(ast.Attribute(value=node.args[0], attr=node.args[1].value, ctx=ast.Load()), node)
            return node
    fnode.body = [T().visit(s_) for s_ in fnode.body]
    if not changed[0]:
        return False
    uses = {}
    for n in ast.walk(fnode):
        if isinstance(n, ast.Name):
            uses[n.id] = uses.get(n.id, 0) + 1

    def fix(stmts):
        out, i = [], 0
        while i < len(stmts):
            s_ = stmts[i]
            nxt = stmts[i + 1] if i + 1 < len(stmts) else None
            if isinstance(s_, ast.Assign) and len(s_.targets) == 1 and isinstance(s_.targets[0], ast.Name) and isinstance(s_.value, ast.Attribute) \
                    and uses.get(s_.targets[0].id) == 2 and nxt is not None and isinstance(nxt, (ast.Assign, ast.Expr, ast.Return, ast.AugAssign)):
                nm = s_.targets[0].id
                calls = [c for c in ast.walk(nxt) if isinstance(c, ast.Call) and isinstance(c.func, ast.Name) and c.func.id == nm]
                if len(calls) == 1:
                    calls[0].func = s_.value
                    i += 1
                    continue
            for field in ('body', 'orelse', 'finalbody'):
                blk = getattr(s_, field, None)
                if isinstance(blk, list) and blk and isinstance(blk[0], ast.stmt) and not isinstance(s_, (ast.FunctionDef, ast.ClassDef)):
                    setattr(s_, field, fix(blk))
            out.append(s_)
            i += 1
        return out
    fnode.body = fix(fnode.body)
    return True


def _fold_tuple_realias(fnode):
    """`T = Y1, Y2 = E` ... `X1, X2 = T` (an inlined helper unpacking the pair it was handed): while Y1, Y2 are bound nowhere
    else and not read after the second unpacking, X1, X2 are Y1, Y2 - renamed so, and the second unpacking dropped."""
    stores = {}
    for n in ast.walk(fnode):
        if isinstance(n, ast.Name) and isinstance(n.ctx, (ast.Store, ast.Del)):
            stores[n.id] = stores.get(n.id, 0) + 1
    pairs = {}
    for n in ast.walk(fnode):
        if isinstance(n, ast.Assign) and len(n.targets) == 2:
            nm = [t for t in n.targets if isinstance(t, ast.Name)]
            tp = [t for t in n.targets if isinstance(t, ast.Tuple) and all(isinstance(e, ast.Name) for e in t.elts)]
            if len(nm) == 1 and len(tp) == 1 and stores.get(nm[0].id) == 1:
                pairs[nm[0].id] = [e.id for e in tp[0].elts]
    if not pairs:
        return False
    changed = False
    # textual order of the nodes as they stand now (inlined statements keep the line numbers of their helper)
    order = {}

    def number(n_):
        order[id(n_)] = len(order)
        for c_ in ast.iter_child_nodes(n_):
            number(c_)
    number(fnode)

    def fix(stmts):
        nonlocal changed
        out = []
        for st in stmts:
            if isinstance(st, ast.Assign) and len(st.targets) == 1 and isinstance(st.targets[0], ast.Tuple) and isinstance(st.value, ast.Name) \
                    and st.value.id in pairs and len(st.targets[0].elts) == len(pairs[st.value.id]) \
                    and all(isinstance(e, ast.Name) for e in st.targets[0].elts):
                ys = pairs[st.value.id]
                xs = [e.id for e in st.targets[0].elts]
                line = order.get(id(st), 0)
                ok = all(stores.get(y) == 1 for y in ys) and len(set(xs)) == len(xs) and not (set(xs) & set(ys)) and \
                    not any(isinstance(x, ast.Name) and x.id in ys and isinstance(x.ctx, ast.Load) and order.get(id(x), 0) > line
                            for x in ast.walk(fnode))
                # the X's first binding is this statement
                ok = ok and all(not any(isinstance(x, ast.Name) and x.id == xn and order.get(id(x), 0) < line for x in ast.walk(fnode)) for xn in xs)
                # not inside a loop (a later iteration would read the rebound Y)
                ok = ok and not any(isinstance(lp, (ast.For, ast.While)) and any(q is st for q in ast.walk(lp)) for lp in ast.walk(fnode))
                if ok:
                    mp = dict(zip(xs, ys))
                    for x in ast.walk(fnode):
                        if isinstance(x, ast.Name) and x.id in mp:
                            x.id = mp[x.id]
                    for y in ys:
                        stores[y] = stores.get(y, 0) + 5        # now rebound: no further folding onto them
                    changed = True
                    continue
            for field in ('body', 'orelse', 'finalbody'):
                blk = getattr(st, field, None)
                if isinstance(blk, list) and blk and isinstance(blk[0], ast.stmt) and not isinstance(st, (ast.FunctionDef, ast.ClassDef)):
                    setattr(st, field, fix(blk) or [ast.Pass()])
            out.append(st)
        return out
    fnode.body = fix(fnode.body)
    return changed


def _leading_ifs(n):
    """the if statements whose tests are evaluated before any other statement inside `n` runs: n itself, an if that is the
    first statement of a body or of an else-branch of such an if"""
    out = [n]
    for blk in (n.body, n.orelse):
        if blk and isinstance(blk[0], ast.If):
            out += _leading_ifs(blk[0])
    return out


def _only_in_leading_tests(n, name, nuses, value):
    """every read of `name` is in the test of a leading if of `n`, and the value is a pure expression without calls"""
    if any(isinstance(x, (ast.Call, ast.Await, ast.Yield, ast.NamedExpr, ast.Lambda)) for x in ast.walk(value)):
        return False
    cnt = sum(1 for t_if in _leading_ifs(n) for x in ast.walk(t_if.test) if isinstance(x, ast.Name) and x.id == name)
    return cnt == nuses


def _fold_condition_vars(fnode):
    """`c = E ; if c: ...` / `while c:` with c used nowhere else  ->  `if E: ...` (a test that was given a name)."""
    uses = {}
    for n in ast.walk(fnode):
        if isinstance(n, ast.Name):
            uses[n.id] = uses.get(n.id, 0) + 1
    changed = [False]

    def fix(stmts):
        out, i = [], 0
        while i < len(stmts):
            s_ = stmts[i]
            nxt = stmts[i + 1] if i + 1 < len(stmts) else None
            if isinstance(s_, ast.Assign) and len(s_.targets) == 1 and isinstance(s_.targets[0], ast.Name) \
                    and isinstance(nxt, ast.If) and uses.get(s_.targets[0].id, 0) > 2 and _only_in_leading_tests(nxt, s_.targets[0].id, uses[s_.targets[0].id] - 1, s_.value):
                # the named condition is read by several tests, all evaluated before any statement of the if runs
                nm = s_.targets[0].id

                class _S(ast.NodeTransformer):
                    def visit_Name(self, node):
                        return _copy(s_.value) if node.id == nm and isinstance(node.ctx, ast.Load) else node
                for t_if in _leading_ifs(nxt):
                    t_if.test = _S().visit(t_if.test)
                changed[0] = True
                i += 1
                continue
            if isinstance(s_, ast.Assign) and len(s_.targets) == 1 and isinstance(s_.targets[0], ast.Name) \
                    and isinstance(nxt, ast.If) and uses.get(s_.targets[0].id) == 2:
                nm = s_.targets[0].id
                t = nxt.test
                if isinstance(t, ast.Name) and t.id == nm:
                    nxt.test = s_.value
                    changed[0] = True
                    i += 1
                    continue
                if isinstance(t, ast.UnaryOp) and isinstance(t.op, ast.Not) and isinstance(t.operand, ast.Name) and t.operand.id == nm:
                    t.operand = s_.value
                    changed[0] = True
                    i += 1
                    continue
            out.append(s_)
            i += 1
        return out

    def walk(node):
        for field in ('body', 'orelse', 'finalbody'):
            blk = getattr(node, field, None)
            if isinstance(blk, list) and blk and isinstance(blk[0], ast.stmt):
                for s_ in blk:
                    if not isinstance(s_, (ast.FunctionDef, ast.ClassDef)):
                        walk(s_)
                setattr(node, field, fix(blk))
        for h in getattr(node, 'handlers', []) or []:
            for s_ in h.body:
                walk(s_)
            h.body = fix(h.body)
    walk(fnode)
    return changed[0]


def _list_accumulators_to_tuples(fnode):
    """A local list that is only appended / extended and finally read through tuple(A) is the list spelling of a tuple
    accumulator: `A = []` -> `A = ()`, `A.append(x)` -> `A += (x,)`, `A.extend(T)` -> `A += T`, `tuple(A)` -> `A`."""
    params = {x.arg for x in fnode.args.posonlyargs + fnode.args.args + fnode.args.kwonlyargs}
    cand = {}
    for n in ast.walk(fnode):
        if isinstance(n, ast.Assign):
            for t in n.targets:
                pairs = [(t, n.value)]
                if isinstance(t, ast.Tuple) and isinstance(n.value, ast.Tuple) and len(t.elts) == len(n.value.elts):
                    pairs = list(zip(t.elts, n.value.elts))
                for a, v in pairs:
                    if isinstance(a, ast.Name) and isinstance(v, ast.List) and not v.elts and a.id not in params:
                        cand.setdefault(a.id, []).append(v)
    if not cand:
        return False
    # every other occurrence must be one of the accepted forms
    ok = {k: True for k in cand}
    accepted = set()
    reads = {k: 0 for k in cand}
    for n in ast.walk(fnode):
        if isinstance(n, ast.Expr) and isinstance(n.value, ast.Call) and isinstance(n.value.func, ast.Attribute) \
                and isinstance(n.value.func.value, ast.Name) and n.value.func.value.id in cand \
                and n.value.func.attr in ('append', 'extend') and len(n.value.args) == 1 and not n.value.keywords:
            accepted.add(id(n.value.func.value))
        elif isinstance(n, ast.AugAssign) and isinstance(n.target, ast.Name) and n.target.id in cand and isinstance(n.op, ast.Add) \
                and isinstance(n.value, (ast.List, ast.Tuple)):
            accepted.add(id(n.target))
        elif isinstance(n, ast.Call) and isinstance(n.func, ast.Name) and n.func.id == 'tuple' and len(n.args) == 1 \
                and isinstance(n.args[0], ast.Name) and n.args[0].id in cand:
            accepted.add(id(n.args[0]))
            reads[n.args[0].id] += 1
    for n in ast.walk(fnode):
        if isinstance(n, ast.Name) and n.id in cand and id(n) not in accepted:
            if isinstance(n.ctx, ast.Store):
                continue        # the `A = []` definitions (checked below)
            ok[n.id] = False
    stores = {}
    for n in ast.walk(fnode):
        if isinstance(n, ast.Name) and n.id in cand and isinstance(n.ctx, ast.Store) and id(n) not in accepted:
            stores[n.id] = stores.get(n.id, 0) + 1
    names = {k for k in cand if ok[k] and reads[k] >= 1 and stores.get(k, 0) == len(cand[k])}
    if not names:
        return False
    for lst in [v for k in names for v in cand[k]]:
        lst.__class__ = ast.Tuple
        lst.elts, lst.ctx = [], ast.Load()

    class T(ast.NodeTransformer):
        def visit_Expr(self, n):
            c = n.value
            if isinstance(c, ast.Call) and isinstance(c.func, ast.Attribute) and isinstance(c.func.value, ast.Name) \
                    and c.func.value.id in names and c.func.attr in ('append', 'extend'):
                arg = c.args[0]
                if c.func.attr == 'append':
                    val = ast.Tuple(elts=[arg], ctx=ast.Load())
                elif isinstance(arg, (ast.Tuple, ast.List)):
                    val = ast.Tuple(elts=arg.elts, ctx=ast.Load())
                else:
                    val = ast.Call(func=ast.Name(id='tuple', ctx=ast.Load()), args=[arg], keywords=[])
                new = ast.AugAssign(target=ast.Name(id=c.func.value.id, ctx=ast.Store()), op=ast.Add(), value=val)
                return ast.copy_location(new, n)
            return self.generic_visit(n)

        def visit_AugAssign(self, n):
            if isinstance(n.target, ast.Name) and n.target.id in names and isinstance(n.value, ast.List):
                n.value = ast.Tuple(elts=n.value.elts, ctx=ast.Load())
            return self.generic_visit(n)

        def visit_Call(self, n):
            self.generic_visit(n)
            if isinstance(n.func, ast.Name) and n.func.id == 'tuple' and len(n.args) == 1 and isinstance(n.args[0], ast.Name) \
                    and n.args[0].id in names:
                return n.args[0]
            return n
    fnode.body = [T().visit(s_) for s_ in fnode.body]
    return True


def _expand_star_tuples(fnode):
    """`t = (a, b, c); f(*t)` with t used nowhere else  ->  `f(a, b, c)` (arguments passed through a local tuple)."""
    uses, defs = {}, {}
    for n in ast.walk(fnode):
        if isinstance(n, ast.Name):
            uses[n.id] = uses.get(n.id, 0) + 1
        if isinstance(n, ast.Assign) and len(n.targets) == 1 and isinstance(n.targets[0], ast.Name) \
                and isinstance(n.value, (ast.Tuple, ast.List)) and not any(isinstance(e, ast.Starred) for e in n.value.elts):
            defs.setdefault(n.targets[0].id, []).append(n)
    changed = False
    for n in ast.walk(fnode):
        if isinstance(n, ast.Call) and any(isinstance(a, ast.Starred) for a in n.args):
            new = []
            for a in n.args:
                if isinstance(a, ast.Starred) and isinstance(a.value, ast.Name) and len(defs.get(a.value.id, [])) == 1 \
                        and uses.get(a.value.id) == 2:
                    new += [_copy(e) for e in defs[a.value.id][0].value.elts]
                    changed = True
                else:
                    new.append(a)
            n.args = new
    return changed


def inline_program(prog):
    """Rewrite, in place, every function of the program whose body calls a new private helper at statement level."""
    count = 0
    uid = [0]
    log = prog.inlined_log = []
    inlined_nodes = {}

    # a reference helper whose parameter list no longer matches the reference (same count, other roles: e.g. it is handed
    # the model instead of the model's offset) is read through its call sites like a new helper - only for the helpers whose
    # rules also decide the written-out form
    demoted = set()
    for (rel, cname), table in type(prog).PRIVATE_HELPERS.items():
        for hname, ref in table.items():
            if hname not in DEMOTABLE or cname is not None:
                continue
            try:
                h = prog.func('%s.%s' % (rel.split('/')[-1][:-3], hname))
            except Exception:
                continue
            if h.all_params != ref:
                demoted.add(hname)

    def find_helper(fn, call):
        f = call.func
        if isinstance(f, ast.Name) and f.id.startswith('_') and (f.id not in KNOWN_HELPERS or f.id in demoted):
            r = prog.resolve_expr(fn.module, f)
            if r and r[0] == 'func' and r[1].node is not fn.node and r[1].outer is None and not _is_min_scan(r[1].node):
                return r[1].node, None
        if isinstance(f, ast.Attribute) and isinstance(f.value, ast.Name) and f.attr.startswith('_') \
                and f.attr not in KNOWN_HELPERS and fn.cls is not None and fn.node.args.args \
                and f.value.id == fn.node.args.args[0].arg and not f.attr.startswith('__'):
            m = prog.lookup_method(fn.cls.name, f.attr)
            if m is not None and hasattr(m, 'node') and not m.is_property and not m.is_static and not m.is_classmethod \
                    and m.node is not fn.node:
                return m.node, ast.Name(id=f.value.id, ctx=ast.Load())
        return None, None

    def rewrite_block(fn, stmts, depth):
        nonlocal count
        out = []
        for s in stmts:
            # recurse into compound statements first
            for field in ('body', 'orelse', 'finalbody'):
                blk = getattr(s, field, None)
                if isinstance(blk, list) and blk and isinstance(blk[0], ast.stmt) and not isinstance(s, (ast.FunctionDef, ast.ClassDef)):
                    setattr(s, field, rewrite_block(fn, blk, depth))
            for h in getattr(s, 'handlers', []) or []:
                h.body = rewrite_block(fn, h.body, depth)
            call = kind = targets = None
            if isinstance(s, ast.Assign) and isinstance(s.value, ast.Call):
                call, kind, targets = s.value, 'assign', s.targets
            elif isinstance(s, ast.Return) and isinstance(s.value, ast.Call):
                call, kind = s.value, 'return'
            elif isinstance(s, ast.Expr) and isinstance(s.value, ast.Call):
                call, kind = s.value, 'expr'
            if call is not None and depth < MAX_DEPTH:
                h, self_arg = find_helper(fn, call)
                if h is not None:
                    uid[0] += 1
                    new = expand_call(call, h, kind, targets, uid[0], self_arg, _dead_after(fn.node, s, call) if depth == 0 else ())
                    if new is not None:
                        for n in new:
                            for x in ast.walk(n):
                                if not hasattr(x, 'lineno'):
                                    x.lineno = getattr(s, 'lineno', 0)
                                    x.col_offset = getattr(s, 'col_offset', 0)
                                    x.end_lineno = getattr(s, 'end_lineno', None)
                                    x.end_col_offset = getattr(s, 'end_col_offset', None)
                        count += 1
                        log.append('%s <- %s' % (fn.qual, h.name))
                        inlined_nodes[id(h)] = h
                        out += rewrite_block(fn, new, depth + 1)
                        continue
            out.append(s)
        return out

    for fn in list(prog.all_funcs()):
        if fn.outer is not None:
            continue
        before = count
        fn.node.body = rewrite_block(fn, fn.node.body, 0)
        folded = _unroll_table_loops(fn.node, fn.module.tree)
        folded = _operator_calls(fn.node, fn.module.tree) or folded
        folded = _fold_reflection(fn.node) or folded
        folded = _fold_return_vars(fn.node) or folded
        folded = _expand_star_tuples(fn.node) or folded
        folded = _fold_condition_vars(fn.node) or folded
        folded = _fold_field_aliases(fn.node) or folded
        folded = _fold_attr_snapshots(fn.node) or folded
        folded = _fold_tuple_realias(fn.node) or folded
        folded = _merge_conditional_tail(fn.node) or folded
        folded = _split_or_guards(fn.node) or folded
        folded = _list_accumulators_to_tuples(fn.node) or folded
        if count != before or folded:
            ast.fix_missing_locations(fn.node)
            for n in ast.walk(fn.node):
                for c in ast.iter_child_nodes(n):
                    c._parent = n
            # parent of the function node itself is unchanged
    # expression-level: a new private helper whose body is a single `return <expr>` is substituted wherever it is called
    def simple(a):
        return isinstance(a, (ast.Name, ast.Constant)) or (isinstance(a, ast.Attribute) and simple(a.value))

    class ExprInline(ast.NodeTransformer):
        def __init__(self, fn):
            self.fn = fn
            self.n = 0

        def visit_Call(self, node):
            self.generic_visit(node)
            h, self_arg = find_helper(self.fn, node)
            if h is None:
                return node
            body = _strip_doc(h.body)
            a = h.args
            single = _as_single_return(body)
            if single is not None:
                body = [single]
            if len(body) != 1 or not isinstance(body[0], ast.Return) or body[0].value is None or a.vararg or a.kwarg or a.kwonlyargs:
                return node
            params = [x.arg for x in a.posonlyargs + a.args]
            args = ([self_arg] if self_arg is not None else []) + list(node.args)
            if len(args) != len(params) or node.keywords or any(isinstance(x, ast.Starred) for x in args):
                return node
            expr = body[0].value
            cnt = {}
            for x in ast.walk(expr):
                if isinstance(x, ast.Name):
                    cnt[x.id] = cnt.get(x.id, 0) + 1
            if any((cnt.get(p_, 0) != 1) and not simple(a_) for p_, a_ in zip(params, args)):
                return node
            # comprehensions / lambdas in the helper's expression: their variables must not capture a name of the arguments
            # nor rebind a parameter
            inner = set()
            for x in ast.walk(expr):
                if isinstance(x, (ast.ListComp, ast.DictComp, ast.SetComp, ast.GeneratorExp)):
                    for g_ in x.generators:
                        inner |= {y.id for y in ast.walk(g_.target) if isinstance(y, ast.Name)}
                elif isinstance(x, ast.Lambda):
                    la = x.args
                    inner |= {y.arg for y in la.posonlyargs + la.args + la.kwonlyargs + ([la.vararg] if la.vararg else []) + ([la.kwarg] if la.kwarg else [])}
            if inner:
                argnames_ = {y.id for a_ in args for y in ast.walk(a_) if isinstance(y, ast.Name)}
                if inner & (argnames_ | set(params)):
                    return node
            new = _Renamer(dict(zip(params, args))).visit(_copy(expr))
            for x in ast.walk(new):
                if not hasattr(x, 'lineno'):
                    x.lineno, x.col_offset = getattr(node, 'lineno', 0), getattr(node, 'col_offset', 0)
                    x.end_lineno, x.end_col_offset = getattr(node, 'end_lineno', None), getattr(node, 'end_col_offset', None)
            inlined_nodes[id(h)] = h
            log.append('%s <- (expr) %s' % (self.fn.qual, h.name))
            self.n += 1
            return new

    for fn in list(prog.all_funcs()):
        if fn.outer is not None:
            continue
        t = ExprInline(fn)
        fn.node.body = [t.visit(s_) for s_ in fn.node.body]
        if t.n:
            count += t.n
            ast.fix_missing_locations(fn.node)
            for n in ast.walk(fn.node):
                for c in ast.iter_child_nodes(n):
                    c._parent = n
    # a helper that was inlined at every use is analysed in its callers' context only: drop it from the whole-program
    # scans (a remaining reference - a call inside an expression, a callback - keeps it)
    for h in inlined_nodes.values():
        still = False
        for fn in prog.all_funcs():
            if fn.node is h:
                continue
            for n in ast.walk(fn.node):
                if (isinstance(n, ast.Name) and n.id == h.name) or (isinstance(n, ast.Attribute) and n.attr == h.name):
                    still = True
        if still:
            continue
        for q, f in list(prog.functions.items()):
            if f.node is h:
                del prog.functions[q]
                if f.cls is not None and f.cls.methods.get(f.name) is f:
                    del f.cls.methods[f.name]
                log.append('dropped %s' % q)
    return count
