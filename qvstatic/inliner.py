"""Inlining of *new* private helpers.

A refactoring that extracts a few lines into a private helper (module-level function or method whose name starts with
an underscore) must not change what the rules see.  Every private helper that exists on the reference tree is listed in
KNOWN_HELPERS - the rules analyse those as functions of their own.  A call of any *other* private helper of the same
package, at statement level (`T = h(...)`, `T1, T2 = h(...)`, `return h(...)`, `h(...)`), is replaced by the helper's
body with its parameters bound and its locals renamed, provided the helper is structured (every `return` is the last
statement of its block, no loops around returns, no yield / nested def / global).  The helper itself stays in the
program model as an ordinary function."""
import ast


from .astutil import ast_copy as _copy


class copy:     # namespace shim: copy.deepcopy on AST nodes
    deepcopy = staticmethod(_copy)

KNOWN_HELPERS = {
    '_generate_key_value_pairs', '_solve_bruteforce', '_special_constraints_eq_zero', '_special_constraints_le_zero',
    '_get_bounds', '_empty_pcbo', '_recompute_best', '_create_spin_schedule', '_package_spin_results',
    '_reduce_degree', '_create_pubo', '_to_puso', '_append_constraint', '_pop_constraint', '_next_ancilla',
    '_check_key_valid', '_filtered_range', '_x', '_y',
}
MAX_DEPTH = 3


def _is_min_scan(h):
    """A one-parameter helper that returns the minimum element of its argument (None when empty): a scan loop with an
    incumbent that starts as None, or min(arg, ..., default=None).  Such a helper plays a role of its own in the rules
    (C13: recompute of `best`), whatever it is called - it is analysed as a function, not inlined."""
    a = h.args
    if len(a.posonlyargs + a.args) != 1 or a.vararg or a.kwarg:
        return False
    p = (a.posonlyargs + a.args)[0].arg
    body = _strip_doc(h.body)
    rets = [n for s_ in body for n in ast.walk(s_) if isinstance(n, ast.Return)]
    if not rets:
        return False
    for r in rets:
        v = r.value
        if isinstance(v, ast.Call) and isinstance(v.func, ast.Name) and v.func.id == 'min' and v.args \
                and isinstance(v.args[0], ast.Name) and v.args[0].id == p:
            return True
    loops = [n for n in body if isinstance(n, ast.For) and isinstance(n.iter, ast.Name) and n.iter.id == p]
    if loops and all(isinstance(r.value, ast.Name) for r in rets):
        inc = rets[-1].value.id
        init_none = any(isinstance(n, ast.Assign) and isinstance(n.targets[0], ast.Name) and n.targets[0].id == inc
                        and isinstance(n.value, ast.Constant) and n.value.value is None for n in body)
        return init_none
    return False


def _always_returns(stmts):
    if not stmts:
        return False
    s = stmts[-1]
    if isinstance(s, (ast.Return, ast.Raise)):
        return True
    if isinstance(s, ast.If):
        return _always_returns(s.body) and _always_returns(s.orelse)
    return False


def _structured(stmts, in_loop=False):
    """Returns only as last statement of a block, never inside loops / try / with."""
    for i, s in enumerate(stmts):
        if isinstance(s, ast.Return):
            if in_loop or i != len(stmts) - 1:
                return False
        elif isinstance(s, ast.If):
            if not _structured(s.body, in_loop) or not _structured(s.orelse, in_loop):
                return False
        elif isinstance(s, (ast.For, ast.While)):
            if not _structured(s.body, True) or not _structured(s.orelse, True):
                return False
        elif isinstance(s, (ast.Try, ast.With)):
            for blk in [getattr(s, 'body', []), getattr(s, 'orelse', []), getattr(s, 'finalbody', [])] + \
                    [h.body for h in getattr(s, 'handlers', [])]:
                if any(isinstance(n, ast.Return) for b in blk for n in ast.walk(b)):
                    # a return inside try/with: allowed only if the try is the last statement and every block is structured
                    if i != len(stmts) - 1 or in_loop:
                        return False
                    if not _structured(blk, in_loop):
                        return False
        elif isinstance(s, (ast.FunctionDef, ast.ClassDef, ast.Global, ast.Nonlocal)):
            return False
    for s in stmts:
        for n in ast.walk(s):
            if isinstance(n, (ast.Yield, ast.YieldFrom, ast.Await)):
                return False
    return True


class _Renamer(ast.NodeTransformer):
    def __init__(self, mapping):
        self.mapping = mapping

    def visit_Name(self, node):
        if node.id in self.mapping:
            m = self.mapping[node.id]
            if isinstance(m, str):
                return ast.copy_location(ast.Name(id=m, ctx=node.ctx), node)
            if isinstance(node.ctx, ast.Load):
                return copy.deepcopy(m)
        return node


def _lower(stmts, make_result, rest):
    """Rewrite a structured block so that `return E` becomes make_result(E) and the statements after an
    always-returning `if` move into its else branch.  `rest` = statements that follow in the enclosing block."""
    out = []
    for i, s in enumerate(stmts):
        if isinstance(s, ast.Return):
            out += make_result(s.value)
            return out, True
        if isinstance(s, ast.If) and any(isinstance(n, ast.Return) for n in ast.walk(s)):
            tail = stmts[i + 1:]
            b, bret = _lower(s.body, make_result, [])
            if bret and not _always_returns(s.orelse):
                o, oret = _lower(list(s.orelse) + tail, make_result, [])
                out.append(ast.If(test=s.test, body=b or [ast.Pass()], orelse=o))
                return out, oret
            o, oret = _lower(s.orelse, make_result, [])
            if not bret and oret:
                b2, b2ret = _lower(list(s.body) + tail, make_result, [])
                out.append(ast.If(test=s.test, body=b2 or [ast.Pass()], orelse=o))
                return out, b2ret
            out.append(ast.If(test=s.test, body=b or [ast.Pass()], orelse=o))
            if bret and oret:
                return out, True
            continue
        if isinstance(s, ast.Try) and any(isinstance(n, ast.Return) for n in ast.walk(s)):
            nb, _ = _lower(s.body, make_result, [])
            handlers = []
            for h in s.handlers:
                hb, _ = _lower(h.body, make_result, [])
                handlers.append(ast.ExceptHandler(type=h.type, name=h.name, body=hb or [ast.Pass()]))
            no, _ = _lower(s.orelse, make_result, [])
            out.append(ast.Try(body=nb or [ast.Pass()], handlers=handlers, orelse=no, finalbody=s.finalbody))
            return out, True
        out.append(s)
    return out, False


def _strip_doc(body):
    if body and isinstance(body[0], ast.Expr) and isinstance(getattr(body[0], 'value', None), ast.Constant) \
            and isinstance(body[0].value.value, str):
        return body[1:]
    return body


def expand_call(call, helper, kind, targets, uid, self_arg=None):
    """Statements replacing the statement that contains `call` (kind: 'assign' | 'return' | 'expr')."""
    a = helper.args
    if a.vararg or a.kwarg or a.kwonlyargs:
        return None
    params = [x.arg for x in a.posonlyargs + a.args]
    args = list(call.args)
    if self_arg is not None:
        args = [self_arg] + args
    if any(isinstance(x, ast.Starred) for x in args) or any(k.arg is None for k in call.keywords):
        return None
    bound = {}
    for p, x in zip(params, args):
        bound[p] = x
    for k in call.keywords:
        if k.arg not in params or k.arg in bound:
            return None
        bound[k.arg] = k.value
    defaults = dict(zip(params[len(params) - len(a.defaults):], a.defaults))
    for p in params:
        if p not in bound:
            if p not in defaults:
                return None
            bound[p] = defaults[p]
    body = _strip_doc(helper.body)
    if not _structured(body):
        return None
    stores = {n.id for s in body for n in ast.walk(s) if isinstance(n, ast.Name) and isinstance(n.ctx, (ast.Store, ast.Del))}
    mapping, pre = {}, []
    argnames = [bound[p].id for p in params if isinstance(bound[p], ast.Name)]
    rets = [n for s_ in body for n in ast.walk(s_) if isinstance(n, ast.Return)]
    tname = targets[0].id if kind == 'assign' and targets and len(targets) == 1 and isinstance(targets[0], ast.Name) else None
    for p in params:
        x = bound[p]
        # a parameter the helper rebinds may still take the caller's name when the caller's variable is dead
        # afterwards (`return h(a)`) or is assigned the helper's final value of that parameter (`a = h(a)`)
        exact = isinstance(x, ast.Name) and p in stores and argnames.count(x.id) == 1 and (
            kind == 'return' or (tname == x.id and rets and all(isinstance(r.value, ast.Name) and r.value.id == p for r in rets)))
        if isinstance(x, ast.Name) and (p not in stores or exact):
            mapping[p] = x.id
        elif isinstance(x, ast.Constant) and p not in stores:
            mapping[p] = x
        else:
            nm = '%s__%s%d' % (p, helper.name.strip('_'), uid)
            mapping[p] = nm
            pre.append(ast.Assign(targets=[ast.Name(id=nm, ctx=ast.Store())], value=copy.deepcopy(x)))
    # copy-out elimination: a helper local that is what every `return` hands to the caller's target takes the target's
    # name (element-wise for tuple targets), provided the target is not also read by the helper through an argument
    argreads = {n.id for a_ in bound.values() if isinstance(a_, ast.AST) for n in ast.walk(a_) if isinstance(n, ast.Name)}
    if kind == 'assign' and targets and len(targets) == 1:
        tg = targets[0]
        tnames = [tg] if isinstance(tg, ast.Name) else (list(tg.elts) if isinstance(tg, ast.Tuple) else [])
        if tnames and all(isinstance(t_, ast.Name) for t_ in tnames):
            for i_, t_ in enumerate(tnames):
                vals = []
                for r in rets:
                    v_ = r.value
                    if isinstance(tg, ast.Tuple):
                        v_ = v_.elts[i_] if isinstance(v_, ast.Tuple) and len(v_.elts) == len(tnames) else None
                    vals.append(v_)
                locs = {v_.id for v_ in vals if isinstance(v_, ast.Name)}
                if len(locs) == 1 and None not in vals:
                    r_ = next(iter(locs))
                    if r_ in stores and r_ not in params and r_ not in mapping and t_.id not in argreads \
                            and t_.id not in mapping.values():
                        mapping[r_] = t_.id
    for loc in stores:
        if loc not in mapping:
            mapping[loc] = '%s__%s%d' % (loc, helper.name.strip('_'), uid)
    body = [_Renamer(mapping).visit(copy.deepcopy(s)) for s in body]

    def make_result(value):
        if kind == 'return':
            return [ast.Return(value=value)]
        if kind == 'expr':
            return [ast.Expr(value=value)] if value is not None and not isinstance(value, (ast.Name, ast.Constant)) else []
        v = value if value is not None else ast.Constant(value=None)
        if tname is not None and isinstance(v, ast.Name) and v.id == tname:
            return []
        if len(targets) == 1 and ast.dump(targets[0]).replace('Store()', 'Load()') == ast.dump(v):
            return []
        return [ast.Assign(targets=copy.deepcopy(targets), value=v)]
    low, allret = _lower(body, make_result, [])
    if kind != 'return' and not allret:
        # falling off the end returns None
        low = low + make_result(None) if kind == 'assign' else low
    return pre + low


def _fold_return_vars(fnode):
    """`x = E ; return x` with x used nowhere else  ->  `return E` (the named-result spelling of a return)."""
    uses = {}
    for n in ast.walk(fnode):
        if isinstance(n, ast.Name):
            uses[n.id] = uses.get(n.id, 0) + 1
    changed = [False]
    pairs = {}

    def count(node):
        for field in ('body', 'orelse', 'finalbody'):
            blk = getattr(node, field, None)
            if isinstance(blk, list) and blk and isinstance(blk[0], ast.stmt):
                for a, b in zip(blk, blk[1:]):
                    if isinstance(a, ast.Assign) and len(a.targets) == 1 and isinstance(a.targets[0], ast.Name) \
                            and isinstance(b, ast.Return) and isinstance(b.value, ast.Name) and b.value.id == a.targets[0].id:
                        pairs[b.value.id] = pairs.get(b.value.id, 0) + 1
                for s in blk:
                    if not isinstance(s, (ast.FunctionDef, ast.ClassDef)):
                        count(s)
        for h in getattr(node, 'handlers', []) or []:
            for a, b in zip(h.body, h.body[1:]):
                if isinstance(a, ast.Assign) and len(a.targets) == 1 and isinstance(a.targets[0], ast.Name) \
                        and isinstance(b, ast.Return) and isinstance(b.value, ast.Name) and b.value.id == a.targets[0].id:
                    pairs[b.value.id] = pairs.get(b.value.id, 0) + 1
            for s in h.body:
                count(s)
    count(fnode)

    def fix(stmts):
        out = []
        i = 0
        while i < len(stmts):
            s = stmts[i]
            nxt = stmts[i + 1] if i + 1 < len(stmts) else None
            if isinstance(s, ast.Assign) and len(s.targets) == 1 and isinstance(s.targets[0], ast.Name) \
                    and isinstance(nxt, ast.Return) and isinstance(nxt.value, ast.Name) \
                    and nxt.value.id == s.targets[0].id and uses.get(nxt.value.id) == 2 * pairs.get(nxt.value.id, 0):
                r = ast.Return(value=s.value)
                ast.copy_location(r, nxt)
                out.append(r)
                changed[0] = True
                i += 2
                continue
            out.append(s)
            i += 1
        return out

    def walk(node):
        for field in ('body', 'orelse', 'finalbody'):
            blk = getattr(node, field, None)
            if isinstance(blk, list) and blk and isinstance(blk[0], ast.stmt):
                for s in blk:
                    if not isinstance(s, (ast.FunctionDef, ast.ClassDef)):
                        walk(s)
                setattr(node, field, fix(blk))
        for h in getattr(node, 'handlers', []) or []:
            for s in h.body:
                walk(s)
            h.body = fix(h.body)
    walk(fnode)
    return changed[0]


def inline_program(prog):
    """Rewrite, in place, every function of the program whose body calls a new private helper at statement level."""
    count = 0
    uid = [0]
    log = prog.inlined_log = []
    inlined_nodes = {}

    def find_helper(fn, call):
        f = call.func
        if isinstance(f, ast.Name) and f.id.startswith('_') and f.id not in KNOWN_HELPERS:
            r = prog.resolve_expr(fn.module, f)
            if r and r[0] == 'func' and r[1].node is not fn.node and r[1].outer is None and not _is_min_scan(r[1].node):
                return r[1].node, None
        if isinstance(f, ast.Attribute) and isinstance(f.value, ast.Name) and f.attr.startswith('_') \
                and f.attr not in KNOWN_HELPERS and fn.cls is not None and fn.node.args.args \
                and f.value.id == fn.node.args.args[0].arg and not f.attr.startswith('__'):
            m = prog.lookup_method(fn.cls.name, f.attr)
            if m is not None and hasattr(m, 'node') and not m.is_property and not m.is_static and not m.is_classmethod \
                    and m.node is not fn.node:
                return m.node, ast.Name(id=f.value.id, ctx=ast.Load())
        return None, None

    def rewrite_block(fn, stmts, depth):
        nonlocal count
        out = []
        for s in stmts:
            # recurse into compound statements first
            for field in ('body', 'orelse', 'finalbody'):
                blk = getattr(s, field, None)
                if isinstance(blk, list) and blk and isinstance(blk[0], ast.stmt) and not isinstance(s, (ast.FunctionDef, ast.ClassDef)):
                    setattr(s, field, rewrite_block(fn, blk, depth))
            for h in getattr(s, 'handlers', []) or []:
                h.body = rewrite_block(fn, h.body, depth)
            call = kind = targets = None
            if isinstance(s, ast.Assign) and isinstance(s.value, ast.Call):
                call, kind, targets = s.value, 'assign', s.targets
            elif isinstance(s, ast.Return) and isinstance(s.value, ast.Call):
                call, kind = s.value, 'return'
            elif isinstance(s, ast.Expr) and isinstance(s.value, ast.Call):
                call, kind = s.value, 'expr'
            if call is not None and depth < MAX_DEPTH:
                h, self_arg = find_helper(fn, call)
                if h is not None:
                    uid[0] += 1
                    new = expand_call(call, h, kind, targets, uid[0], self_arg)
                    if new is not None:
                        for n in new:
                            for x in ast.walk(n):
                                if not hasattr(x, 'lineno'):
                                    x.lineno = getattr(s, 'lineno', 0)
                                    x.col_offset = getattr(s, 'col_offset', 0)
                                    x.end_lineno = getattr(s, 'end_lineno', None)
                                    x.end_col_offset = getattr(s, 'end_col_offset', None)
                        count += 1
                        log.append('%s <- %s' % (fn.qual, h.name))
                        inlined_nodes[id(h)] = h
                        out += rewrite_block(fn, new, depth + 1)
                        continue
            out.append(s)
        return out

    for fn in list(prog.all_funcs()):
        if fn.outer is not None:
            continue
        before = count
        fn.node.body = rewrite_block(fn, fn.node.body, 0)
        folded = _fold_return_vars(fn.node)
        if count != before or folded:
            ast.fix_missing_locations(fn.node)
            for n in ast.walk(fn.node):
                for c in ast.iter_child_nodes(n):
                    c._parent = n
            # parent of the function node itself is unchanged
    # a helper that was inlined at every use is analysed in its callers' context only: drop it from the whole-program
    # scans (a remaining reference - a call inside an expression, a callback - keeps it)
    for h in inlined_nodes.values():
        still = False
        for fn in prog.all_funcs():
            if fn.node is h:
                continue
            for n in ast.walk(fn.node):
                if (isinstance(n, ast.Name) and n.id == h.name) or (isinstance(n, ast.Attribute) and n.attr == h.name):
                    still = True
        if still:
            continue
        for q, f in list(prog.functions.items()):
            if f.node is h:
                del prog.functions[q]
                if f.cls is not None and f.cls.methods.get(f.name) is f:
                    del f.cls.methods[f.name]
                log.append('dropped %s' % q)
    return count
