"""Two-way self-test of the checker: breaking variants must fire (and name the
expected rule), benign variants must stay silent.

A variant is a textual edit (old -> new, exactly one occurrence) of one source
file, applied to an in-memory copy of the current tree (Python) or to a scratch
directory outside /repo and /verif (C), never to /repo itself.  A variant
whose ``old`` text no longer occurs in the (possibly edited) tree is counted
not-applicable.
"""
import concurrent.futures as cf
import importlib
import os
import pathlib
import sys

from . import core

VARIANTS = {}   # prop -> list of dict


def V(prop, name, file, old, new, expect, count=1):
    VARIANTS.setdefault(prop, []).append(dict(
        prop=prop, name=name, file=file, old=old, new=new, expect=set(expect),
        kind='breaking', count=count))


def B(prop, name, file, old, new, count=1):
    VARIANTS.setdefault(prop, []).append(dict(
        prop=prop, name=name, file=file, old=old, new=new, expect=set(),
        kind='benign', count=count))


def load_catalogue():
    if VARIANTS:
        return VARIANTS
    d = pathlib.Path(__file__).parent / 'variants'
    for p in sorted(d.glob('C*.py')):
        importlib.import_module('qvstatic.variants.%s' % p.stem)
    return VARIANTS


def _apply(v, repo):
    p = pathlib.Path(repo) / v['file']
    if not p.exists():
        return None
    s = p.read_text()
    edits = v['old'] if isinstance(v['old'], list) else [(v['old'], v['new'])]
    for old, new in edits:
        n = s.count(old)
        if n == 0 or (v['count'] and n != v['count']):
            return None
        s = s.replace(old, new)
    return s


def run_variant(v, repo='/repo'):
    from . import cli
    new = _apply(v, repo)
    if new is None:
        return dict(name=v['name'], kind=v['kind'], status='not-applicable', fired=[])
    if v['file'].endswith('.py'):
        try:
            compile(new, v['file'], 'exec')
        except SyntaxError as e:
            return dict(name=v['name'], kind=v['kind'], status='variant-does-not-compile', fired=[str(e)])
        code, ctx, findings = cli.run(v['prop'], 'quick', repo, overrides={v['file']: new},
                                      write=False, quiet=True)
    else:
        code, ctx, findings = cli.run(v['prop'], 'quick', repo, c_overrides={v['file']: new},
                                      write=False, quiet=True)
    fired = sorted({f['rule'] for f in findings})
    if code == 2:
        status = 'analysis-error'
        fired = [core.LAST_ERROR[-300:]]
    elif v['kind'] == 'breaking':
        if not findings:
            status = 'MISSED'
        elif v['expect'] and not (v['expect'] & set(fired)):
            status = 'fired-other-rule'
        else:
            status = 'detected'
    else:
        status = 'silent' if not findings else 'FALSE-ALARM'
    return dict(name=v['name'], kind=v['kind'], status=status, fired=fired,
                detail=[(f['rule'], f['function'], f['msg'][:100]) for f in findings][:4])


def run_selftest(prop, repo='/repo', jobs=None):
    cat = load_catalogue().get(prop, [])
    jobs = jobs or min(16, os.cpu_count() or 4)
    results = []
    if not cat:
        return results
    if len(cat) < 4 or jobs == 1:
        for v in cat:
            results.append(run_variant(v, repo))
        return results
    with cf.ProcessPoolExecutor(max_workers=jobs) as ex:
        futs = [ex.submit(run_variant, v, repo) for v in cat]
        for f in futs:
            results.append(f.result())
    return results


def _mech_job(args):
    from . import cli
    from .renamer import transform
    prop, repo, rel, qual, kind = args
    src_text = (pathlib.Path(repo) / rel).read_text()
    try:
        new = transform(src_text, qual, kind)
    except Exception:
        new = None
    if new is None:
        return None
    code, ctx, findings = cli.run(prop, 'quick', repo, overrides={rel: new}, write=False, quiet=True)
    if code == 0:
        return dict(name='%s:%s:%s' % (kind, rel, qual), status='silent')
    return dict(name='%s:%s:%s' % (kind, rel, qual), status='FALSE-ALARM' if code == 1 else 'analysis-error',
                fired=sorted({f['rule'] for f in findings}) or [core.LAST_ERROR[-200:]])


def c_rename_function(text, line, names):
    """Source text with the parameters / locals `names` of the C function that starts at `line` renamed (x -> x_rn)."""
    import re
    lines = text.split('\n')
    start = sum(len(l) + 1 for l in lines[:line - 1])
    i = text.index('{', start)
    depth = 0
    end = None
    for j in range(i, len(text)):
        if text[j] == '{':
            depth += 1
        elif text[j] == '}':
            depth -= 1
            if depth == 0:
                end = j + 1
                break
    if end is None:
        return None
    body = text[start:end]
    for nm in sorted(set(names), key=len, reverse=True):
        body = re.sub(r'(?<![\w.>])%s\b(?!\s*\()' % re.escape(nm), nm + '_rn', body)
    return text[:start] + body + text[end:]


def _mech_c_job(args):
    from . import cli
    prop, repo, rel, fname, line, names = args
    text = (pathlib.Path(repo) / rel).read_text()
    try:
        new = c_rename_function(text, line, names)
    except Exception:
        new = None
    if new is None or new == text:
        return None
    code, ctx, findings = cli.run(prop, 'quick', repo, c_overrides={rel: new}, write=False, quiet=True)
    if code == 0:
        return dict(name='crename:%s:%s' % (rel, fname), status='silent')
    return dict(name='crename:%s:%s' % (rel, fname), status='FALSE-ALARM' if code == 1 else 'analysis-error',
                fired=sorted({f['rule'] for f in findings}) or [core.LAST_ERROR[-200:]])


KINDS = ('rename', 'flipcmp', 'swapif', 'guard', 'unguard', 'retvar', 'splitand', 'renameparams', 'condvar', 'extract1', 'extract2', 'extract3', 'extract4', 'extract5', 'extract6')


def run_mechanical(prop, repo='/repo', jobs=None):
    """Mechanical behaviour-preserving rewrites of every function in the property's anchored Python files (rename all
    locals; flip every comparison; exchange if/else branches under the negated test): the check must stay silent."""
    import ast as _ast
    import json
    props = {json.loads(l)['id']: json.loads(l) for l in open(core.VERIF / 'properties.jsonl')}
    files = [f for f in props[prop]['anchors'].get('files', []) if f.endswith('.py')]
    todo = []
    for rel in files:
        p = pathlib.Path(repo) / rel
        if not p.exists():
            continue
        try:
            tree = _ast.parse(p.read_text())
        except SyntaxError:
            continue
        for n in tree.body:
            if isinstance(n, _ast.FunctionDef):
                quals = [n.name]
            elif isinstance(n, _ast.ClassDef):
                quals = [n.name + '.' + m.name for m in n.body if isinstance(m, _ast.FunctionDef)]
            else:
                quals = []
            for q in quals:
                for kind in KINDS:
                    todo.append((prop, str(repo), rel, q, kind))
    out = []
    ctodo = []
    cfiles = [f for f in props[prop]['anchors'].get('files', []) if f.endswith('.c')]
    if cfiles:
        from .cmodel import CProgram
        C = CProgram(repo)
        for fname, f in sorted(C.funcs.items()):
            if f.unit in cfiles:
                names = [p for p, _ in f.params if p] + list(f.locals)
                if names:
                    ctodo.append((prop, str(repo), f.unit, fname, f.line, names))
    with cf.ProcessPoolExecutor(max_workers=jobs or min(16, os.cpu_count() or 4)) as ex:
        for r in ex.map(_mech_job, todo, chunksize=4):
            if r:
                out.append(r)
        for r in ex.map(_mech_c_job, ctodo):
            if r:
                out.append(r)
    return out


def summarise(results):
    out = {}
    for r in results:
        out[r['status']] = out.get(r['status'], 0) + 1
    return out


BAD = {'MISSED', 'FALSE-ALARM', 'analysis-error', 'variant-does-not-compile'}


def main(argv):
    props = [a for a in argv if not a.startswith('-')] or sorted(load_catalogue())
    load_catalogue()
    bad = 0
    for p in props:
        rs = run_selftest(p, os.environ.get('QV_REPO', '/repo'))
        print(p, summarise(rs))
        for r in rs:
            if r['status'] in BAD or r['status'] == 'fired-other-rule' or '-v' in argv:
                print('   ', r['kind'], r['name'], r['status'], r['fired'], r.get('detail'))
                bad += r['status'] in BAD
    return 1 if bad else 0


if __name__ == '__main__':
    from qvstatic import selftest as _st
    sys.exit(_st.main(sys.argv[1:]))
