"""A3: enumeration of writes to named private fields across the package."""
import ast

from .astutil import src, walk_no_nested, strip_docstring, call_name

DICT_MUT = {'update', 'pop', 'popitem', 'clear', 'setdefault', '__setitem__', '__delitem__'}
SET_MUT = {'add', 'discard', 'remove', 'update', 'clear', 'pop', 'difference_update',
           'intersection_update', 'symmetric_difference_update'}
LIST_MUT = {'append', 'extend', 'insert', 'remove', 'pop', 'clear', 'sort', 'reverse'}
ALL_MUT = DICT_MUT | SET_MUT | LIST_MUT


def _field_of(e, fields):
    """If expression e is ``<obj>.<field>`` with field in fields return
    (obj_text, field)."""
    if isinstance(e, ast.Attribute) and e.attr in fields:
        return src(e.value), e.attr
    return None


def field_writes(fnode, fields):
    """Yield (node, obj_text, field, kind, detail) for every write in the
    function body (own scope and nested lambdas/comprehensions):
    kind 'assign'   X.f = v           detail = value expr
         'aug'      X.f op= v         detail = (op, value)
         'item'     X.f[k] = v        detail = (key, value)
         'itemaug'  X.f[k] op= v
         'del'      del X.f[k] / del X.f
         'call'     X.f.<mutator>(...)  detail = call node (also through
                    one chained call such as X.f.setdefault(k, []).append(v))
    """
    out = []
    for n in ast.walk(fnode):
        if isinstance(n, ast.Assign):
            flat = []
            for t in n.targets:
                if isinstance(t, (ast.Tuple, ast.List)):
                    vals = n.value.elts if isinstance(n.value, (ast.Tuple, ast.List)) and \
                        len(n.value.elts) == len(t.elts) else [None] * len(t.elts)
                    flat += list(zip(t.elts, vals))
                else:
                    flat.append((t, n.value))
            for t, v in flat:
                fo = _field_of(t, fields)
                if fo:
                    out.append((n, fo[0], fo[1], 'assign', v))
                elif isinstance(t, ast.Subscript):
                    fo = _field_of(t.value, fields)
                    if fo:
                        out.append((n, fo[0], fo[1], 'item', (t.slice, v)))
        elif isinstance(n, ast.AugAssign):
            fo = _field_of(n.target, fields)
            if fo:
                out.append((n, fo[0], fo[1], 'aug', (n.op, n.value)))
            elif isinstance(n.target, ast.Subscript):
                fo = _field_of(n.target.value, fields)
                if fo:
                    out.append((n, fo[0], fo[1], 'itemaug', (n.target.slice, n.op, n.value)))
        elif isinstance(n, ast.Delete):
            for t in n.targets:
                fo = _field_of(t, fields) or (isinstance(t, ast.Subscript) and _field_of(t.value, fields))
                if fo:
                    out.append((n, fo[0], fo[1], 'del', None))
        elif isinstance(n, ast.Call) and isinstance(n.func, ast.Attribute) and n.func.attr in ALL_MUT:
            base = n.func.value
            fo = _field_of(base, fields)
            if not fo and isinstance(base, ast.Subscript):
                fo = _field_of(base.value, fields)       # X.f[k].append(v)
            if not fo and isinstance(base, ast.Call) and isinstance(base.func, ast.Attribute):
                fo = _field_of(base.func.value, fields)  # X.f.setdefault(k, []).append(v)
            if fo:
                out.append((n, fo[0], fo[1], 'call', n))
    return out
