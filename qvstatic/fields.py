"""A3: enumeration of writes to named private fields across the package."""
import ast

from .astutil import src, walk_no_nested, strip_docstring, call_name

DICT_MUT = {'update', 'pop', 'popitem', 'clear', 'setdefault', '__setitem__', '__delitem__'}
SET_MUT = {'add', 'discard', 'remove', 'update', 'clear', 'pop', 'difference_update',
           'intersection_update', 'symmetric_difference_update'}
LIST_MUT = {'append', 'extend', 'insert', 'remove', 'pop', 'clear', 'sort', 'reverse'}
ALL_MUT = DICT_MUT | SET_MUT | LIST_MUT


_ALIASES = [{}]


def _field_of(e, fields, deref=False):
    """If expression e is ``<obj>.<field>`` with field in fields return (obj_text, field).  With deref, a local that was
    bound once to ``<obj>.<field>`` stands for the field's object (``v = self._variables; v.add(i)``)."""
    if isinstance(e, ast.Attribute) and e.attr in fields:
        return src(e.value), e.attr
    if deref and isinstance(e, ast.Name) and e.id in _ALIASES[0]:
        a = _ALIASES[0][e.id]
        if a.attr in fields:
            return src(a.value), a.attr
    return None


def field_aliases(fnode):
    """Locals assigned exactly once, from a plain attribute load ``X.f`` (aliases of the field's object)."""
    count, val = {}, {}
    for n in ast.walk(fnode):
        if isinstance(n, ast.Name) and isinstance(n.ctx, (ast.Store, ast.Del)):
            count[n.id] = count.get(n.id, 0) + 1
        if isinstance(n, ast.Assign) and len(n.targets) == 1 and isinstance(n.targets[0], ast.Name) \
                and isinstance(n.value, ast.Attribute) and isinstance(n.value.value, ast.Name):
            val[n.targets[0].id] = n.value
    a = fnode.args if hasattr(fnode, 'args') else None
    params = {x.arg for x in (a.posonlyargs + a.args + a.kwonlyargs)} if a else set()
    return {k: v for k, v in val.items() if count.get(k) == 1 and k not in params}


def field_writes(fnode, fields):
    """Yield (node, obj_text, field, kind, detail) for every write in the
    function body (own scope and nested lambdas/comprehensions):
    kind 'assign'   X.f = v           detail = value expr
         'aug'      X.f op= v         detail = (op, value)
         'item'     X.f[k] = v        detail = (key, value)
         'itemaug'  X.f[k] op= v
         'del'      del X.f[k] / del X.f
         'call'     X.f.<mutator>(...)  detail = call node (also through
                    one chained call such as X.f.setdefault(k, []).append(v))
    """
    out = []
    _ALIASES[0] = field_aliases(fnode) if isinstance(fnode, (ast.FunctionDef, ast.Lambda)) else {}
    for n in ast.walk(fnode):
        if isinstance(n, ast.Assign):
            flat = []
            for t in n.targets:
                if isinstance(t, (ast.Tuple, ast.List)):
                    vals = n.value.elts if isinstance(n.value, (ast.Tuple, ast.List)) and \
                        len(n.value.elts) == len(t.elts) else [None] * len(t.elts)
                    flat += list(zip(t.elts, vals))
                else:
                    flat.append((t, n.value))
            for t, v in flat:
                fo = _field_of(t, fields)
                if fo:
                    out.append((n, fo[0], fo[1], 'assign', v))
                elif isinstance(t, ast.Subscript):
                    fo = _field_of(t.value, fields, True)
                    if fo:
                        out.append((n, fo[0], fo[1], 'item', (t.slice, v)))
        elif isinstance(n, ast.AugAssign):
            fo = _field_of(n.target, fields)
            if fo:
                out.append((n, fo[0], fo[1], 'aug', (n.op, n.value)))
            elif isinstance(n.target, ast.Subscript):
                fo = _field_of(n.target.value, fields, True)
                if fo:
                    out.append((n, fo[0], fo[1], 'itemaug', (n.target.slice, n.op, n.value)))
        elif isinstance(n, ast.Delete):
            for t in n.targets:
                fo = _field_of(t, fields) or (isinstance(t, ast.Subscript) and _field_of(t.value, fields, True))
                if fo:
                    out.append((n, fo[0], fo[1], 'del', None))
        elif isinstance(n, ast.Call) and isinstance(n.func, ast.Attribute) and n.func.attr in ALL_MUT:
            base = n.func.value
            fo = _field_of(base, fields, True)
            if not fo and isinstance(base, ast.Subscript):
                fo = _field_of(base.value, fields, True)       # X.f[k].append(v)
            if not fo and isinstance(base, ast.Call) and isinstance(base.func, ast.Attribute):
                fo = _field_of(base.func.value, fields)  # X.f.setdefault(k, []).append(v)
            if fo:
                out.append((n, fo[0], fo[1], 'call', n))
    return out
