"""Command line: ./check <id> [--tier quick|thorough] [--replay f] [--repo d]"""
import argparse
import importlib
import json
import os
import sys

from . import core


def load_rules(prop):
    try:
        return importlib.import_module('qvstatic.rules.%s' % prop)
    except ModuleNotFoundError:
        return None


def run(prop, tier, repo=None, overrides=None, c_overrides=None, write=True, quiet=False):
    mod = load_rules(prop)
    if mod is None:
        print("ANALYSIS-ERROR property=%s no rule module" % prop)
        return 2, None, []
    rules_fn = mod.rules
    if tier == 'thorough' and hasattr(mod, 'thorough_rules'):
        def rules_fn(ctx, _m=mod):
            _m.rules(ctx)
            _m.thorough_rules(ctx)
    return core.run_property(
        prop, rules_fn, tier=tier, repo=repo, overrides=overrides,
        c_overrides=c_overrides, write=write, quiet=quiet,
        explanation=getattr(mod, 'EXPLANATION', ''),
        not_decided=getattr(mod, 'NOT_DECIDED', ''),
        trusted=getattr(mod, 'TRUSTED', ()))


def main(argv=None):
    ap = argparse.ArgumentParser()
    ap.add_argument('prop')
    ap.add_argument('--tier', default=os.environ.get('VERIF_TIER') or 'quick',
                    choices=['quick', 'thorough'])
    ap.add_argument('--replay')
    ap.add_argument('--repo')
    a = ap.parse_args(argv)
    if a.replay:
        want = json.load(open(a.replay))['key']
        code, ctx, findings = run(a.prop, 'quick', a.repo, write=False, quiet=True)
        if code == 2:
            print("ANALYSIS-ERROR during replay")
            return 2
        hit = [f for f in findings if core.finding_key(f) == want]
        if hit:
            print("VIOLATION property=%s replay=%s" % (a.prop, a.replay))
            print("  still violated: %s" % want)
            return 1
        print("replay: instance no longer violated: %s" % want)
        return 0
    if a.tier == 'thorough':
        from . import thorough
        return thorough.run(a.prop, a.repo)
    code, _, _ = run(a.prop, 'quick', a.repo)
    return code


if __name__ == '__main__':
    try:
        sys.exit(main())
    except SystemExit:
        raise
    except BaseException:
        import traceback
        print("ANALYSIS-ERROR internal error in driver")
        traceback.print_exc()
        sys.exit(2)
