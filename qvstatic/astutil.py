"""Small AST helpers shared by the rules: normalised text, comparison
normalisation, name use/def collection, literal extraction."""
import ast

from .pymodel import AnalysisError, parent, ancestors, enclosing_stmt


def ast_copy(node):
    """Deep copy of an AST (or list of nodes) that does not follow the _parent back pointers."""
    if isinstance(node, list):
        return [ast_copy(x) for x in node]
    if not isinstance(node, ast.AST):
        return node
    new = node.__class__()
    for f in node._fields:
        if hasattr(node, f):
            setattr(new, f, ast_copy(getattr(node, f)))
    for a in node._attributes:
        if hasattr(node, a):
            setattr(new, a, getattr(node, a))
    return new


def src(node):
    """Normalised source text of a node (parentheses, spacing, quotes and
    line breaks normalised by ast.unparse)."""
    if node is None:
        return 'None'
    if isinstance(node, str):
        return node
    return ast.unparse(node)


def stmt_key(node):
    """Finding key text of a statement: first line of its normalised text."""
    t = src(node)
    return t.split('\n')[0][:160]


def strip_docstring(body):
    if body and isinstance(body[0], ast.Expr) and isinstance(body[0].value, ast.Constant) \
            and isinstance(body[0].value.value, str):
        return body[1:]
    return body


def names_in(node):
    return {n.id for n in ast.walk(node) if isinstance(n, ast.Name)}


def walk_no_nested(node):
    """Walk a function body without entering nested function/lambda/class
    bodies (their own scopes)."""
    stack = list(node) if isinstance(node, list) else [node]
    while stack:
        n = stack.pop()
        yield n
        for c in ast.iter_child_nodes(n):
            if isinstance(c, (ast.FunctionDef, ast.AsyncFunctionDef, ast.Lambda, ast.ClassDef)):
                yield c   # the def itself, not its body
                continue
            stack.append(c)


def is_name(e, *ids):
    return isinstance(e, ast.Name) and (not ids or e.id in ids)


def is_const(e, *vals):
    return isinstance(e, ast.Constant) and (not vals or any(
        e.value == v and type(e.value) is type(v) for v in vals))


def const_num(e):
    """Numeric value of a literal (with unary minus), else None."""
    if isinstance(e, ast.Constant) and isinstance(e.value, (int, float)) and not isinstance(e.value, bool):
        return e.value
    if isinstance(e, ast.UnaryOp) and isinstance(e.op, ast.USub):
        v = const_num(e.operand)
        return -v if v is not None else None
    if isinstance(e, ast.UnaryOp) and isinstance(e.op, ast.UAdd):
        return const_num(e.operand)
    return None


def attr_chain(e):
    """'self._mapping' -> ['self', '_mapping']; None if not a pure chain."""
    out = []
    while isinstance(e, ast.Attribute):
        out.append(e.attr)
        e = e.value
    if isinstance(e, ast.Name):
        out.append(e.id)
        return out[::-1]
    return None


def is_attr(e, base, attr):
    return isinstance(e, ast.Attribute) and e.attr == attr and is_name(e.value, base)


def call_name(call):
    """Simple callee name: f(...) -> 'f'; x.m(...) -> 'm'."""
    f = call.func
    if isinstance(f, ast.Name):
        return f.id
    if isinstance(f, ast.Attribute):
        return f.attr
    return None


def calls_in(node, name=None):
    out = []
    for n in ast.walk(node):
        if isinstance(n, ast.Call) and (name is None or call_name(n) == name):
            out.append(n)
    return out


_FLIP = {ast.Lt: ast.Gt, ast.Gt: ast.Lt, ast.LtE: ast.GtE, ast.GtE: ast.LtE,
         ast.Eq: ast.Eq, ast.NotEq: ast.NotEq}
_NEG = {ast.Lt: ast.GtE, ast.Gt: ast.LtE, ast.LtE: ast.Gt, ast.GtE: ast.Lt,
        ast.Eq: ast.NotEq, ast.NotEq: ast.Eq, ast.Is: ast.IsNot, ast.IsNot: ast.Is,
        ast.In: ast.NotIn, ast.NotIn: ast.In}
_SYM = {ast.Lt: '<', ast.Gt: '>', ast.LtE: '<=', ast.GtE: '>=', ast.Eq: '==',
        ast.NotEq: '!=', ast.Is: 'is', ast.IsNot: 'is not', ast.In: 'in', ast.NotIn: 'not in'}


INLINER = None     # set by core.Ctx: callable(ast.Call) -> inlined ast expression or None


def inline_pred(test):
    """If test is a call of a trivial predicate helper (module-level function whose body is a single
    `return <expr>`), return that expression with the arguments substituted; else None."""
    if INLINER is not None and isinstance(test, ast.Call):
        try:
            return INLINER(test)
        except Exception:
            return None
    return None


def expand_preds(test):
    """Copy of a test expression in which calls of trivial predicate helpers are inlined."""
    import copy

    class T(ast.NodeTransformer):
        def visit_Call(self, node):
            inl = inline_pred(node)
            if inl is not None:
                return T().visit(inl)
            return self.generic_visit(node)
    if INLINER is None:
        return test
    # inline_pred needs the original node (parent links) to find its module: look up before copying
    mapping = {}
    for n in ast.walk(test):
        if isinstance(n, ast.Call):
            inl = inline_pred(n)
            if inl is not None:
                mapping[id(n)] = inl
    if not mapping:
        return test

    class R(ast.NodeTransformer):
        def visit_Call(self, node):
            if id(node) in mapping:
                return mapping[id(node)]
            return self.generic_visit(node)
    # operate on the original tree shape without mutating it: rebuild top-down
    def rebuild(n):
        if id(n) in mapping:
            return mapping[id(n)]
        if isinstance(n, ast.BoolOp):
            return ast.BoolOp(op=n.op, values=[rebuild(v) for v in n.values])
        if isinstance(n, ast.UnaryOp):
            return ast.UnaryOp(op=n.op, operand=rebuild(n.operand))
        return n
    return ast.fix_missing_locations(rebuild(test))


def unique_binding(fnode, name):
    """The RHS expression of the single plain assignment binding `name` in the function (own scope), if the
    name is bound exactly once, is not a parameter, not a loop/with target and never augmented; else None."""
    a = fnode.args
    params = {x.arg for x in a.posonlyargs + a.args + a.kwonlyargs}
    if a.vararg:
        params.add(a.vararg.arg)
    if a.kwarg:
        params.add(a.kwarg.arg)
    if name in params:
        return None
    defs = assignments_to(fnode, name)
    if len(defs) != 1:
        return None
    st, v = defs[0]
    if not isinstance(st, ast.Assign) or not isinstance(v, ast.AST):
        return None
    return v


class _Expander(ast.NodeTransformer):
    def __init__(self, fnode, depth):
        self.fnode, self.depth = fnode, depth

    def visit_Name(self, node):
        if isinstance(node.ctx, ast.Load) and self.depth > 0:
            v = unique_binding(self.fnode, node.id)
            if v is not None and not any(isinstance(x, (ast.Yield, ast.Await, ast.Lambda)) for x in ast.walk(v)):
                import copy
                return _Expander(self.fnode, self.depth - 1).visit(ast_copy(v))
        return node


def expand_names(fnode, expr, depth=3):
    """Copy of expr with single-assignment local names replaced by their defining expressions."""
    import copy
    e = ast_copy(expr)
    out = _Expander(fnode, depth).visit(e)
    return ast.fix_missing_locations(out)


def _compare_atoms(test, polarity=True):
    """Decompose a boolean test into a list of atomic facts known to hold when
    the test evaluates to ``polarity``.  Each fact is (lhs_text, op, rhs_text)
    with op in '<','<=','>','>=','==','!=','is','is not','in','not in',
    or ('truthy', text) / ('falsy', text).  Only sound facts are returned:
    a conjunction that is true gives all its conjuncts; a disjunction that is
    false gives all negated disjuncts; otherwise nothing for that part."""
    facts = []
    inl = inline_pred(test)
    if inl is not None:
        return _compare_atoms(inl, polarity) + [('truthy' if polarity else 'falsy', src(test))]
    if isinstance(test, ast.UnaryOp) and isinstance(test.op, ast.Not):
        return _compare_atoms(test.operand, not polarity)
    if isinstance(test, ast.BoolOp):
        if isinstance(test.op, ast.And) and polarity:
            for v in test.values:
                facts += _compare_atoms(v, True)
        elif isinstance(test.op, ast.Or) and not polarity:
            for v in test.values:
                facts += _compare_atoms(v, False)
        return facts
    if isinstance(test, ast.Compare):
        # chain a op b op c == (a op b) and (b op c)
        lefts = [test.left] + list(test.comparators[:-1])
        parts = list(zip(lefts, test.ops, test.comparators))
        if polarity:
            for l, op, r in parts:
                facts.append((src(l), _SYM[type(op)], src(r)))
                if type(op) in _FLIP:
                    pass
        elif len(parts) == 1:
            l, op, r = parts[0]
            facts.append((src(l), _SYM[_NEG[type(op)]], src(r)))
        return facts
    facts.append(('truthy' if polarity else 'falsy', src(test)))
    return facts


_SWAP = {'<': '>', '>': '<', '<=': '>=', '>=': '<=', '==': '==', '!=': '!=', 'is': 'is', 'is not': 'is not'}


def compare_atoms(test, polarity=True):
    """Facts known when `test` evaluates to `polarity` (see _compare_atoms); every binary fact is returned in both
    spellings (a < b and b > a), so membership tests are independent of how the source orders the operands."""
    out = []
    for f in _compare_atoms(test, polarity):
        if f not in out:
            out.append(f)
        if len(f) == 3 and f[1] in _SWAP:
            g = (f[2], _SWAP[f[1]], f[0])
            if g not in out:
                out.append(g)
    return out


def fact_holds(facts, lhs, op, rhs):
    """Is (lhs op rhs) among the facts, also in flipped spelling?"""
    flip = {'<': '>', '>': '<', '<=': '>=', '>=': '<=', '==': '==', '!=': '!='}
    for f in facts:
        if len(f) != 3:
            continue
        if f == (lhs, op, rhs):
            return True
        if op in flip and f == (rhs, flip[op], lhs):
            return True
    return False


def norm_compare(e):
    """Return (lhs_text, op_symbol, rhs_text) of a single comparison, with
    ``not (a op b)`` folded into the negated operator; None otherwise."""
    pol = True
    while isinstance(e, ast.UnaryOp) and isinstance(e.op, ast.Not):
        e, pol = e.operand, not pol
    if isinstance(e, ast.Compare) and len(e.ops) == 1:
        op = type(e.ops[0])
        if not pol:
            op = _NEG[op]
        return src(e.left), _SYM[op], src(e.comparators[0])
    return None


def orient(cmp3, lhs):
    """Orient a normalised comparison so that ``lhs`` text is on the left;
    returns the operator symbol and the other side, or None."""
    if cmp3 is None:
        return None
    flip = {'<': '>', '>': '<', '<=': '>=', '>=': '<=', '==': '==', '!=': '!=',
            'is': 'is', 'is not': 'is not'}
    a, op, b = cmp3
    if a == lhs:
        return op, b
    if b == lhs and op in flip:
        return flip[op], a
    return None


def assigned_names(stmt):
    """Names (re)bound by a statement (targets of assign/augassign/for/with)."""
    out = set()

    def tgt(t):
        if isinstance(t, ast.Name):
            out.add(t.id)
        elif isinstance(t, (ast.Tuple, ast.List)):
            for e in t.elts:
                tgt(e)
        elif isinstance(t, ast.Starred):
            tgt(t.value)
    if isinstance(stmt, ast.Assign):
        for t in stmt.targets:
            tgt(t)
    elif isinstance(stmt, (ast.AugAssign, ast.AnnAssign)):
        tgt(stmt.target)
    elif isinstance(stmt, (ast.For, ast.AsyncFor)):
        tgt(stmt.target)
    elif isinstance(stmt, (ast.With, ast.AsyncWith)):
        for it in stmt.items:
            if it.optional_vars is not None:
                tgt(it.optional_vars)
    elif isinstance(stmt, (ast.FunctionDef, ast.ClassDef)):
        out.add(stmt.name)
    return out


def assignments_to(fnode, name):
    """All (stmt, value_expr_or_None) that bind ``name`` in the function (own
    scope only).  For tuple-unpacking from a tuple literal the matching
    element is returned; otherwise value is the whole RHS with an index."""
    out = []
    for n in walk_no_nested(strip_docstring(fnode.body)):
        if isinstance(n, ast.Assign):
            for t in n.targets:
                if is_name(t, name):
                    out.append((n, n.value))
                elif isinstance(t, (ast.Tuple, ast.List)):
                    for i, e in enumerate(t.elts):
                        if is_name(e, name):
                            if isinstance(n.value, (ast.Tuple, ast.List)) and len(n.value.elts) == len(t.elts):
                                out.append((n, n.value.elts[i]))
                            else:
                                out.append((n, ('unpack', i, n.value)))
        elif isinstance(n, ast.AugAssign) and is_name(n.target, name):
            out.append((n, ('aug', n.op, n.value)))
        elif isinstance(n, (ast.For, ast.AsyncFor)):
            if name in assigned_names(n):
                out.append((n, ('iter', n.iter)))
        elif isinstance(n, ast.FunctionDef) and n.name == name:
            out.append((n, ('def', n)))
    return out


def kwarg(call, name, pos=None):
    """Argument expression bound to keyword ``name`` (or positional index)."""
    for k in call.keywords:
        if k.arg == name:
            return k.value
    if pos is not None and pos < len(call.args) and not any(
            isinstance(a, ast.Starred) for a in call.args[:pos + 1]):
        return call.args[pos]
    return None


def bind_args(call, finfo, skip_self=None):
    """Map callee parameter name -> argument expr for a resolved call.
    ``skip_self``: True when the call is a bound-method call (first param is
    the receiver).  Starred args end positional binding."""
    a = finfo.node.args
    pos = [x.arg for x in a.posonlyargs + a.args]
    if skip_self is None:
        skip_self = bool(finfo.cls) and not finfo.is_static
    if skip_self and pos:
        pos = pos[1:]
    out = {}
    i = 0
    for arg in call.args:
        if isinstance(arg, ast.Starred):
            if a.vararg:
                out.setdefault('*' + a.vararg.arg, []).append(arg)
            i = 10 ** 6
            continue
        if i < len(pos):
            out[pos[i]] = arg
        elif a.vararg:
            out.setdefault('*' + a.vararg.arg, []).append(arg)
        i += 1
    kwnames = set(pos) | {x.arg for x in a.kwonlyargs}
    for k in call.keywords:
        if k.arg is None:
            out['**'] = k.value
        elif k.arg in kwnames:
            out[k.arg] = k.value
        elif a.kwarg:
            out.setdefault('**' + a.kwarg.arg, {})[k.arg] = k.value
        else:
            out['!unknown:' + k.arg] = k.value
    return out


def literal_tuple(e):
    try:
        return ast.literal_eval(e)
    except Exception:
        return None


def loc(finfo_or_mod, node):
    f = getattr(finfo_or_mod, 'file', None) or getattr(finfo_or_mod, 'relpath', '?')
    return '%s:%s' % (f, getattr(node, 'lineno', '?'))


def alpha_src(expr):
    """Normalised text with comprehension / lambda variables renamed canonically (alpha-equivalence)."""
    import copy
    e = ast_copy(expr)
    counter = [0]

    def rename_in(node, mapping):
        for n in ast.walk(node):
            if isinstance(n, ast.Name) and n.id in mapping:
                n.id = mapping[n.id]

    for n in ast.walk(e):
        if isinstance(n, (ast.ListComp, ast.SetComp, ast.GeneratorExp, ast.DictComp)):
            mapping = {}
            for g in n.generators:
                for t in ast.walk(g.target):
                    if isinstance(t, ast.Name) and t.id not in mapping:
                        mapping[t.id] = '_v%d' % counter[0]
                        counter[0] += 1
            rename_in(n, mapping)
        elif isinstance(n, ast.Lambda):
            mapping = {}
            for a in n.args.args:
                mapping[a.arg] = '_v%d' % counter[0]
                counter[0] += 1
                a.arg = mapping[a.arg]
            rename_in(n.body, mapping)
    return ast.unparse(e)


_NEGOP = {ast.Lt: ast.GtE, ast.Gt: ast.LtE, ast.LtE: ast.Gt, ast.GtE: ast.Lt, ast.Eq: ast.NotEq, ast.NotEq: ast.Eq,
          ast.Is: ast.IsNot, ast.IsNot: ast.Is, ast.In: ast.NotIn, ast.NotIn: ast.In}
_NEGATIVE = (ast.IsNot, ast.NotEq, ast.NotIn)


def _neg(e):
    """AST of `not e` with the negation pushed inward."""
    if isinstance(e, ast.UnaryOp) and isinstance(e.op, ast.Not):
        return canon(e.operand)
    if isinstance(e, ast.BoolOp):
        op = ast.Or() if isinstance(e.op, ast.And) else ast.And()
        return ast.BoolOp(op=op, values=[_neg(v) for v in e.values])
    if isinstance(e, ast.Compare) and len(e.ops) == 1:
        return ast.Compare(left=canon(e.left), ops=[_NEGOP[type(e.ops[0])]()], comparators=[canon(e.comparators[0])])
    return ast.UnaryOp(op=ast.Not(), operand=canon(e))


def canon(e):
    """Canonical form of an expression: negations pushed inward (De Morgan, complemented comparisons, no double
    negation); conditional expressions oriented so that their test is not negated / uses the positive operator."""
    import copy
    if isinstance(e, ast.UnaryOp) and isinstance(e.op, ast.Not):
        return _neg(e.operand)
    if isinstance(e, ast.BoolOp):
        return ast.BoolOp(op=e.op, values=[canon(v) for v in e.values])
    if isinstance(e, ast.IfExp):
        t, a, b = canon(e.test), canon(e.body), canon(e.orelse)
        if isinstance(t, ast.UnaryOp) and isinstance(t.op, ast.Not):
            return ast.IfExp(test=t.operand, body=b, orelse=a)
        if isinstance(t, ast.Compare) and len(t.ops) == 1 and isinstance(t.ops[0], _NEGATIVE):
            return ast.IfExp(test=_neg(t), body=b, orelse=a)
        return ast.IfExp(test=t, body=a, orelse=b)
    if isinstance(e, ast.AST):
        new = copy.copy(e)
        for f, v in ast.iter_fields(e):
            if isinstance(v, ast.expr):
                setattr(new, f, canon(v))
            elif isinstance(v, list) and v and all(isinstance(x, ast.expr) for x in v):
                setattr(new, f, [canon(x) for x in v])
            elif isinstance(v, list) and v and all(isinstance(x, ast.keyword) for x in v):
                setattr(new, f, [ast.keyword(arg=x.arg, value=canon(x.value)) for x in v])
        return new
    return e


def canon_src(e):
    return ast.unparse(ast.fix_missing_locations(canon(e)))


def positive_form(test, polarity):
    """Expression equivalent to `test evaluates to polarity`, in canonical form, predicate helpers inlined."""
    t = expand_preds(test)
    out = canon(t) if polarity else _neg(t)
    return ast.fix_missing_locations(out)


def block_of(stmt):
    """The statement list (body / orelse / finalbody / handler body) that contains stmt."""
    p = parent(stmt)
    if p is None:
        return []
    for f in ('body', 'orelse', 'finalbody'):
        lst = getattr(p, f, None)
        if isinstance(lst, list) and any(x is stmt for x in lst):
            return lst
    return getattr(p, 'body', [])
