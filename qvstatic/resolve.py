"""Local type inference, call resolution (per receiver class) and call graph."""
import ast

from .pymodel import FuncInfo, ClassInfo, AnalysisError
from .astutil import walk_no_nested, strip_docstring, is_name, call_name

MODEL_BASE = 'DictArithmetic'


class Resolver:
    def __init__(self, prog):
        self.prog = prog
        self._env_cache = {}
        self._ret_cache = {}
        self._in_progress = set()

    # ------------------------------------------------------------ helpers
    def is_model_class(self, name):
        ci = self.prog.classes.get(name)
        return bool(ci) and MODEL_BASE in self.prog.mro_names(name)

    def self_name(self, fn):
        if fn.cls and not fn.is_static and fn.node.args.args:
            return fn.node.args.args[0].arg
        return None

    # ------------------------------------------------------- environments
    def env(self, fn, recv):
        key = (id(fn), recv)
        if key in self._env_cache:
            return self._env_cache[key]
        env = {}
        self._env_cache[key] = env
        sn = self.self_name(fn)
        if sn:
            r = recv or fn.cls.name
            env[sn] = {('cls:' + r) if fn.is_classmethod else r}
        if fn.outer is not None:
            # closure: see the enclosing function's locals
            for k, v in self.env(fn.outer, recv).items():
                env.setdefault(k, set(v))
        body = strip_docstring(fn.node.body)
        for _ in range(3):
            for n in walk_no_nested(body):
                if isinstance(n, ast.Assign):
                    for t in n.targets:
                        self._bind(t, n.value, fn, recv, env)
                elif isinstance(n, ast.AugAssign) and isinstance(n.target, ast.Name):
                    ts = self.infer(n.value, fn, recv, env)
                    cur = env.setdefault(n.target.id, set())
                    cur |= {t for t in ts if self.is_model_class(t)}
                elif isinstance(n, ast.With):
                    for it in n.items:
                        if it.optional_vars is not None:
                            self._bind(it.optional_vars, it.context_expr, fn, recv, env)
        return env

    def _bind(self, target, value, fn, recv, env):
        if isinstance(target, ast.Name):
            env.setdefault(target.id, set()).update(self.infer(value, fn, recv, env))
        elif isinstance(target, (ast.Tuple, ast.List)) and isinstance(value, (ast.Tuple, ast.List)) \
                and len(target.elts) == len(value.elts):
            for t, v in zip(target.elts, value.elts):
                self._bind(t, v, fn, recv, env)

    # ---------------------------------------------------------- inference
    def infer(self, e, fn, recv, env=None):
        """Set of class names ('PUBO', 'dict', 'cls:PUBO' for class objects)."""
        if env is None:
            env = self.env(fn, recv)
        P = self.prog
        if isinstance(e, ast.Name):
            if e.id in env:
                return set(env[e.id])
            r = P.resolve_expr(fn.module, e)
            if r and r[0] == 'class':
                return {'cls:' + r[1].name}
            if r and r[0] == 'builtin':
                return {'cls:' + r[1]}
            return set()
        if isinstance(e, ast.Attribute):
            if e.attr == '__class__':
                return {'cls:' + t for t in self.infer(e.value, fn, recv, env) if not t.startswith('cls:')}
            r = P.resolve_expr(fn.module, e)
            if r and r[0] == 'class':
                return {'cls:' + r[1].name}
            # property with inferable return type
            out = set()
            for t in self.infer(e.value, fn, recv, env):
                if t.startswith('cls:') or t not in P.classes:
                    continue
                m = P.lookup_method(t, e.attr)
                if isinstance(m, FuncInfo) and m.is_property:
                    out |= self.return_types(m, t)
            return out
        if isinstance(e, ast.Call):
            f = e.func
            if is_name(f, 'type') and len(e.args) == 1:
                return {'cls:' + t for t in self.infer(e.args[0], fn, recv, env) if not t.startswith('cls:')}
            if is_name(f, 'dict', 'list', 'set', 'tuple') and not (f.id in env):
                return {f.id}
            if is_name(f, 'super'):
                return set()
            ft = self.infer(f, fn, recv, env) if not isinstance(f, ast.Attribute) else set()
            if isinstance(f, ast.Attribute):
                # method call: class attr (K.m / qv.K) or instance method
                r = P.resolve_expr(fn.module, f)
                if r and r[0] == 'class':
                    return {r[1].name}
                ft = set()
            ctor = {t[4:] for t in ft if t.startswith('cls:')}
            if ctor:
                return ctor
            out = set()
            for tgt, trecv, _ in self.resolve_call(e, fn, recv, env):
                if isinstance(tgt, FuncInfo):
                    if tgt.name == '__init__':
                        out.add(trecv)
                    else:
                        out |= self.return_types(tgt, trecv)
            if not out and isinstance(f, ast.Attribute) and f.attr == 'copy':
                out |= {t for t in self.infer(f.value, fn, recv, env) if not t.startswith('cls:')}
            return out
        if isinstance(e, ast.IfExp):
            return self.infer(e.body, fn, recv, env) | self.infer(e.orelse, fn, recv, env)
        if isinstance(e, ast.BoolOp):
            out = set()
            for v in e.values:
                out |= self.infer(v, fn, recv, env)
            return out
        if isinstance(e, ast.BinOp):
            l = {t for t in self.infer(e.left, fn, recv, env) if self.is_model_class(t)}
            if l:
                return l
            return {t for t in self.infer(e.right, fn, recv, env) if self.is_model_class(t)}
        if isinstance(e, ast.UnaryOp):
            return {t for t in self.infer(e.operand, fn, recv, env) if self.is_model_class(t)}
        if isinstance(e, (ast.Dict, ast.DictComp)):
            return {'dict'}
        if isinstance(e, (ast.List, ast.ListComp)):
            return {'list'}
        if isinstance(e, (ast.Set, ast.SetComp)):
            return {'set'}
        if isinstance(e, ast.Tuple):
            return {'tuple'}
        return set()

    def return_types(self, f, recv):
        key = (id(f), recv)
        if key in self._ret_cache:
            return self._ret_cache[key]
        if key in self._in_progress:
            return set()
        self._in_progress.add(key)
        out = set()
        try:
            env = self.env(f, recv)
            for n in walk_no_nested(strip_docstring(f.node.body)):
                if isinstance(n, ast.Return) and n.value is not None:
                    out |= self.infer(n.value, f, recv, env)
        finally:
            self._in_progress.discard(key)
        self._ret_cache[key] = out
        return out

    # ---------------------------------------------------- call resolution
    def resolve_call(self, call, fn, recv, env=None):
        """Targets of a call: list of (target, receiver_class_or_None, how).
        target is FuncInfo, ('builtin', name) or ('ext', name)."""
        P = self.prog
        if env is None:
            env = self.env(fn, recv)
        f = call.func
        recv = recv or (fn.cls.name if fn.cls else None)
        out = []
        if isinstance(f, ast.Name):
            if f.id in env and env[f.id]:
                for t in env[f.id]:
                    if t.startswith('cls:') and t[4:] in P.classes:
                        m = P.lookup_method(t[4:], '__init__')
                        if isinstance(m, FuncInfo):
                            out.append((m, t[4:], 'ctor'))
                if out:
                    return out
            # local def?
            o = fn
            while o is not None:
                q = o.qual + '.<locals>.' + f.id
                if q in P.functions:
                    return [(P.functions[q], recv, 'local')]
                o = o.outer
            r = P.resolve_expr(fn.module, f)
            if r:
                if r[0] == 'func':
                    return [(r[1], None, 'func')]
                if r[0] == 'class':
                    m = P.lookup_method(r[1].name, '__init__')
                    if isinstance(m, FuncInfo):
                        return [(m, r[1].name, 'ctor')]
                    return [(('builtin', r[1].name), None, 'ctor')]
                if r[0] == 'ext':
                    return [(('ext', r[1]), None, 'ext')]
            return [(('builtin', f.id), None, 'builtin')]
        if isinstance(f, ast.Attribute):
            v = f.value
            # super().m / super(X, self).m
            if isinstance(v, ast.Call) and is_name(v.func, 'super'):
                if not v.args:
                    after = fn.cls.name if fn.cls else None
                else:
                    a0 = v.args[0]
                    ts = self.infer(a0, fn, recv, env)
                    cl = [t[4:] for t in ts if t.startswith('cls:')]
                    after = cl[0] if cl else None
                if after and recv:
                    m = P.lookup_method(recv, f.attr, after=after)
                    if m is not None:
                        return [(m, recv, 'super')]
                return []
            # module attribute / class attribute
            r = P.resolve_expr(fn.module, f)
            if r:
                if r[0] == 'func':
                    return [(r[1], None, 'func')]
                if r[0] == 'class':
                    m = P.lookup_method(r[1].name, '__init__')
                    return [(m, r[1].name, 'ctor')] if isinstance(m, FuncInfo) else \
                        [(('builtin', r[1].name), None, 'ctor')]
                if r[0] == 'ext':
                    return [(('ext', r[1]), None, 'ext')]
            ts = self.infer(v, fn, recv, env)
            for t in sorted(ts):
                if t.startswith('cls:'):
                    k = t[4:]
                    if k in P.classes:
                        m = P.lookup_method(k, f.attr)
                        if m is not None:
                            # K.m(obj, ...) unbound call; receiver = first arg's type
                            how = 'unbound'
                            r2 = k
                            if isinstance(m, FuncInfo) and not (m.is_static or m.is_classmethod) and call.args:
                                at = [x for x in self.infer(call.args[0], fn, recv, env)
                                      if x in P.classes]
                                if at:
                                    r2 = at[0]
                            elif isinstance(m, FuncInfo) and (m.is_static or m.is_classmethod):
                                how = 'classcall'
                            out.append((m, r2, how))
                elif t in P.classes:
                    m = P.lookup_method(t, f.attr)
                    if m is not None:
                        out.append((m, t, 'method'))
                elif t in ('dict', 'list', 'set', 'tuple'):
                    out.append((('builtin', '%s.%s' % (t, f.attr)), None, 'builtin'))
            return out
        return out

    def property_loads(self, fn, recv, env=None):
        """Attribute loads that resolve to a @property: [(node, FuncInfo, recv)]"""
        P = self.prog
        if env is None:
            env = self.env(fn, recv)
        out = []
        for n in ast.walk(fn.node):
            if isinstance(n, ast.Attribute) and isinstance(n.ctx, ast.Load):
                for t in self.infer(n.value, fn, recv, env):
                    if t in P.classes:
                        m = P.lookup_method(t, n.attr)
                        if isinstance(m, FuncInfo) and m.is_property:
                            out.append((n, m, t))
        return out

    # --------------------------------------------------------- call graph
    def callees(self, fn, recv):
        """Resolved (call_node_or_attr, target FuncInfo, target recv) edges out
        of fn in receiver context recv; includes property loads and the
        operator dunders applied to model-typed operands (aug-assign and
        binary operators), and nested local defs (as potential calls)."""
        key = ('callees', id(fn), recv)
        if key in self._ret_cache:
            return self._ret_cache[key]
        P = self.prog
        env = self.env(fn, recv)
        edges = []
        unresolved = []
        for n in ast.walk(fn.node):
            if isinstance(n, ast.Call):
                tg = self.resolve_call(n, fn, recv, env)
                if not tg:
                    unresolved.append(n)
                for t, r, how in tg:
                    if isinstance(t, FuncInfo):
                        edges.append((n, t, r))
            elif isinstance(n, ast.AugAssign):
                op = _AUG.get(type(n.op))
                tgt = n.target
                ts = set()
                if isinstance(tgt, ast.Name):
                    ts = self.infer(tgt, fn, recv, env)
                    for t in ts:
                        if t in P.classes and op:
                            m = P.lookup_method(t, op)
                            if isinstance(m, FuncInfo):
                                edges.append((n, m, t))
                elif isinstance(tgt, ast.Subscript):
                    for t in self.infer(tgt.value, fn, recv, env):
                        if t in P.classes:
                            for dn in ('__getitem__', '__setitem__'):
                                m = P.lookup_method(t, dn)
                                if isinstance(m, FuncInfo):
                                    edges.append((n, m, t))
            elif isinstance(n, ast.Assign):
                for tgt in n.targets:
                    if isinstance(tgt, ast.Subscript):
                        for t in self.infer(tgt.value, fn, recv, env):
                            if t in P.classes:
                                m = P.lookup_method(t, '__setitem__')
                                if isinstance(m, FuncInfo):
                                    edges.append((n, m, t))
                    elif isinstance(tgt, ast.Attribute):
                        for t in self.infer(tgt.value, fn, recv, env):
                            if t in P.classes:
                                m = P.lookup_method(t, tgt.attr, setter=True)
                                if isinstance(m, FuncInfo):
                                    edges.append((n, m, t))
            elif isinstance(n, ast.BinOp):
                op = _BIN.get(type(n.op))
                if op:
                    for t in self.infer(n.left, fn, recv, env):
                        if t in P.classes:
                            m = P.lookup_method(t, op[0])
                            if isinstance(m, FuncInfo):
                                edges.append((n, m, t))
                    for t in self.infer(n.right, fn, recv, env):
                        if t in P.classes and not any(
                                x in P.classes for x in self.infer(n.left, fn, recv, env)):
                            m = P.lookup_method(t, op[1])
                            if isinstance(m, FuncInfo):
                                edges.append((n, m, t))
            elif isinstance(n, ast.UnaryOp) and isinstance(n.op, ast.USub):
                for t in self.infer(n.operand, fn, recv, env):
                    if t in P.classes:
                        m = P.lookup_method(t, '__neg__')
                        if isinstance(m, FuncInfo):
                            edges.append((n, m, t))
        for n, m, t in self.property_loads(fn, recv, env):
            edges.append((n, m, t))
        self._ret_cache[key] = (edges, unresolved)
        return edges, unresolved

    def reachable_funcs(self, fn, recv, stop=None):
        """Transitive closure over callees: dict (qual, recv) -> path (list of
        quals) from fn.  ``stop(FuncInfo, recv)`` may prune."""
        start = (fn, recv)
        seen = {(fn.qual, recv): [fn.qual + ('[%s]' % recv if recv else '')]}
        stack = [start]
        while stack:
            f, r = stack.pop()
            edges, _ = self.callees(f, r)
            for _, t, tr in edges:
                k = (t.qual, tr)
                if k in seen:
                    continue
                seen[k] = seen[(f.qual, r)] + [t.qual + ('[%s]' % tr if tr else '')]
                if stop is not None and stop(t, tr):
                    continue
                stack.append((t, tr))
        return seen


_AUG = {ast.Add: '__iadd__', ast.Sub: '__isub__', ast.Mult: '__imul__',
        ast.Pow: '__ipow__', ast.Div: '__itruediv__', ast.FloorDiv: '__ifloordiv__'}
_BIN = {ast.Add: ('__add__', '__radd__'), ast.Sub: ('__sub__', '__rsub__'),
        ast.Mult: ('__mul__', '__rmul__'), ast.Pow: ('__pow__', '__rpow__'),
        ast.Div: ('__truediv__', '__rtruediv__'),
        ast.FloorDiv: ('__floordiv__', '__rfloordiv__')}
