"""Statement-level control-flow graph for one Python function.

Nodes are AST statements (simple statements, and the *header* of compound
statements: the test of if/while, the iterator of for, the context of with,
``try`` itself is transparent).  Three synthetic nodes: ENTRY, EXIT (normal
return / fall off the end) and RAISE (explicit ``raise``).

Edges carry a label ``(test_expr, polarity)`` for branch edges, ``('iter',
True/False)`` for loop enter / loop exit edges of ``for``, or ``None``.

Queries are reachability questions on the graph with some nodes removed; loops
are cycles (no unrolling), so answers hold for every number of iterations.
"""
import ast

ENTRY, EXIT, RAISE = 'ENTRY', 'EXIT', 'RAISE'


class CFG:
    def __init__(self, fnode):
        self.fnode = fnode
        self.succ = {ENTRY: [], EXIT: [], RAISE: []}   # node -> [(node, label)]
        self.pred = {ENTRY: [], EXIT: [], RAISE: []}
        self.nodes = [ENTRY, EXIT, RAISE]
        self._loop_stack = []
        self._handler_stack = []
        outs = self._seq(fnode.body, [(ENTRY, None)])
        for n, lab in outs:
            self._edge(n, EXIT, lab)

    # -- construction -------------------------------------------------
    def _add(self, n):
        if n not in self.succ:
            self.succ[n] = []
            self.pred[n] = []
            self.nodes.append(n)

    def _edge(self, a, b, lab=None):
        self._add(a)
        self._add(b)
        if (b, lab) not in self.succ[a]:
            self.succ[a].append((b, lab))
            self.pred[b].append((a, lab))

    def _link(self, ins, n):
        self._add(n)
        for a, lab in ins:
            self._edge(a, n, lab)
        # a statement inside try may jump to each active handler
        for handlers in self._handler_stack:
            for h in handlers:
                self._edge(n, h, ('exc', True))

    def _seq(self, stmts, ins):
        for s in stmts:
            ins = self._stmt(s, ins)
        return ins

    def _stmt(self, s, ins):
        if isinstance(s, (ast.FunctionDef, ast.ClassDef, ast.AsyncFunctionDef)):
            self._link(ins, s)
            return [(s, None)]
        if isinstance(s, ast.If):
            self._link(ins, s)
            t = self._seq(s.body, [(s, (s.test, True))])
            f = self._seq(s.orelse, [(s, (s.test, False))])
            return t + f
        if isinstance(s, ast.While):
            self._link(ins, s)
            self._loop_stack.append({'head': s, 'breaks': []})
            body_out = self._seq(s.body, [(s, (s.test, True))])
            for n, lab in body_out:
                self._edge(n, s, lab)
            info = self._loop_stack.pop()
            exits = [(s, (s.test, False))]
            exits = self._seq(s.orelse, exits) if s.orelse else exits
            return exits + info['breaks']
        if isinstance(s, (ast.For, ast.AsyncFor)):
            self._link(ins, s)
            self._loop_stack.append({'head': s, 'breaks': []})
            body_out = self._seq(s.body, [(s, ('iter', True))])
            for n, lab in body_out:
                self._edge(n, s, lab)
            info = self._loop_stack.pop()
            exits = [(s, ('iter', False))]
            exits = self._seq(s.orelse, exits) if s.orelse else exits
            return exits + info['breaks']
        if isinstance(s, (ast.With, ast.AsyncWith)):
            self._link(ins, s)
            return self._seq(s.body, [(s, None)])
        if isinstance(s, ast.Try):
            self._add(s)
            self._link(ins, s)
            self._handler_stack.append(list(s.handlers))
            body_out = self._seq(s.body, [(s, None)])
            self._handler_stack.pop()
            if s.orelse:
                body_out = self._seq(s.orelse, body_out)
            outs = list(body_out)
            for h in s.handlers:
                self._add(h)
                # reachable from any statement of the body (edges added in _link)
                outs += self._seq(h.body, [(h, None)])
            if s.finalbody:
                outs = self._seq(s.finalbody, outs)
            return outs
        if isinstance(s, ast.Return):
            self._link(ins, s)
            self._edge(s, EXIT, None)
            return []
        if isinstance(s, ast.Raise):
            self._link(ins, s)
            if self._handler_stack:
                return []  # edges to handlers were added by _link
            self._edge(s, RAISE, None)
            return []
        if isinstance(s, ast.Break):
            self._link(ins, s)
            self._loop_stack[-1]['breaks'].append((s, None))
            return []
        if isinstance(s, ast.Continue):
            self._link(ins, s)
            self._edge(s, self._loop_stack[-1]['head'], None)
            return []
        # simple statement
        self._link(ins, s)
        return [(s, None)]

    # -- queries ------------------------------------------------------
    def reachable(self, src, avoid=(), via_edge=None):
        """Set of nodes reachable from src (inclusive) without entering a node
        in ``avoid``.  ``via_edge(a, b, label) -> bool`` may veto edges."""
        avoid = set(avoid)
        seen, stack = set(), [src]
        while stack:
            n = stack.pop()
            if n in seen:
                continue
            seen.add(n)
            for b, lab in self.succ.get(n, ()):
                if b in avoid or b in seen:
                    continue
                if via_edge is not None and not via_edge(n, b, lab):
                    continue
                stack.append(b)
        return seen

    def reaches(self, src, dst, avoid=(), via_edge=None):
        return dst in self.reachable(src, avoid, via_edge)

    def dominates(self, a_set, b):
        """Every path ENTRY -> b passes through some node of a_set."""
        if not isinstance(a_set, (set, list, tuple, frozenset)):
            a_set = [a_set]
        if b in a_set:
            return True
        return b not in self.reachable(ENTRY, avoid=a_set)

    def must_pass_to_exit(self, src, through, exits=(EXIT,)):
        """Every path from src to a node in ``exits`` passes a node of
        ``through`` (src itself counts if in through)."""
        through = set(through)
        if src in through:
            return True
        r = self.reachable(src, avoid=through)
        return not any(e in r for e in exits)

    def live(self, n):
        return n in self.reachable(ENTRY)

    def edge_dominators(self, b):
        """Branch labels (test, polarity) such that every path ENTRY -> b
        traverses an edge with that label out of the node owning the test."""
        out = []
        for n in self.nodes:
            if isinstance(n, (ast.If, ast.While)):
                for pol in (True, False):
                    def veto(a, bb, lab, n=n, pol=pol):
                        return not (a is n and lab is not None and lab[0] is n.test
                                    and lab[1] == pol)
                    if b not in self.reachable(ENTRY, via_edge=veto) and b is not n:
                        out.append((n.test, pol, n))
        return out

    def stmts(self):
        return [n for n in self.nodes if n not in (ENTRY, EXIT, RAISE)]

    def paths(self, src=ENTRY, dsts=(EXIT,), limit=20000):
        """Enumerate acyclic-ish paths (each loop back edge taken at most once)
        as lists of (node, label-of-edge-taken-out-of-node)."""
        out = []
        dsts = set(dsts)

        def rec(n, path, visited_edges):
            if len(out) >= limit:
                return
            if n in dsts:
                out.append(path + [(n, None)])
                return
            for b, lab in self.succ.get(n, ()):
                e = (id(n), id(b), id(lab[0]) if lab else None, lab[1] if lab else None)
                if e in visited_edges:
                    continue
                rec(b, path + [(n, lab)], visited_edges | {e})
        rec(src, [], frozenset())
        return out


    def iteration_paths(self, loop, limit=5000):
        """Paths of one iteration of ``loop``: from the loop head along its
        body-entry edge until the head is reached again (or the function is
        left).  Each path is a list of (node, label-of-edge-taken)."""
        out = []

        def rec(n, path, visited):
            if len(out) >= limit:
                return
            for b, lab in self.succ.get(n, ()):
                if n is loop and len(path) == 0:
                    enter = lab is not None and (lab == ('iter', True) or (lab[0] is getattr(loop, 'test', None) and lab[1]))
                    if not enter:
                        continue
                e = (id(n), id(b), id(lab[0]) if lab else None, lab[1] if lab else None)
                if e in visited:
                    continue
                if b is loop or b in (EXIT, RAISE):
                    out.append(path + [(n, lab), (b, None)])
                    continue
                rec(b, path + [(n, lab)], visited | {e})
        rec(loop, [], frozenset())
        return out


_cache = {}


def cfg_of(fnode):
    c = _cache.get(id(fnode))
    if c is None or c.fnode is not fnode:
        c = CFG(fnode)
        _cache[id(fnode)] = c
    return c
