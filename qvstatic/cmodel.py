"""Program model of the C annealing kernels from clang's typed syntax tree
(`clang -fsyntax-only -Xclang -ast-dump=json`).  Nothing is compiled to code or
executed.  Sources are read from the repository's working tree (or from a
scratch directory outside /repo and /verif when a self-test variant overrides a
file; the directory is removed immediately)."""
import hashlib
import json
import os
import pathlib
import pickle
import re
import shutil
import subprocess
import sysconfig
import tempfile

from .pymodel import AnalysisError

UNITS = ['qubovert/sim/_canneal.c', 'qubovert/sim/src/anneal_quso.c', 'qubovert/sim/src/anneal_puso.c',
         'qubovert/sim/src/random.c', 'qubovert/sim/src/pcg_basic.c']
PASS = {'ImplicitCastExpr', 'CStyleCastExpr', 'ParenExpr', 'ConstantExpr'}

STUB_PYTHON_H = r'''
#include <stdlib.h>
typedef struct _object PyObject;
typedef long Py_ssize_t;
typedef PyObject *(*PyCFunction)(PyObject *, PyObject *);
typedef struct { const char *ml_name; PyCFunction ml_meth; int ml_flags; const char *ml_doc; } PyMethodDef;
typedef struct { int x; } PyModuleDef_Base;
struct PyModuleDef { PyModuleDef_Base m_base; const char *m_name; const char *m_doc; Py_ssize_t m_size; PyMethodDef *m_methods; void *a, *b, *c, *d; };
#define PyModuleDef_HEAD_INIT {0}
#define METH_VARARGS 1
#define PyMODINIT_FUNC PyObject*
PyObject *PyList_New(Py_ssize_t); int PyList_SetItem(PyObject *, Py_ssize_t, PyObject *);
PyObject *PyList_GetItem(PyObject *, Py_ssize_t); Py_ssize_t PyList_Size(PyObject *);
PyObject *PyLong_FromLong(long); long PyLong_AsLong(PyObject *);
PyObject *PyFloat_FromDouble(double); double PyFloat_AsDouble(PyObject *);
PyObject *Py_BuildValue(const char *, ...); int PyArg_ParseTuple(PyObject *, const char *, ...);
PyObject *PyModule_Create(struct PyModuleDef *);
'''


def _single_assign(block):
    """(lhs node, rhs node) when block is `X = E;` / `{ X = E; }` with X a plain variable, else None."""
    b = block
    if b.get('kind') == 'CompoundStmt':
        inner = [x for x in b.get('inner', []) if x.get('kind') != 'NullStmt']
        if len(inner) != 1:
            return None
        b = inner[0]
    if b.get('kind') == 'BinaryOperator' and b.get('opcode') == '=' and strip(b['inner'][0]).get('kind') == 'DeclRefExpr':
        return b['inner'][0], b['inner'][1]
    return None


def _merge_branch_assigns(n):
    """`if(c) x = A; else x = B;`  ->  `x = c ? A : B;`  (the statement spelling of the conditional expression)."""
    if not isinstance(n, dict):
        return n
    if n.get('inner'):
        n = dict(n)
        n['inner'] = [_merge_branch_assigns(c) for c in n['inner']]
    if n.get('kind') == 'BinaryOperator' and n.get('opcode') == '=':
        # x = -x  /  x = x * -1  /  x = -1 * x   ->   x *= -1   (one spelling of a sign flip)
        lhs, rhs = n['inner']
        lt = unparen(S(lhs)).replace(' ', '')
        r0 = strip(rhs)
        flip = False
        if isinstance(r0, dict) and r0.get('kind') == 'UnaryOperator' and r0.get('opcode') == '-' \
                and unparen(S(r0['inner'][0])).replace(' ', '') == lt:
            flip = True
        if isinstance(r0, dict) and r0.get('kind') == 'BinaryOperator' and r0.get('opcode') == '*':
            a_, b_ = [unparen(S(x)).replace(' ', '') for x in r0['inner']]
            if {a_, b_} == {lt, '-1'}:
                flip = True
        if flip:
            m = dict(n)
            m['kind'], m['opcode'] = 'CompoundAssignOperator', '*='
            m['inner'] = [lhs, dict(kind='UnaryOperator', opcode='-', inner=[dict(kind='IntegerLiteral', value='1',
                                                                              type={'qualType': 'int'})],
                                    type={'qualType': 'int'})]
            return m
    if n.get('kind') == 'IfStmt' and len(n['inner']) == 3:
        a, b = _single_assign(n['inner'][1]), _single_assign(n['inner'][2])
        if a and b and strip(a[0])['referencedDecl'].get('name') == strip(b[0])['referencedDecl'].get('name'):
            cond = dict(kind='ConditionalOperator', inner=[n['inner'][0], a[1], b[1]])
            if 'type' in a[1]:
                cond['type'] = a[1]['type']
            out = dict(kind='BinaryOperator', opcode='=', inner=[a[0], cond])
            for k in ('range', 'loc', 'type'):
                if k in n:
                    out[k] = n[k]
            return out
    return n


def _is_incr_of(st, var):
    """Is statement `st` an increment by one of the plain variable `var` (v++, ++v, v += 1, v = v + 1)?"""
    st = strip(st) if isinstance(st, dict) else st
    if not isinstance(st, dict):
        return False
    k = st.get('kind')
    if k == 'UnaryOperator' and st.get('opcode') == '++':
        return unparen(S(st['inner'][0])) == var
    if k == 'CompoundAssignOperator' and st.get('opcode') == '+=':
        return unparen(S(st['inner'][0])) == var and unparen(S(st['inner'][1])) == '1'
    if k == 'BinaryOperator' and st.get('opcode') == '=' and unparen(S(st['inner'][0])) == var:
        r = unparen(S(st['inner'][1])).replace(' ', '')
        return r in ('%s+1' % var, '1+%s' % var)
    return False


def _assigns_var(n, var):
    for x in _walk_nodes(n):
        k = x.get('kind')
        if k in ('BinaryOperator', 'CompoundAssignOperator') and x.get('opcode', '').endswith('=') and x.get('opcode') not in ('==', '!=', '<=', '>=') \
                and unparen(S(x['inner'][0])) == var:
            return True
        if k == 'UnaryOperator' and x.get('opcode') in ('++', '--') and unparen(S(x['inner'][0])) == var:
            return True
    return False


def _cursor_pointers(body):
    """A local pointer that starts at an array (`const int *p = terms;`), is only ever advanced (`p++`, `p += k`) and
    read through `*p` / `p[k]` is the pointer spelling of an index cursor: rewritten to `long p = 0`, `terms[p]`,
    `terms[p + k]` so that the cursor idiom is recognised in one form."""
    decls = {}
    for x in _walk_nodes(body):
        if x.get('kind') == 'VarDecl' and '*' in (x.get('type') or {}).get('qualType', '') and x.get('inner'):
            init = strip(x['inner'][0])
            if init.get('kind') == 'DeclRefExpr' and '*' in (init.get('type') or {}).get('qualType', '*'):
                decls[x['id']] = (x, init)
    if not decls:
        return body
    bad = set()

    def refs(n):
        return strip(n).get('kind') == 'DeclRefExpr' and (strip(n).get('referencedDecl') or {}).get('id') in decls

    def rid(n):
        return (strip(n).get('referencedDecl') or {}).get('id')

    def scan(n, parent=None, role=None):
        if not isinstance(n, dict):
            return
        k = n.get('kind')
        if k == 'DeclRefExpr' and (n.get('referencedDecl') or {}).get('id') in decls:
            if role not in ('deref', 'subbase', 'incr'):
                bad.add(n['referencedDecl']['id'])
            return
        kids = n.get('inner', []) or []
        if k == 'UnaryOperator' and n.get('opcode') == '*' and refs(kids[0]):
            scan(strip(kids[0]), n, 'deref')
            return
        if k == 'UnaryOperator' and n.get('opcode') in ('++',) and refs(kids[0]):
            scan(strip(kids[0]), n, 'incr')
            return
        if k == 'CompoundAssignOperator' and n.get('opcode') == '+=' and refs(kids[0]):
            scan(strip(kids[0]), n, 'incr')
            scan(kids[1], n)
            return
        if k == 'ArraySubscriptExpr' and refs(kids[0]):
            scan(strip(kids[0]), n, 'subbase')
            scan(kids[1], n)
            return
        for c in kids:
            scan(c, n)
    for x in _walk_nodes(body):
        if x.get('kind') == 'VarDecl' and x.get('id') in decls:
            continue
    # scan everything except the initialisers of the cursor declarations themselves
    def scan_top(n):
        if not isinstance(n, dict):
            return
        if n.get('kind') == 'VarDecl' and n.get('id') in decls:
            return
        if n.get('kind') in ('UnaryOperator', 'CompoundAssignOperator', 'ArraySubscriptExpr', 'DeclRefExpr'):
            scan(n)
            return
        for c in n.get('inner', []) or []:
            scan_top(c)
    scan_top(body)
    good = {i: v for i, v in decls.items() if i not in bad}
    if not good:
        return body
    LONG = {'qualType': 'long'}

    def idx_ref(n):
        m = dict(strip(n))
        m['type'] = LONG
        return m

    def rw(n):
        if not isinstance(n, dict):
            return n
        k = n.get('kind')
        kids = n.get('inner', []) or []
        if k == 'VarDecl' and n.get('id') in good:
            m = dict(n)
            m['type'] = LONG
            m['inner'] = [dict(kind='IntegerLiteral', value='0', type=LONG)]
            return m
        if k == 'UnaryOperator' and n.get('opcode') == '*' and refs(kids[0]) and rid(kids[0]) in good:
            m = dict(kind='ArraySubscriptExpr', inner=[_deep(good[rid(kids[0])][1]), idx_ref(kids[0])])
            for key in ('type', 'range', 'loc', 'valueCategory'):
                if key in n:
                    m[key] = n[key]
            return m
        if k == 'ArraySubscriptExpr' and refs(kids[0]) and rid(kids[0]) in good:
            m = dict(n)
            m['inner'] = [_deep(good[rid(kids[0])][1]),
                          dict(kind='BinaryOperator', opcode='+', inner=[idx_ref(kids[0]), rw(kids[1])], type=LONG)]
            return m
        if k == 'DeclRefExpr' and (n.get('referencedDecl') or {}).get('id') in good:
            return idx_ref(n)
        if kids:
            m = dict(n)
            m['inner'] = [rw(c) for c in kids]
            return m
        return n
    return rw(body)


def _running_offsets(body):
    """`long acc = 0; for(v=0; v<N; v++) { index[v] = acc; ... acc ... ; acc += cnt[v]; }` - the running-offset spelling of
    the prefix sums - is rewritten to the reference spelling `if(N) index[0] = 0; for(..) { if(v) index[v] = index[v-1] +
    cnt[v-1]; ... index[v] ... }`, so that the row idioms are recognised in one form.  Only when `acc` has no other use, the
    loop body cannot skip the increment (no continue / break / goto / return) and `index` has no other writer."""
    if not isinstance(body, dict):
        return body
    LONG = {'qualType': 'long'}

    def name_of(n):
        n = strip(n)
        return (n.get('referencedDecl') or {}).get('name') if isinstance(n, dict) and n.get('kind') == 'DeclRefExpr' else None

    def lit(v):
        return dict(kind='IntegerLiteral', value=str(v), type=LONG)

    def sub(a, i):
        return dict(kind='ArraySubscriptExpr', inner=[_deep(strip(a)), i], type=LONG)

    def try_block(blk):
        kids = blk.get('inner', []) or []
        for li, F in enumerate(kids):
            if not (isinstance(F, dict) and F.get('kind') == 'ForStmt' and len(F.get('inner', [])) == 5):
                continue
            init, _, cond, inc, fb = F['inner']
            c = strip(cond) if cond else {}
            if not (isinstance(fb, dict) and fb.get('kind') == 'CompoundStmt' and c.get('kind') == 'BinaryOperator' and c.get('opcode') == '<'):
                continue
            v = name_of(c['inner'][0])
            i0 = init or {}
            lo = None
            if i0.get('kind') == 'BinaryOperator' and i0.get('opcode') == '=' and name_of(i0['inner'][0]) == v:
                lo = unparen(S(i0['inner'][1]))
            elif i0.get('kind') == 'DeclStmt' and i0['inner'][0].get('name') == v and i0['inner'][0].get('inner'):
                lo = unparen(S(i0['inner'][0]['inner'][0]))
            if v is None or lo != '0' or not _is_incr_of(inc, v):
                continue
            fk = fb.get('inner', []) or []
            pidx = qidx = None
            arr = acc = cnt = None
            for i_, st in enumerate(fk):
                t = strip(st)
                if pidx is None and isinstance(t, dict) and t.get('kind') == 'BinaryOperator' and t.get('opcode') == '=':
                    l, r = strip(t['inner'][0]), strip(t['inner'][1])
                    if l.get('kind') == 'ArraySubscriptExpr' and name_of(l['inner'][0]) and name_of(l['inner'][1]) == v and name_of(r):
                        pidx, arr, acc, arr_node, v_node = i_, name_of(l['inner'][0]), name_of(r), l['inner'][0], l['inner'][1]
                        continue
                if pidx is not None and isinstance(t, dict) and t.get('kind') == 'CompoundAssignOperator' and t.get('opcode') == '+=' \
                        and name_of(t['inner'][0]) == acc:
                    r = strip(t['inner'][1])
                    if r.get('kind') == 'ArraySubscriptExpr' and name_of(r['inner'][0]) and name_of(r['inner'][1]) == v:
                        qidx, cnt_node = i_, r['inner'][0]
                        break
            if pidx is None or qidx is None:
                continue
            # acc: declared with 0 in this block before the loop, written nowhere else, read only between p and q
            decl_i = None
            for i_, st in enumerate(kids[:li]):
                if isinstance(st, dict) and st.get('kind') == 'DeclStmt' and len(st.get('inner', [])) == 1 and st['inner'][0].get('name') == acc \
                        and st['inner'][0].get('inner') and unparen(S(st['inner'][0]['inner'][0])) in ('0',):
                    decl_i = i_
            if decl_i is None:
                continue
            window = fk[pidx + 1:qidx]
            allowed = {id(x) for st in window for x in _walk_nodes(st)} | {id(x) for x in _walk_nodes(fk[pidx])} | {id(x) for x in _walk_nodes(fk[qidx])}
            other_use = [x for x in _walk_nodes(body) if x.get('kind') == 'DeclRefExpr' and (x.get('referencedDecl') or {}).get('name') == acc
                         and id(x) not in allowed]
            if other_use or any(_assigns_var(st, acc) for st in window) or any(_assigns_var(st, v) for st in fk):
                continue
            if any(x.get('kind') in ('ContinueStmt', 'BreakStmt', 'GotoStmt', 'ReturnStmt') for st in fk for x in _walk_nodes(st)):
                continue
            writers = [x for x in _walk_nodes(body) if x.get('kind') in ('BinaryOperator', 'CompoundAssignOperator') and
                       x.get('opcode', '').endswith('=') and x.get('opcode') not in ('==', '!=', '<=', '>=') and
                       strip(x['inner'][0]).get('kind') == 'ArraySubscriptExpr' and name_of(strip(x['inner'][0])['inner'][0]) == arr]
            if len(writers) != 1:
                continue

            def vm1():
                return dict(kind='BinaryOperator', opcode='-', inner=[_deep(strip(v_node)), lit(1)], type=LONG)

            def repl(n):
                if not isinstance(n, dict):
                    return n
                if n.get('kind') == 'DeclRefExpr' and (n.get('referencedDecl') or {}).get('name') == acc:
                    return sub(arr_node, _deep(strip(v_node)))
                if n.get('inner'):
                    m = dict(n)
                    m['inner'] = [repl(x) for x in n['inner']]
                    return m
                return n
            pre = dict(kind='IfStmt', inner=[_deep(strip(c['inner'][1])),
                                             dict(kind='CompoundStmt', inner=[dict(kind='BinaryOperator', opcode='=', type=LONG,
                                                                                   inner=[sub(arr_node, lit(0)), lit(0)])])])
            step = dict(kind='IfStmt', inner=[_deep(strip(v_node)),
                                              dict(kind='CompoundStmt', inner=[dict(
                                                  kind='BinaryOperator', opcode='=', type=LONG,
                                                  inner=[sub(arr_node, _deep(strip(v_node))),
                                                         dict(kind='BinaryOperator', opcode='+', type=LONG,
                                                              inner=[sub(arr_node, vm1()), sub(cnt_node, vm1())])])])])
            for key in ('range', 'loc'):
                if key in fk[pidx]:
                    step[key] = fk[pidx][key]
                if key in kids[decl_i]:
                    pre[key] = kids[decl_i][key]
            nfb = dict(fb)
            nfb['inner'] = fk[:pidx] + [step] + [repl(st) for st in window] + fk[qidx + 1:]
            nF = dict(F)
            nF['inner'] = [init, _, cond, inc, nfb]
            nb = dict(blk)
            nb['inner'] = kids[:decl_i] + kids[decl_i + 1:li] + [pre, nF] + kids[li + 1:]
            return nb
        return None

    def rec(n):
        if not isinstance(n, dict):
            return n
        if n.get('kind') == 'CompoundStmt':
            for _ in range(4):
                m = try_block(n)
                if m is None:
                    break
                n = m
        if n.get('inner'):
            n = dict(n)
            n['inner'] = [rec(x) for x in n['inner']]
        return n
    return rec(body)


def _lockstep_cursors(n):
    """`k = E; ...; for(j = 0; j < n; j++, k++) { .. a[k] .. }` (a second induction variable advanced in lock step with the
    loop counter; E loop-invariant and untouched between the initialisation and the loop, k used nowhere else): k is E + j -
    rewritten so, the extra increment and the initialisation dropped."""
    if not isinstance(n, dict):
        return n
    if n.get('inner'):
        n = dict(n)
        n['inner'] = [_lockstep_cursors(c) for c in n['inner']]
    if n.get('kind') != 'CompoundStmt':
        return n
    kids = list(n.get('inner', []))

    def init_of(st):
        s0 = strip(st) if isinstance(st, dict) else st
        if isinstance(s0, dict) and s0.get('kind') == 'BinaryOperator' and s0.get('opcode') == '=' and strip(s0['inner'][0]).get('kind') == 'DeclRefExpr':
            return unparen(S(s0['inner'][0])), s0['inner'][1], 'assign'
        if isinstance(s0, dict) and s0.get('kind') == 'DeclStmt' and len(s0.get('inner', [])) == 1 and s0['inner'][0].get('kind') == 'VarDecl' \
                and s0['inner'][0].get('inner'):
            return s0['inner'][0]['name'], s0['inner'][0]['inner'][0], 'decl'
        return None

    def uses(x, name):
        return any(y.get('kind') == 'DeclRefExpr' and (y.get('referencedDecl') or {}).get('name') == name for y in _walk_nodes(x))
    changed = True
    while changed:
        changed = False
        for fi, nxt in enumerate(kids):
            if not (isinstance(nxt, dict) and nxt.get('kind') == 'ForStmt' and len(nxt.get('inner', [])) == 5):
                continue
            finit, _, cond, inc, body = nxt['inner']
            inc0 = strip(inc) if inc else {}
            if not (isinstance(inc0, dict) and inc0.get('kind') == 'BinaryOperator' and inc0.get('opcode') == ','):
                continue
            parts = [strip(x) for x in inc0['inner']]
            i0 = finit or {}
            jv = None
            if i0.get('kind') == 'BinaryOperator' and i0.get('opcode') == '=' and unparen(S(i0['inner'][1])) == '0':
                jv = unparen(S(i0['inner'][0]))
            elif i0.get('kind') == 'DeclStmt' and i0['inner'][0].get('inner') and unparen(S(i0['inner'][0]['inner'][0])) == '0':
                jv = i0['inner'][0]['name']
            if not jv or len(parts) != 2:
                continue
            jinc = [p_ for p_ in parts if _is_incr_of(p_, jv)]
            others = [p_ for p_ in parts if not _is_incr_of(p_, jv)]
            if len(jinc) != 1 or len(others) != 1:
                continue
            kname = None
            for cand in {y['referencedDecl']['name'] for y in _walk_nodes(others[0]) if y.get('kind') == 'DeclRefExpr'}:
                if _is_incr_of(others[0], cand):
                    kname = cand
            if not kname or kname == jv:
                continue
            # the latest initialisation of k before the loop, in this block
            ii = None
            for b in range(fi - 1, -1, -1):
                io = init_of(kids[b])
                if io and io[0] == kname:
                    ii = b
                    break
                if uses(kids[b], kname):
                    break
            if ii is None:
                continue
            _, init_expr, how = init_of(kids[ii])
            inv_names = {x['referencedDecl']['name'] for x in _walk_nodes(init_expr) if x.get('kind') == 'DeclRefExpr'}
            between = kids[ii + 1:fi]
            if any(uses(b_, kname) for b_ in between) or any(_assigns_var(b_, nm) for b_ in between for nm in inv_names | {kname}):
                continue
            if any(uses(r_, kname) for r_ in kids[fi + 1:]) or _assigns_var(body, kname) or any(_assigns_var(body, nm) for nm in inv_names) \
                    or jv in inv_names or kname in inv_names:
                continue
            LONG = {'qualType': 'long'}
            jref = [x for x in _walk_nodes(jinc[0]) if x.get('kind') == 'DeclRefExpr'][0]

            def rw(x):
                if not isinstance(x, dict):
                    return x
                if x.get('kind') == 'DeclRefExpr' and (x.get('referencedDecl') or {}).get('name') == kname:
                    return dict(kind='ParenExpr', type=LONG, inner=[dict(kind='BinaryOperator', opcode='+', type=LONG,
                                                                         inner=[_deep(init_expr), _deep(jref)])])
                if x.get('inner'):
                    x = dict(x)
                    x['inner'] = [rw(c) for c in x['inner']]
                return x
            nf = dict(nxt)
            nf['inner'] = [finit, _, rw(cond) if cond else cond, jinc[0], rw(body)]
            kids = kids[:ii] + kids[ii + 1:fi] + [nf] + kids[fi + 1:]
            changed = True
            break
    n = dict(n)
    n['inner'] = kids
    return n


def _while_to_for(n):
    """`v = lo; while(v < hi) { body; v += 1; }`  ->  `for(v = lo; v < hi; v += 1) { body }` when the body neither assigns v
    elsewhere nor contains `continue` (which would skip the increment of the while form)."""
    if not isinstance(n, dict):
        return n
    if n.get('inner'):
        n = dict(n)
        n['inner'] = [_while_to_for(c) for c in n['inner']]
    if n.get('kind') != 'CompoundStmt':
        return n
    out = []
    for st in n.get('inner', []):
        prev = out[-1] if out else None
        if isinstance(st, dict) and st.get('kind') == 'WhileStmt' and isinstance(prev, dict) and prev.get('kind') == 'BinaryOperator' \
                and prev.get('opcode') == '=' and strip(prev['inner'][0]).get('kind') == 'DeclRefExpr':
            var = unparen(S(prev['inner'][0]))
            cond, body = st['inner'][0], st['inner'][1]
            c = strip(cond)
            stmts = body.get('inner', []) if isinstance(body, dict) and body.get('kind') == 'CompoundStmt' else None
            if stmts and c.get('kind') == 'BinaryOperator' and c.get('opcode') in ('<', '<=', '!=') and unparen(S(c['inner'][0])) == var \
                    and _is_incr_of(stmts[-1], var) and not any(_assigns_var(x, var) for x in stmts[:-1]) \
                    and not any(x.get('kind') == 'ContinueStmt' for s_ in stmts[:-1] for x in _walk_nodes(s_)):
                nb = dict(body)
                nb['inner'] = stmts[:-1]
                f = dict(kind='ForStmt', inner=[prev, {}, cond, stmts[-1], nb])
                for key in ('range', 'loc'):
                    if key in st:
                        f[key] = st[key]
                out[-1] = f
                continue
        out.append(st)
    n = dict(n)
    n['inner'] = out
    return n


def strip(n):
    while isinstance(n, dict) and n.get('kind') in PASS and n.get('inner'):
        n = n['inner'][-1]
    return n


_PREC = {'*': 12, '/': 12, '%': 12, '+': 11, '-': 11, '<<': 10, '>>': 10, '<': 9, '<=': 9, '>': 9, '>=': 9,
         '==': 8, '!=': 8, '&': 7, '^': 6, '|': 5, '&&': 4, '||': 3, '?': 2, '=': 1, '+=': 1, '-=': 1, '*=': 1,
         '/=': 1, ',': 0}


def _T(n):
    """(text, precedence) with minimal parentheses."""
    n = strip(n)
    if not isinstance(n, dict):
        return '?', 20
    k = n.get('kind')
    if k == 'DeclRefExpr':
        return n['referencedDecl']['name'], 20
    if k in ('IntegerLiteral', 'FloatingLiteral'):
        return str(n['value']), 20
    if k == 'StringLiteral':
        return n.get('value', '""'), 20
    if k in ('BinaryOperator', 'CompoundAssignOperator'):
        a, b = n['inner']
        op = n['opcode']
        p = _PREC.get(op, 1)
        (ta, pa), (tb, pb) = _T(a), _T(b)
        if pa < p:
            ta = '(%s)' % ta
        if pb <= p:
            tb = '(%s)' % tb
        return '%s%s%s' % (ta, op, tb), p
    if k == 'UnaryOperator':
        t, p = _T(n['inner'][0])
        if p < 14:
            t = '(%s)' % t
        return ('%s%s' % (t, n['opcode']) if n.get('isPostfix') else '%s%s' % (n['opcode'], t)), 14
    if k == 'ArraySubscriptExpr':
        a, b = n['inner']
        ta, pa = _T(a)
        if pa < 15:
            ta = '(%s)' % ta
        return '%s[%s]' % (ta, _T(b)[0]), 15
    if k == 'CallExpr':
        return _T(n['inner'][0])[0] + '(' + ','.join(_T(x)[0] for x in n['inner'][1:]) + ')', 15
    if k == 'UnaryExprOrTypeTraitExpr':
        t = n.get('argType', {}).get('qualType')
        if t is None and n.get('inner'):
            t = 'expr:' + _T(n['inner'][0])[0]
        return 'sizeof(%s)' % t, 15
    if k == 'ConditionalOperator':
        c, a, b = n['inner']
        tc, pc = _T(c)
        if pc <= 2:
            tc = '(%s)' % tc
        return '%s?%s:%s' % (tc, _T(a)[0], _T(b)[0]), 2
    if k == 'MemberExpr':
        return _T(n['inner'][0])[0] + ('->' if n.get('isArrow') else '.') + n['name'], 15
    if k == 'InitListExpr':
        return '{...}', 20
    if k == 'RawText':
        return n['text'], n.get('prec', 0)
    return '<%s>' % k, 20


def S(n):
    """Normalised text of an expression node (minimal parentheses, no spaces
    except inside type names)."""
    return _T(n)[0]


_COMPL = {'<': '>=', '>=': '<', '>': '<=', '<=': '>', '==': '!=', '!=': '=='}


class G(str):
    """A guard atom: its normalised text, plus the condition node and the polarity under which it holds."""
    def __new__(cls, text, node=None, pos=True):
        o = str.__new__(cls, text)
        o.node, o.pos = node, pos
        return o

    def as_node(self):
        if self.pos:
            return self.node
        n = strip(self.node)
        if isinstance(n, dict) and n.get('kind') == 'BinaryOperator' and n.get('opcode') in _COMPL:
            return dict(kind='BinaryOperator', opcode=_COMPL[n['opcode']], inner=list(n['inner']))
        return dict(kind='UnaryOperator', opcode='!', inner=[self.node])


def guard_atoms(n, positive=True):
    """Atomic facts (normalised texts) known when condition node n is true (positive) / false.
    Conjunctions that hold and disjunctions that fail are split; comparisons are complemented instead of
    prefixed with '!'; double negations are removed."""
    n = strip(n)
    if not isinstance(n, dict):
        return []
    k = n.get('kind')
    if k == 'UnaryOperator' and n.get('opcode') == '!':
        return guard_atoms(n['inner'][0], not positive)
    if k == 'BinaryOperator' and n.get('opcode') == '&&':
        if positive:
            return guard_atoms(n['inner'][0], True) + guard_atoms(n['inner'][1], True)
        return [G('!(' + S(n) + ')', n, False)]
    if k == 'BinaryOperator' and n.get('opcode') == '||':
        if not positive:
            return guard_atoms(n['inner'][0], False) + guard_atoms(n['inner'][1], False)
        return [G(S(n), n, True)]
    if k == 'BinaryOperator' and n.get('opcode') in _COMPL:
        if positive:
            return [G(S(n), n, True)]
        a, b = n['inner']
        return [G('%s%s%s' % (S(a), _COMPL[n['opcode']], S(b)), n, False)]
    return [G(S(n), n, True)] if positive else [G('!' + S(n), n, False)]


def unparen(e):
    while e.startswith('(') and e.endswith(')'):
        depth = 0
        ok = True
        for i, ch in enumerate(e):
            if ch == '(':
                depth += 1
            elif ch == ')':
                depth -= 1
                if depth == 0 and i != len(e) - 1:
                    ok = False
                    break
        if not ok:
            break
        e = e[1:-1]
    return e


def line_of(n, default=None):
    for key in ('range', 'loc'):
        d = n.get(key) or {}
        b = d.get('begin', d)
        for src in (b, b.get('expansionLoc', {}), b.get('spellingLoc', {})):
            if 'line' in src:
                return src['line']
    return default


def _walk_nodes(n):
    if isinstance(n, dict):
        yield n
        for c in n.get('inner', []) or []:
            yield from _walk_nodes(c)


def _undo_c_renames(funcs, unit, fn_renames):
    """Undo consistent renames of static helpers, parameters and locals (see c_reference.py): the rules read names from
    the model, and a name is not behaviour.  Parameters are matched by position, locals by name first, then by type in
    declaration order, functions of a unit by their parameter type list."""
    from .c_reference import REFERENCE
    present = {fn['name'] for fn in funcs}
    ref_here = {k: v for k, v in REFERENCE.items() if v['unit'] == unit}
    missing = [k for k in ref_here if k not in present]
    for fn in funcs:
        if fn['name'] in REFERENCE:
            continue
        ptypes = [p['type']['qualType'] for p in fn.get('inner', []) if p.get('kind') == 'ParmVarDecl']
        cand = [k for k in missing if [t for _, t in ref_here[k]['params']] == ptypes]
        if len(cand) == 1:
            fn_renames[fn['name']] = cand[0]
            fn['name'] = cand[0]
            missing.remove(cand[0])
    for fn in funcs:
        ref = REFERENCE.get(fn['name'])
        if ref is None or ref['unit'] != unit:
            continue
        idmap = {}
        params = [p for p in fn.get('inner', []) if p.get('kind') == 'ParmVarDecl']
        if len(params) == len(ref['params']):
            for p_, (rn, rt) in zip(params, ref['params']):
                if p_.get('name') and p_['name'] != rn:
                    idmap[p_['id']] = rn
        body = [c for c in fn.get('inner', []) if c.get('kind') == 'CompoundStmt']
        decls = [n for n in _walk_nodes(body[0])] if body else []
        decls = [n for n in decls if n.get('kind') == 'VarDecl']
        cur_names = [d['name'] for d in decls]
        ref_un = [(n_, t_) for n_, t_ in ref['locals'] if n_ not in cur_names]
        cur_un = [d for d in decls if d['name'] not in [n_ for n_, _ in ref['locals']]]
        # by type, in declaration order
        for t_ in sorted({t for _, t in ref_un}):
            r_ = [n_ for n_, tt in ref_un if tt == t_]
            c_ = [d for d in cur_un if d['type']['qualType'] == t_]
            if len(r_) == len(c_):
                for d, rn in zip(c_, r_):
                    idmap[d['id']] = rn
                ref_un = [(n_, tt) for n_, tt in ref_un if tt != t_]
                cur_un = [d for d in cur_un if d['type']['qualType'] != t_]
        if ref_un and len(ref_un) == len(cur_un):
            for d, (rn, _) in zip(cur_un, ref_un):
                idmap[d['id']] = rn
        if not idmap:
            continue
        taken = {p_.get('name') for p_ in params if p_['id'] not in idmap} | {d['name'] for d in decls if d['id'] not in idmap}
        idmap = {k: v for k, v in idmap.items() if v not in taken}
        for n in _walk_nodes(fn):
            if n.get('kind') in ('ParmVarDecl', 'VarDecl') and n.get('id') in idmap:
                n['name'] = idmap[n['id']]
            rd = n.get('referencedDecl')
            if isinstance(rd, dict) and rd.get('id') in idmap:
                rd['name'] = idmap[rd['id']]


def _deep(n):
    if isinstance(n, dict):
        return {k: _deep(v) for k, v in n.items()}
    if isinstance(n, list):
        return [_deep(x) for x in n]
    return n


def _callee_name(call):
    c = strip(call['inner'][0]) if call.get('inner') else {}
    rd = c.get('referencedDecl') or {}
    return rd.get('name') if rd.get('kind') == 'FunctionDecl' else None


def _scalarise_struct_params(units, notes):
    """A local struct that only bundles existing variables (`m.terms = terms; ...; f(.., &m)`) and is handed on by pointer is
    read as if the bundled variables were passed themselves: every function with a parameter of that struct-pointer type gets
    one parameter per member (named after the bundled variable), `p->member` becomes that parameter, call sites pass the
    members, the bundle disappears.  Parameter lists that then carry the reference's names are put in the reference order."""
    from .c_reference import REFERENCE
    allf = [fn for u, data in units for fn in data['funcs']]

    def params_of(fn):
        return [p for p in fn.get('inner', []) if p.get('kind') == 'ParmVarDecl']

    def body_of(fn):
        b = [c for c in fn.get('inner', []) if c.get('kind') == 'CompoundStmt']
        return b[0] if b else None

    def ref_to(decl):
        return dict(kind='DeclRefExpr', type=decl.get('type', {}), valueCategory='lvalue',
                    referencedDecl=dict(id=decl['id'], kind=decl['kind'], name=decl['name'], type=decl.get('type', {})))
    done = False
    for A in allf:
        bA = body_of(A)
        if bA is None:
            continue
        for S in [x for x in _walk_nodes(bA) if x.get('kind') == 'VarDecl' and not x.get('inner')]:
            T = S['type']['qualType'].replace('struct ', '').strip()
            if '*' in T or T in ('int', 'long', 'double', 'float', 'char') or ' ' in T and not T.endswith('_t'):
                continue
            uses = [x for x in _walk_nodes(bA) if x.get('kind') == 'DeclRefExpr' and (x.get('referencedDecl') or {}).get('id') == S['id']]
            if not uses:
                continue
            fields, fstmts, addr_uses = {}, [], 0
            okS = True
            avars = {x['name']: x for x in _walk_nodes(A) if x.get('kind') in ('ParmVarDecl', 'VarDecl') and x.get('name')}
            for x in _walk_nodes(bA):
                if x.get('kind') == 'BinaryOperator' and x.get('opcode') == '=':
                    l = strip(x['inner'][0])
                    if l.get('kind') == 'MemberExpr' and not l.get('isArrow') and strip(l['inner'][0]).get('kind') == 'DeclRefExpr' \
                            and strip(l['inner'][0])['referencedDecl'].get('id') == S['id']:
                        r = strip(x['inner'][1])
                        if l['name'] in fields or r.get('kind') != 'DeclRefExpr' or r['referencedDecl'].get('name') not in avars:
                            okS = False
                        else:
                            fields[l['name']] = avars[r['referencedDecl']['name']]
                            fstmts.append(x)
                if x.get('kind') == 'UnaryOperator' and x.get('opcode') == '&':
                    o = strip(x['inner'][0])
                    if o.get('kind') == 'DeclRefExpr' and o['referencedDecl'].get('id') == S['id']:
                        addr_uses += 1
            if not okS or not fields or addr_uses + len(fstmts) != len(uses):
                continue
            # functions that take a pointer to this struct type
            order = list(fields)
            newp = {}          # function name -> (position, old param id, [new ParmVarDecl])
            for F in allf:
                ps = params_of(F)
                for k, q in enumerate(ps):
                    qt = q['type']['qualType'].replace('const ', '').replace('struct ', '').replace(' ', '')
                    if qt == T.replace(' ', '') + '*':
                        decls = [dict(kind='ParmVarDecl', id='sc_%s_%s' % (F['name'], f), name=fields[f]['name'], type=fields[f].get('type', {})) for f in order]
                        newp[F['name']] = (k, q['id'], decls)
            if not newp:
                continue

            def members(F):
                k, qid, decls = newp[F['name']]
                by_f = dict(zip(order, decls))

                def rw(n):
                    if not isinstance(n, dict):
                        return n
                    if n.get('kind') == 'MemberExpr' and n.get('isArrow'):
                        b0 = strip(n['inner'][0])
                        if b0.get('kind') == 'DeclRefExpr' and (b0.get('referencedDecl') or {}).get('id') == qid and n.get('name') in by_f:
                            return ref_to(by_f[n['name']])
                    if n.get('inner'):
                        n = dict(n)
                        n['inner'] = [rw(c) for c in n['inner']]
                    return n
                return rw
            for F in allf:
                if F['name'] not in newp or body_of(F) is None:
                    continue
                k, qid, decls = newp[F['name']]
                nb = members(F)(body_of(F))
                ps = params_of(F)
                F['inner'] = [c for c in F['inner'] if c.get('kind') not in ('ParmVarDecl', 'CompoundStmt')] + ps[:k] + decls + ps[k + 1:] + [nb]
            # call sites
            for F in allf:
                bF = body_of(F)
                if bF is None:
                    continue
                mine = newp.get(F['name'])
                for c in _walk_nodes(bF):
                    if c.get('kind') != 'CallExpr' or _callee_name(c) not in newp:
                        continue
                    k = newp[_callee_name(c)][0]
                    args = c['inner'][1:]
                    if k >= len(args):
                        continue
                    a0 = strip(args[k])
                    repl = None
                    if a0.get('kind') == 'UnaryOperator' and a0.get('opcode') == '&' and strip(a0['inner'][0]).get('kind') == 'DeclRefExpr' \
                            and strip(a0['inner'][0])['referencedDecl'].get('id') == S['id']:
                        repl = [ref_to(fields[f]) for f in order]
                    elif a0.get('kind') == 'DeclRefExpr' and mine is not None and a0['referencedDecl'].get('id') == mine[1]:
                        repl = [ref_to(d) for d in mine[2]]
                    if repl is not None:
                        c['inner'] = [c['inner'][0]] + args[:k] + repl + args[k + 1:]
            # the bundle itself
            drop = {id(x) for x in fstmts}

            def prune(n):
                if isinstance(n, dict) and n.get('inner'):
                    kids = []
                    for c in n['inner']:
                        c0 = strip(c) if isinstance(c, dict) else c
                        if isinstance(c0, dict) and id(c0) in drop:
                            continue
                        if isinstance(c, dict) and c.get('kind') == 'DeclStmt' and all(v.get('id') == S['id'] for v in c.get('inner', [])):
                            continue
                        kids.append(prune(c))
                    n['inner'] = kids
                return n
            prune(bA)
            notes.append('struct %s of %s read as its bundled variables %s' % (S['name'], A['name'], [fields[f]['name'] for f in order]))
            done = True
            break
    if not done:
        return
    # reference order of the parameters
    for F in allf:
        ref = REFERENCE.get(F['name'])
        if ref is None or body_of(F) is None:
            continue
        ps = params_of(F)
        names = [p_['name'] for p_ in ps]
        rnames = [n_ for n_, _ in ref['params']]
        if names == rnames or sorted(names) != sorted(rnames):
            continue
        perm = [names.index(n_) for n_ in rnames]
        F['inner'] = [c for c in F['inner'] if c.get('kind') not in ('ParmVarDecl', 'CompoundStmt')] + [ps[i_] for i_ in perm] + [body_of(F)]
        for G in allf:
            bG = body_of(G)
            if bG is None:
                continue
            for c in _walk_nodes(bG):
                if c.get('kind') == 'CallExpr' and _callee_name(c) == F['name'] and len(c['inner']) - 1 == len(perm):
                    a = c['inner'][1:]
                    c['inner'] = [c['inner'][0]] + [a[i_] for i_ in perm]


def _unspecialise_params(units, notes):
    """A function of the reference tree whose parameter list was specialised - it is now handed `n[i]`, a row pointer
    `a + index[i]` or a pointer to a struct that bundles the arrays, where it used to be handed the arrays and the index -
    is read in the reference form when it has exactly one call site: every specialised parameter is replaced in the body by
    the caller's argument expression (struct members by the expression the caller stored into that member), the caller's
    variables that occur in those expressions become parameters (or are identified with the parameter they are passed as),
    and the call site passes them.  Done only when the resulting parameter names are exactly the reference's."""
    from .c_reference import REFERENCE
    funcs = {}
    for u, data in units:
        for fn in data['funcs']:
            funcs[fn['name']] = (u, fn)

    def params_of(fn):
        return [p for p in fn.get('inner', []) if p.get('kind') == 'ParmVarDecl']

    def body_of(fn):
        b = [c for c in fn.get('inner', []) if c.get('kind') == 'CompoundStmt']
        return b[0] if b else None

    def ref_to(decl):
        return dict(kind='DeclRefExpr', type=decl.get('type', {}), valueCategory='lvalue',
                    referencedDecl=dict(id=decl['id'], kind=decl['kind'], name=decl['name'], type=decl.get('type', {})))
    for name, (u, fn) in list(funcs.items()):
        ref = REFERENCE.get(name)
        if ref is None or body_of(fn) is None:
            continue
        cur = params_of(fn)
        if [p['type']['qualType'].replace('const ', '') for p in cur] == [t for _, t in ref['params']]:
            continue
        sites = []
        for cname, (cu, cfn) in funcs.items():
            if cfn is fn or body_of(cfn) is None:
                continue
            for x in _walk_nodes(body_of(cfn)):
                if x.get('kind') == 'CallExpr' and _callee_name(x) == name:
                    sites.append((cfn, x))
        if len(sites) != 1:
            continue
        caller, call = sites[0]
        args = call['inner'][1:]
        if len(args) != len(cur):
            continue
        cvars = {}
        for x in _walk_nodes(caller):
            if x.get('kind') in ('ParmVarDecl', 'VarDecl') and x.get('name'):
                cvars.setdefault(x['name'], x)
        passthru, special, structs = {}, [], {}
        ok = True
        for p_, a_ in zip(cur, args):
            a0 = strip(a_)
            if a0.get('kind') == 'DeclRefExpr' and (a0.get('referencedDecl') or {}).get('name') in cvars \
                    and (a0['referencedDecl']['name'] not in passthru):
                passthru[a0['referencedDecl']['name']] = p_
                continue
            if a0.get('kind') == 'UnaryOperator' and a0.get('opcode') == '&' and strip(a0['inner'][0]).get('kind') == 'DeclRefExpr':
                sname = strip(a0['inner'][0])['referencedDecl']['name']
                fields, stmts_ = {}, []
                for x in _walk_nodes(body_of(caller)):
                    if x.get('kind') == 'BinaryOperator' and x.get('opcode') == '=':
                        l = strip(x['inner'][0])
                        if l.get('kind') == 'MemberExpr' and not l.get('isArrow') and strip(l['inner'][0]).get('kind') == 'DeclRefExpr' \
                                and strip(l['inner'][0])['referencedDecl']['name'] == sname:
                            if l['name'] in fields:
                                ok = False
                            fields[l['name']] = x['inner'][1]
                            stmts_.append(x)
                if not fields:
                    ok = False
                structs[p_['id']] = (sname, fields, stmts_)
                special.append((p_, None))
                continue
            special.append((p_, a_))
        if not ok or not special:
            continue
        exprs = [a_ for p_, a_ in special if a_ is not None] + [e for sid in structs for e in structs[sid][1].values()]
        needed = []
        for e in exprs:
            for x in _walk_nodes(e):
                if x.get('kind') == 'DeclRefExpr':
                    rd = x.get('referencedDecl') or {}
                    if rd.get('kind') in ('ParmVarDecl', 'VarDecl') and rd.get('name') in cvars and rd['name'] not in needed:
                        needed.append(rd['name'])
        newp = [n_ for n_ in needed if n_ not in passthru]
        final = {p_['name'] for p_ in passthru.values()} | set(newp)
        if final != {n_ for n_, _ in ref['params']}:
            continue
        # new parameter declarations of the callee
        decl_of = {}
        for i_, n_ in enumerate(newp):
            d = cvars[n_]
            decl_of[n_] = dict(kind='ParmVarDecl', id='unspec_%s_%d' % (name, i_), name=n_, type=d.get('type', {}))
        for cn, p_ in passthru.items():
            decl_of[cn] = p_

        def into_callee(e):
            if not isinstance(e, dict):
                return e
            if e.get('kind') == 'DeclRefExpr':
                rd = e.get('referencedDecl') or {}
                if rd.get('name') in decl_of and rd.get('kind') in ('ParmVarDecl', 'VarDecl'):
                    return ref_to(decl_of[rd['name']])
            if e.get('inner'):
                e = dict(e)
                e['inner'] = [into_callee(c) for c in e['inner']]
            return e
        sub = {p_['id']: into_callee(_deep(a_)) for p_, a_ in special if a_ is not None}
        fsub = {sid: {f: into_callee(_deep(e)) for f, e in structs[sid][1].items()} for sid in structs}

        def rewrite(n):
            if not isinstance(n, dict):
                return n
            if n.get('kind') == 'MemberExpr' and n.get('isArrow'):
                b0 = strip(n['inner'][0])
                pid = (b0.get('referencedDecl') or {}).get('id') if b0.get('kind') == 'DeclRefExpr' else None
                if pid in fsub and n.get('name') in fsub[pid]:
                    return dict(kind='ParenExpr', inner=[_deep(fsub[pid][n['name']])], type=n.get('type', {}))
            if n.get('kind') == 'DeclRefExpr':
                pid = (n.get('referencedDecl') or {}).get('id')
                if pid in sub:
                    return dict(kind='ParenExpr', inner=[_deep(sub[pid])], type=n.get('type', {}))
            if n.get('inner'):
                n = dict(n)
                n['inner'] = [rewrite(c) for c in n['inner']]
            return n
        nb = rewrite(body_of(fn))
        by_name = {p_['name']: p_ for p_ in passthru.values()}
        by_name.update({n_: decl_of[n_] for n_ in newp})
        new_params = [by_name[n_] for n_, _ in ref['params']]
        fn['inner'] = [c for c in fn['inner'] if c.get('kind') not in ('ParmVarDecl', 'CompoundStmt')] + new_params + [nb]
        # the call site passes the reference parameters; struct bundles of the caller disappear
        inv = {p_['name']: cn for cn, p_ in passthru.items()}
        new_args = []
        for n_, _ in ref['params']:
            cn = inv.get(n_, n_)
            new_args.append(ref_to(cvars[cn]))
        call['inner'] = [call['inner'][0]] + new_args
        drop = {id(x) for sid in structs for x in structs[sid][2]}
        snames = {structs[sid][0] for sid in structs}
        if drop or snames:
            def prune(n):
                if not isinstance(n, dict):
                    return n
                if n.get('inner'):
                    kids = []
                    for c in n['inner']:
                        c0 = strip(c) if isinstance(c, dict) else c
                        if isinstance(c0, dict) and id(c0) in drop:
                            continue
                        if isinstance(c, dict) and c.get('kind') == 'DeclStmt' and all(v.get('name') in snames for v in c.get('inner', [])):
                            continue
                        kids.append(prune(c))
                    n['inner'] = kids
                return n
            prune(body_of(caller))
        notes.append('read %s with the reference parameter list (specialised parameters replaced by the call site\'s expressions)' % name)


def _inline_new_c_helpers(units, notes):
    """A static helper that the reference tree does not have (see c_reference.py) is the product of an extract-function
    refactoring: its body is put back at its call sites in the model - `h(a);` and `x = h(a);` / `T x = h(a);` statements
    for helpers whose only `return` is their last statement, any call for helpers that consist of one `return expr;` -
    with parameters replaced by the argument expressions and locals renamed.  A helper inlined at every call is dropped."""
    from .c_reference import REFERENCE
    funcs = {}
    for u, data in units:
        for fn in data['funcs']:
            funcs[fn['name']] = (u, fn)
    new = {name for name in funcs if name not in REFERENCE}
    if not new:
        return

    def body_of(fn):
        b = [c for c in fn.get('inner', []) if c.get('kind') == 'CompoundStmt']
        return b[0] if b else None

    def params_of(fn):
        return [p for p in fn.get('inner', []) if p.get('kind') == 'ParmVarDecl']

    def returns_in(n):
        return [x for x in _walk_nodes(n) if x.get('kind') == 'ReturnStmt']

    def shape(fn):
        """'expr' (single return expr), 'tail' (returns only as last statement or none), or None."""
        b = body_of(fn)
        if b is None:
            return None
        stmts = [x for x in b.get('inner', []) if x.get('kind') != 'NullStmt']
        rets = returns_in(b)
        if len(stmts) == 1 and stmts[0].get('kind') == 'ReturnStmt' and stmts[0].get('inner'):
            return 'expr'
        if not rets or (len(rets) == 1 and stmts and stmts[-1] is rets[0]):
            return 'tail'
        return None

    uid = [0]

    def instantiate(fn, args):
        """(statements of the body without the final return, return expression or None), parameters substituted."""
        uid[0] += 1
        b = _deep(body_of(fn))
        sub = {p['id']: a for p, a in zip(params_of(fn), args)}
        ren = {}
        for x in _walk_nodes(b):
            if x.get('kind') == 'VarDecl':
                ren[x['id']] = '%s__%s%d' % (x['name'], fn['name'], uid[0])
                x['name'] = ren[x['id']]

        def rewrite(n):
            if not isinstance(n, dict):
                return n
            if n.get('kind') == 'DeclRefExpr':
                rid = (n.get('referencedDecl') or {}).get('id')
                if rid in sub:
                    return dict(kind='ParenExpr', inner=[_deep(sub[rid])], type=n.get('type', {}))
                if rid in ren:
                    n = dict(n)
                    n['referencedDecl'] = dict(n['referencedDecl'], name=ren[rid])
                    return n
            if n.get('inner'):
                n = dict(n)
                n['inner'] = [rewrite(c) for c in n['inner']]
            return n
        b = rewrite(b)

        def strip_lines(n):
            # inlined statements take the position of the call (the dump encodes lines as deltas: no `line` = same line)
            if isinstance(n, dict):
                for k in ('loc', 'range'):
                    d = n.get(k)
                    if isinstance(d, dict):
                        for sub in [d] + [d.get(x) for x in ('begin', 'end', 'spellingLoc', 'expansionLoc')] + \
                                [(d.get('begin') or {}).get(x) for x in ('spellingLoc', 'expansionLoc')] + \
                                [(d.get('end') or {}).get(x) for x in ('spellingLoc', 'expansionLoc')]:
                            if isinstance(sub, dict):
                                sub.pop('line', None)
                for c in n.get('inner', []) or []:
                    strip_lines(c)
        strip_lines(b)
        stmts = [x for x in b.get('inner', [])]
        rexpr = None
        if stmts and stmts[-1].get('kind') == 'ReturnStmt':
            r = stmts.pop()
            rexpr = r['inner'][0] if r.get('inner') else None
        return stmts, rexpr

    def outptr_copyout(stmts):
        """`*(&X) = L;` with L a local of the inlined helper (an out-parameter handed back): the local IS the caller's X -
        its declaration becomes an assignment to X, its uses become X, the hand-back statement disappears."""
        def deref_of_addr(e):
            e = strip(e)
            if isinstance(e, dict) and e.get('kind') == 'UnaryOperator' and e.get('opcode') == '*':
                a = strip(e['inner'][0])
                if isinstance(a, dict) and a.get('kind') == 'UnaryOperator' and a.get('opcode') == '&':
                    x = strip(a['inner'][0])
                    if isinstance(x, dict) and x.get('kind') == 'DeclRefExpr':
                        return x
            return None
        local_ids = {y['id'] for x in stmts for y in _walk_nodes(x) if y.get('kind') == 'VarDecl'}
        for st in list(stmts):
            s0 = strip(st)
            if not (isinstance(s0, dict) and s0.get('kind') == 'BinaryOperator' and s0.get('opcode') == '='):
                continue
            X = deref_of_addr(s0['inner'][0])
            r0 = strip(s0['inner'][1])
            rid = (r0.get('referencedDecl') or {}).get('id') if isinstance(r0, dict) and r0.get('kind') == 'DeclRefExpr' else None
            if X is None or rid not in local_ids:
                continue

            def retarget(n):
                if not isinstance(n, dict):
                    return n
                if n is st:
                    return dict(kind='CompoundStmt', inner=[], _splice=True)
                if n.get('kind') == 'DeclStmt' and any(v.get('id') == rid for v in n.get('inner', [])):
                    keep = [v for v in n['inner'] if v.get('id') != rid]
                    mine = [v for v in n['inner'] if v.get('id') == rid][0]
                    res = []
                    if keep:
                        m = dict(n)
                        m['inner'] = keep
                        res.append(m)
                    if mine.get('inner'):
                        res.append(dict(kind='BinaryOperator', opcode='=', inner=[_deep(X), retarget(mine['inner'][0])]))
                    return dict(kind='CompoundStmt', inner=res, _splice=True)
                if n.get('kind') == 'DeclRefExpr' and (n.get('referencedDecl') or {}).get('id') == rid:
                    return _deep(X)
                if n.get('inner'):
                    n = dict(n)
                    kids = []
                    for c in n['inner']:
                        c2 = retarget(c)
                        if isinstance(c2, dict) and c2.get('_splice'):
                            kids += c2['inner']
                        else:
                            kids.append(c2)
                    n['inner'] = kids
                return n
            new_stmts = []
            for x in stmts:
                x2 = retarget(x)
                if isinstance(x2, dict) and x2.get('_splice'):
                    new_stmts += x2['inner']
                else:
                    new_stmts.append(x2)
            stmts = new_stmts
            local_ids.discard(rid)
        return stmts

    inlined = set()

    def process_expr(n):
        """expression-level substitution of single-return helpers"""
        if not isinstance(n, dict):
            return n
        if n.get('inner'):
            n = dict(n)
            n['inner'] = [process_expr(c) for c in n['inner']]
        if n.get('kind') == 'CallExpr':
            h = _callee_name(n)
            if h in new and shape(funcs[h][1]) == 'expr' and len(n['inner']) - 1 == len(params_of(funcs[h][1])):
                stmts, rexpr = instantiate(funcs[h][1], n['inner'][1:])
                if not stmts and rexpr is not None:
                    inlined.add(h)
                    out = dict(kind='ParenExpr', inner=[rexpr])
                    for k in ('type', 'range', 'loc'):
                        if k in n:
                            out[k] = n[k]
                    return out
        return n

    def process_block(n, caller):
        if not isinstance(n, dict):
            return n
        if n.get('inner'):
            n = dict(n)
            n['inner'] = [process_block(c, caller) for c in n['inner']]
        if n.get('kind') != 'CompoundStmt':
            return n
        out = []
        for st in n.get('inner', []):
            s0 = strip(st) if isinstance(st, dict) else st
            call, kind, target = None, None, None
            if isinstance(s0, dict) and s0.get('kind') == 'CallExpr':
                call, kind = s0, 'stmt'
            elif isinstance(s0, dict) and s0.get('kind') == 'BinaryOperator' and s0.get('opcode') == '=' \
                    and strip(s0['inner'][1]).get('kind') == 'CallExpr':
                call, kind, target = strip(s0['inner'][1]), 'assign', s0['inner'][0]
            elif isinstance(s0, dict) and s0.get('kind') == 'DeclStmt' and len(s0.get('inner', [])) == 1 \
                    and s0['inner'][0].get('kind') == 'VarDecl' and s0['inner'][0].get('inner') \
                    and strip(s0['inner'][0]['inner'][0]).get('kind') == 'CallExpr':
                call, kind = strip(s0['inner'][0]['inner'][0]), 'decl'
            h = _callee_name(call) if call else None
            if h in new and h != caller and shape(funcs[h][1]) in ('tail', 'expr') \
                    and len(call['inner']) - 1 == len(params_of(funcs[h][1])):
                stmts, rexpr = instantiate(funcs[h][1], call['inner'][1:])
                stmts = outptr_copyout(stmts)
                if kind == 'stmt':
                    out += stmts
                    inlined.add(h)
                    continue
                if rexpr is not None and kind in ('assign', 'decl'):
                    tname = unparen(S(target)) if kind == 'assign' else s0['inner'][0]['name']
                    r0 = strip(rexpr)
                    rid = (r0.get('referencedDecl') or {}).get('id') if r0.get('kind') == 'DeclRefExpr' else None
                    local_decl = None
                    for x in stmts:
                        for y in _walk_nodes(x):
                            if y.get('kind') == 'VarDecl' and y.get('id') == rid:
                                local_decl = y
                    plain_target = kind == 'decl' or strip(target).get('kind') == 'DeclRefExpr'
                    if local_decl is not None and plain_target:
                        # the helper returns one of its locals: that local IS the caller's variable (no copy-out)
                        old_name = local_decl['name']

                        def retarget(n):
                            if not isinstance(n, dict):
                                return n
                            if n.get('kind') == 'DeclStmt' and any(v.get('id') == rid for v in n.get('inner', [])):
                                keep = [v for v in n['inner'] if v.get('id') != rid]
                                mine = [v for v in n['inner'] if v.get('id') == rid][0]
                                res = []
                                if keep:
                                    m = dict(n)
                                    m['inner'] = keep
                                    res.append(m)
                                if kind == 'decl':
                                    vd = dict(s0['inner'][0])
                                    vd['inner'] = [retarget(c) for c in mine.get('inner', [])]
                                    ds = dict(s0)
                                    ds['inner'] = [vd]
                                    res.append(ds)
                                elif mine.get('inner'):
                                    res.append(dict(kind='BinaryOperator', opcode='=', inner=[target, retarget(mine['inner'][0])]))
                                return dict(kind='CompoundStmt', inner=res, _splice=True)
                            if n.get('kind') == 'DeclRefExpr' and (n.get('referencedDecl') or {}).get('id') == rid:
                                if kind == 'assign':
                                    return _deep(target)
                                n = dict(n)
                                n['referencedDecl'] = dict(n['referencedDecl'], name=tname, id=s0['inner'][0].get('id'))
                                return n
                            if n.get('inner'):
                                n = dict(n)
                                kids = []
                                for c in n['inner']:
                                    c2 = retarget(c)
                                    if isinstance(c2, dict) and c2.get('_splice'):
                                        kids += c2['inner']
                                    else:
                                        kids.append(c2)
                                n['inner'] = kids
                            return n
                        new_stmts = []
                        for x in stmts:
                            x2 = retarget(x)
                            if isinstance(x2, dict) and x2.get('_splice'):
                                new_stmts += x2['inner']
                            else:
                                new_stmts.append(x2)
                        out += new_stmts
                        inlined.add(h)
                        continue
                    if kind == 'assign':
                        out += stmts + [dict(kind='BinaryOperator', opcode='=', inner=[target, rexpr],
                                             **{k: s0[k] for k in ('range', 'loc', 'type') if k in s0})]
                    else:
                        vd = dict(s0['inner'][0])
                        vd['inner'] = [rexpr]
                        ds = dict(s0)
                        ds['inner'] = [vd]
                        out += stmts + [ds]
                    inlined.add(h)
                    continue
            out.append(st)
        n = dict(n)
        n['inner'] = out
        return n

    for _ in range(3):
        before = len(inlined)
        for u, data in units:
            for fn in data['funcs']:
                b = body_of(fn)
                if b is None:
                    continue
                nb = process_expr(process_block(b, fn['name']))
                fn['inner'] = [nb if c is b else c for c in fn['inner']]
        if len(inlined) == before:
            break
    # drop helpers that are no longer called anywhere
    still = set()
    for u, data in units:
        for fn in data['funcs']:
            for x in _walk_nodes(fn):
                rd = x.get('referencedDecl') if isinstance(x, dict) else None
                if isinstance(rd, dict) and rd.get('kind') == 'FunctionDecl' and rd.get('name') != fn['name']:
                    still.add(rd.get('name'))
    for u, data in units:
        keep = []
        for fn in data['funcs']:
            if fn['name'] in inlined and fn['name'] not in still:
                notes.append('inlined new static helper %s' % fn['name'])
                continue
            keep.append(fn)
        data['funcs'] = keep


class CFunc:
    """One function definition with pre-computed fact lists."""

    def __init__(self, node, unit):
        self.node, self.unit, self.name = node, unit, node['name']
        self.params = [(p.get('name', ''), p['type']['qualType']) for p in node.get('inner', [])
                       if p.get('kind') == 'ParmVarDecl']
        self.ret = node['type']['qualType'].split('(')[0].strip()
        self.body = _merge_branch_assigns([c for c in node['inner'] if c.get('kind') == 'CompoundStmt'][0])
        self.line = line_of(node, 0)
        self.locals = {}      # name -> (type, init node, line)
        self.allocs = []      # dict(var, fn(malloc/realloc/calloc), count, elem, line, node, loops, guards)
        self.subs = []        # dict(base, index, write, loops, guards, line, node)
        self.calls = []       # dict(callee, args(list of nodes), argtxt, loops, guards, line, node)
        self.assigns = []     # dict(lhs, rhs(node), op, loops, guards, line, node)
        self.frees = []       # dict(arg, loops, guards, line)
        self.returns = []
        self.fors = []        # dict(var, lo, op, hi, inc, node, loops, guards, line)
        self.ifs = []
        self.jumps = []       # dict(kind, loops, guards, line)
        self.globals_used = set()
        self._cur = self.line
        self.named = {}       # local -> init node, for locals declared with an initialiser and never re-assigned
        self.body = _while_to_for(self.body)
        self.body = _lockstep_cursors(self.body)
        self.body = _running_offsets(self.body)
        self.body = _cursor_pointers(self.body)
        self._collect_named(self.body)
        self.body = self._canon_pointers(self.body)
        self.named = {}
        self._collect_named(self.body)
        self._walk(self.body, [], [])

    def _is_ptr(self, n):
        n0 = strip(n)
        if not isinstance(n0, dict):
            return False
        t = (n0.get('type') or {}).get('qualType', '')
        if '*' in t or '[' in t:
            return True
        if n0.get('kind') == 'DeclRefExpr':
            return '*' in (self.ptype(n0['referencedDecl'].get('name')) or '')
        return False

    def _split_ptr_add(self, n, depth=3):
        """(pointer node, offset node) when n is `p + off`, `off + p`, `&p[off]` or a named local holding one of these."""
        n0 = strip(n)
        if not isinstance(n0, dict) or depth <= 0:
            return None
        if n0.get('kind') == 'BinaryOperator' and n0.get('opcode') == '+':
            a, b = n0['inner']
            if self._is_ptr(a) and not self._is_ptr(b):
                return a, b
            if self._is_ptr(b) and not self._is_ptr(a):
                return b, a
        if n0.get('kind') == 'UnaryOperator' and n0.get('opcode') == '&':
            x = strip(n0['inner'][0])
            if x.get('kind') == 'ArraySubscriptExpr':
                return x['inner'][0], x['inner'][1]
        if n0.get('kind') == 'DeclRefExpr' and n0['referencedDecl'].get('name') in self.named:
            return self._split_ptr_add(self.named[n0['referencedDecl']['name']], depth - 1)
        return None

    def _canon_pointers(self, n):
        """Pointer arithmetic in subscript form: `*(p + i)` -> `p[i]`, `(p + off)[j]` / `q[j]` with `q = p + off` (a local
        that only names that address) -> `p[off + j]`.  The rules then see one spelling of every element access."""
        if not isinstance(n, dict):
            return n
        if n.get('inner'):
            n = dict(n)
            n['inner'] = [self._canon_pointers(c) for c in n['inner']]
        k = n.get('kind')
        if k == 'ArraySubscriptExpr':
            b, i = n['inner']
            sp = self._split_ptr_add(b)
            if sp:
                m = dict(n)
                m['inner'] = [sp[0], dict(kind='BinaryOperator', opcode='+', inner=[dict(kind='ParenExpr', inner=[sp[1]]), i],
                                          type=(strip(i).get('type') or {'qualType': 'long'}))]
                return self._canon_pointers(m) if self._split_ptr_add(sp[0]) else m
        if k == 'UnaryOperator' and n.get('opcode') == '*':
            sp = self._split_ptr_add(n['inner'][0])
            if sp:
                m = dict(kind='ArraySubscriptExpr', inner=[sp[0], sp[1]])
                for key in ('type', 'range', 'loc', 'valueCategory'):
                    if key in n:
                        m[key] = n[key]
                return m
        return n

    def _collect_named(self, body):
        """Locals that merely name a sub-expression: written exactly once (initialiser or one plain assignment
        outside a for-header), by a side-effect free expression over memory this function never writes."""
        import re as _re
        writes = {}        # name -> list of rhs nodes (None for ++ / compound / for-init / address-taken)
        roots_written = set()

        def root(text):
            return _re.sub(r'[\[\.\-].*', '', text.lstrip('(*&'))

        def rec(n, in_for_init=False):
            if not isinstance(n, dict):
                return
            k = n.get('kind')
            if k == 'ForStmt':
                inner = (n.get('inner') or []) + [None] * 5
                if inner[0]:
                    rec(inner[0], True)
                for c in inner[1:5]:
                    rec(c, False)
                return
            if k == 'VarDecl':
                if in_for_init:
                    writes.setdefault(n['name'], []).append(None)
                elif n.get('inner'):
                    writes.setdefault(n['name'], []).append(n['inner'][0])
            if k == 'BinaryOperator' and n.get('opcode') == '=':
                lhs = S(n['inner'][0])
                if _re.fullmatch(r'[A-Za-z_]\w*', lhs):
                    writes.setdefault(lhs, []).append(None if in_for_init else n['inner'][1])
                else:
                    roots_written.add(root(lhs))
            if k == 'CompoundAssignOperator' or (k == 'UnaryOperator' and n.get('opcode') in ('++', '--')):
                lhs = S(n['inner'][0])
                if _re.fullmatch(r'[A-Za-z_]\w*', lhs):
                    writes.setdefault(lhs, []).append(None)
                else:
                    roots_written.add(root(lhs))
            if k == 'UnaryOperator' and n.get('opcode') == '&':
                writes.setdefault(S(n['inner'][0]), []).append(None)
            for c in n.get('inner', []) or []:
                rec(c, in_for_init)
        rec(body)
        params = {p for p, t in self.params}
        for name, ws in writes.items():
            if len(ws) != 1 or ws[0] is None or name in params:
                continue
            bad = []

            def scan(x):
                if isinstance(x, dict):
                    kk = x.get('kind')
                    if kk in ('CallExpr', 'CompoundAssignOperator', 'ConditionalOperator') or \
                            (kk == 'UnaryOperator' and x.get('opcode') in ('++', '--')) or \
                            (kk == 'BinaryOperator' and x.get('opcode') == '='):
                        bad.append(x)
                    if kk == 'ArraySubscriptExpr' and root(S(x)) in roots_written:
                        bad.append(x)
                    if kk == 'DeclRefExpr' and x['referencedDecl'].get('name') == name:
                        bad.append(x)
                    for c in x.get('inner', []) or []:
                        scan(c)
            scan(ws[0])
            if not bad:
                self.named[name] = ws[0]

    def expand(self, n, depth=3):
        """Copy of expression node n with named sub-expression locals replaced by their initialisers."""
        if not isinstance(n, dict) or depth <= 0:
            return n
        n0 = strip(n)
        if n0.get('kind') == 'DeclRefExpr' and n0['referencedDecl'].get('name') in self.named:
            return dict(kind='ParenExpr', inner=[self.expand(self.named[n0['referencedDecl']['name']], depth - 1)])
        if not n.get('inner'):
            return n
        m = dict(n)
        m['inner'] = [self.expand(c, depth) for c in n['inner']]
        return m

    def ptype(self, name):
        for n, t in self.params:
            if n == name:
                return t
        if name in self.locals:
            return self.locals[name][0]
        return None

    def _alloc_of(self, rhs):
        r = strip(rhs)
        if isinstance(r, dict) and r.get('kind') == 'CallExpr' and S(r['inner'][0]) in ('malloc', 'realloc', 'calloc'):
            fn = S(r['inner'][0])
            if fn == 'calloc':
                return fn, S(r['inner'][1]), S(r['inner'][2]), r
            arg = strip(r['inner'][-1])
            if arg.get('kind') == 'BinaryOperator' and arg['opcode'] == '*':
                a, b = arg['inner']
                if strip(b).get('kind') == 'UnaryExprOrTypeTraitExpr':
                    return fn, unparen(S(a)), S(b), r
                if strip(a).get('kind') == 'UnaryExprOrTypeTraitExpr':
                    return fn, unparen(S(b)), S(a), r
            if arg.get('kind') == 'UnaryExprOrTypeTraitExpr':
                return fn, '1', S(arg), r
            return fn, unparen(S(arg)), '?', r
        return None

    def _walk(self, n, loops, guards, write=False):
        if not isinstance(n, dict):
            return
        k = n.get('kind')
        ln = line_of(n)
        if ln:
            self._cur = ln
        if k == 'ForStmt':
            init, _, cond, inc, body = (n['inner'] + [None] * 5)[:5]
            var = lo = None
            i0 = init or {}
            if i0.get('kind') == 'BinaryOperator' and i0.get('opcode') == '=':
                var, lo = S(i0['inner'][0]), unparen(S(i0['inner'][1]))
            elif i0.get('kind') == 'DeclStmt':
                vd = i0['inner'][0]
                var = vd['name']
                lo = unparen(S(vd['inner'][0])) if vd.get('inner') else None
                self.locals[var] = (vd['type']['qualType'], vd['inner'][0] if vd.get('inner') else None, self._cur)
            c = strip(cond) if cond else {}
            op = hi = None
            if c.get('kind') == 'BinaryOperator':
                op, hi = c['opcode'], unparen(S(self.expand(c['inner'][1])))
                if unparen(S(c['inner'][0])) != var:
                    op = hi = None
            incs = unparen(S(inc)) if inc else None
            info = dict(var=var, lo=lo, op=op, hi=hi, inc=incs, node=n, loops=list(loops), guards=list(guards), line=self._cur)
            self.fors.append(info)
            if init:
                n0 = len(self.assigns)
                self._walk(init, loops, guards)
                for a_ in self.assigns[n0:]:
                    a_['forinit'] = True
            if cond:
                self._walk(cond, loops, guards)
            self._walk(body, loops + [info], guards)
            if inc:
                self._walk(inc, loops + [info], guards)
            return
        if k in ('WhileStmt', 'DoStmt'):
            info = dict(var=None, lo=None, op=None, hi=None, inc=None, node=n, loops=list(loops), guards=list(guards),
                        line=self._cur, kind=k)
            self.fors.append(info)
            for c in n.get('inner', []):
                self._walk(c, loops + [info], guards)
            return
        if k == 'IfStmt':
            cond = n['inner'][0]
            self.ifs.append(dict(cond=cond, node=n, loops=list(loops), guards=list(guards), line=self._cur))
            self._walk(cond, loops, guards)
            self._walk(n['inner'][1], loops, guards + guard_atoms(cond, True))
            if len(n['inner']) > 2:
                self._walk(n['inner'][2], loops, guards + guard_atoms(cond, False))
            return
        if k == 'ConditionalOperator':
            c, a, b = n['inner']
            self._walk(c, loops, guards)
            self._walk(a, loops, guards + guard_atoms(c, True))
            self._walk(b, loops, guards + guard_atoms(c, False))
            return
        if k == 'BinaryOperator' and n.get('opcode') in ('&&', '||'):
            a, b = n['inner']
            self._walk(a, loops, guards)
            self._walk(b, loops, guards + guard_atoms(a, n['opcode'] == '&&'))
            return
        if k == 'VarDecl':
            init = n['inner'][0] if n.get('inner') else None
            ty = n['type']['qualType']
            if n.get('storageClass') == 'static':
                ty = 'static ' + ty
            self.locals[n['name']] = (ty, init, self._cur)
            if init is not None:
                a = self._alloc_of(init)
                if a:
                    self.allocs.append(dict(var=n['name'], fn=a[0], count=a[1], elem=a[2], line=self._cur, node=a[3],
                                            loops=list(loops), guards=list(guards)))
                self.assigns.append(dict(lhs=n['name'], rhs=init, op='=', loops=list(loops), guards=list(guards),
                                         line=self._cur, node=n, decl=True))
                self._walk(init, loops, guards)
            return
        if k == 'BinaryOperator' and n.get('opcode') == '=':
            lhs, rhs = n['inner']
            a = self._alloc_of(rhs)
            if a:
                self.allocs.append(dict(var=unparen(S(lhs)), fn=a[0], count=a[1], elem=a[2], line=self._cur, node=a[3],
                                        loops=list(loops), guards=list(guards)))
            self.assigns.append(dict(lhs=unparen(S(lhs)), rhs=rhs, op='=', loops=list(loops), guards=list(guards),
                                     line=self._cur, node=n))
            self._walk(lhs, loops, guards, write=True)
            self._walk(rhs, loops, guards)
            return
        if k == 'CompoundAssignOperator':
            lhs, rhs = n['inner']
            self.assigns.append(dict(lhs=unparen(S(lhs)), rhs=rhs, op=n['opcode'], loops=list(loops), guards=list(guards),
                                     line=self._cur, node=n))
            self._walk(lhs, loops, guards, write=True)
            self._walk(rhs, loops, guards)
            return
        if k == 'UnaryOperator' and n.get('opcode') in ('++', '--'):
            self.assigns.append(dict(lhs=unparen(S(n['inner'][0])), rhs=None, op=n['opcode'], loops=list(loops),
                                     guards=list(guards), line=self._cur, node=n))
            self._walk(n['inner'][0], loops, guards, write=True)
            return
        if k == 'ArraySubscriptExpr':
            b, i = n['inner']
            self.subs.append(dict(base=unparen(S(self.expand(b))), index=unparen(S(self.expand(i))), write=write,
                                  loops=list(loops), guards=list(guards), line=self._cur, node=n,
                                  raw=(unparen(S(b)), unparen(S(i)))))
            self._walk(b, loops, guards)
            self._walk(i, loops, guards)
            return
        if k == 'UnaryOperator' and n.get('opcode') == '*':
            # pointer dereference *(p + i): not an accepted idiom
            self.subs.append(dict(base='*' + unparen(S(n['inner'][0])), index='<deref>', write=write, loops=list(loops),
                                  guards=list(guards), line=self._cur, node=n))
        if k == 'CallExpr':
            callee = S(n['inner'][0])
            args = n['inner'][1:]
            self.calls.append(dict(callee=callee, args=args, argtxt=[unparen(S(a)) for a in args], loops=list(loops),
                                   guards=list(guards), line=self._cur, node=n))
            if callee == 'free':
                self.frees.append(dict(arg=unparen(S(args[0])), loops=list(loops), guards=list(guards), line=self._cur))
        if k in ('ContinueStmt', 'BreakStmt', 'GotoStmt'):
            self.jumps.append(dict(kind=k, loops=list(loops), guards=list(guards), line=self._cur))
        if k == 'ReturnStmt':
            self.returns.append(dict(value=n['inner'][0] if n.get('inner') else None, line=self._cur, loops=list(loops),
                                     guards=list(guards)))
        if k == 'DeclRefExpr':
            rd = n.get('referencedDecl', {})
            if rd.get('kind') == 'VarDecl' and rd.get('name') not in self.locals and \
                    rd.get('name') not in [p for p, _ in self.params]:
                self.globals_used.add(rd.get('name'))
        for c in n.get('inner', []) or []:
            self._walk(c, loops, guards)


class CProgram:
    def __init__(self, repo, overrides=None):
        self.repo = pathlib.Path(repo)
        self.overrides = overrides or {}
        self.funcs = {}          # name -> CFunc
        self.globals = {}        # name -> dict(unit, type, const)
        self.unit_of = {}
        self.notes = []
        self.fn_renames = {}
        self._units = []         # (unit, reduced data) in load order
        self._load()
        self._build()

    def summary(self):
        return dict(units=UNITS, functions=sorted(self.funcs), python_h=self.python_h)

    def _load(self):
        root = self.repo
        tmp = None
        if self.overrides:
            tmp = tempfile.mkdtemp(prefix='qvstatic_c_')
            shutil.copytree(self.repo / 'qubovert' / 'sim', pathlib.Path(tmp) / 'qubovert' / 'sim',
                            ignore=shutil.ignore_patterns('*.so', '__pycache__'))
            for rel, text in self.overrides.items():
                (pathlib.Path(tmp) / rel).write_text(text)
            root = pathlib.Path(tmp)
        try:
            inc = sysconfig.get_paths().get('include') or ''
            stubdir = None
            if not (pathlib.Path(inc) / 'Python.h').exists():
                stubdir = tempfile.mkdtemp(prefix='qvstatic_h_')
                (pathlib.Path(stubdir) / 'Python.h').write_text(STUB_PYTHON_H)
                inc = stubdir
                self.python_h = 'stub header (interpreter headers not found)'
            else:
                self.python_h = inc
            try:
                for u in UNITS:
                    p = root / u
                    if not p.exists():
                        raise AnalysisError("C source %s missing" % u)
                    self._unit(u, p, root, inc)
            finally:
                if stubdir:
                    shutil.rmtree(stubdir, ignore_errors=True)
        finally:
            if tmp:
                shutil.rmtree(tmp, ignore_errors=True)

    def _unit(self, u, p, root, inc):
        text = p.read_bytes()
        h = hashlib.sha1(text)
        for hdr in sorted((root / 'qubovert/sim/src').glob('*.h')):
            h.update(hdr.read_bytes())
        h.update(inc.encode())
        key = h.hexdigest()
        cache = pathlib.Path(__file__).resolve().parent.parent / '.cache'
        cf = cache / ('%s_%s.pkl' % (pathlib.Path(u).stem, key))
        data = None
        if cf.exists():
            try:
                data = pickle.loads(cf.read_bytes())
            except Exception:
                data = None
        if data is None:
            r = subprocess.run(['clang', '-fsyntax-only', '-Xclang', '-ast-dump=json', '-I', str(root / 'qubovert/sim/src'),
                                '-I', inc, str(p)], capture_output=True, text=True)
            if r.returncode != 0 or not r.stdout.strip():
                raise AnalysisError("clang cannot parse %s: %s" % (u, r.stderr[-400:]))
            tree = json.loads(r.stdout)
            data = self._reduce(tree, str(p))
            try:
                cache.mkdir(exist_ok=True)
                cf.write_bytes(pickle.dumps(data))
            except Exception:
                pass
        self._units.append((u, data))

    def _build(self):
        for u, data in self._units:
            _undo_c_renames(data['funcs'], u, self.fn_renames)
        if self.fn_renames:
            for u, data in self._units:
                for fn in data['funcs']:
                    for n in _walk_nodes(fn):
                        rd = n.get('referencedDecl')
                        if isinstance(rd, dict) and rd.get('kind') == 'FunctionDecl' and rd.get('name') in self.fn_renames:
                            rd['name'] = self.fn_renames[rd['name']]
        _inline_new_c_helpers(self._units, self.notes)
        _scalarise_struct_params(self._units, self.notes)
        _unspecialise_params(self._units, self.notes)
        for u, data in self._units:
            for fn in data['funcs']:
                f = CFunc(fn, u)
                self.funcs[f.name] = f
                self.unit_of[f.name] = u
            for g in data['globals']:
                self.globals[g['name']] = dict(unit=u, type=g['type']['qualType'], line=line_of(g, 0))

    @staticmethod
    def _reduce(tree, main_path):
        """Keep only the declarations of the main file (not of its includes)."""
        funcs, globs = [], []
        cur_file = None
        for n in tree.get('inner', []):
            loc = n.get('loc', {})
            f = loc.get('file') or (loc.get('spellingLoc') or {}).get('file') or (loc.get('expansionLoc') or {}).get('file')
            if f:
                cur_file = f
            in_main = (cur_file == main_path) and 'includedFrom' not in loc
            if not in_main:
                continue
            if n.get('kind') == 'FunctionDecl' and any(c.get('kind') == 'CompoundStmt' for c in n.get('inner', [])):
                funcs.append(n)
            elif n.get('kind') == 'VarDecl':
                globs.append(dict(name=n['name'], type=n['type'], loc=n.get('loc'), range=n.get('range')))
        return dict(funcs=funcs, globals=globs)

    # -------------------------------------------------------------- queries
    def func(self, name):
        f = self.funcs.get(name)
        if f is None:
            raise AnalysisError("C function %s not found (anchor vanished)" % name)
        return f

    def reachable(self, name):
        seen, stack = set(), [name]
        while stack:
            n = stack.pop()
            if n in seen:
                continue
            seen.add(n)
            f = self.funcs.get(n)
            if f:
                for c in f.calls:
                    stack.append(c['callee'])
        return seen
