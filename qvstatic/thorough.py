"""Thorough tier: the quick rules, the rules re-run in every receiver context
(where a rule module offers that), the two-way self-test of the checker on
in-memory variants of the current tree, and for the C-backed properties the
generic analyzers as cross-reference."""
import json
import os
import pathlib
import time

from . import cli, core, selftest


def run(prop, repo=None):
    t0 = time.time()
    os.environ['VERIF_TIER'] = 'thorough'
    mod = cli.load_rules(prop)
    code, ctx, findings = cli.run(prop, 'thorough', repo)
    if code == 2:
        return 2
    # two-way self-test
    rs = selftest.run_selftest(prop, repo or os.environ.get('QV_REPO', '/repo'))
    summ = selftest.summarise(rs)
    bad = [r for r in rs if r['status'] in selftest.BAD]
    mech = selftest.run_mechanical(prop, repo or os.environ.get('QV_REPO', '/repo'))
    mech_bad = [r for r in mech if r['status'] != 'silent']
    extra = None
    if mod is not None and hasattr(mod, 'thorough_extra'):
        try:
            extra = mod.thorough_extra(ctx)
        except core.AnalysisError as e:
            print("ANALYSIS-ERROR property=%s thorough cross-reference: %s" % (prop, e))
            return 2
    # extend the evidence written by the quick pass
    p = core.VERIF / 'evidence' / ('%s.json' % prop)
    ev = json.loads(p.read_text())
    ev['tier'] = 'thorough'
    ev['coverage']['selftest'] = dict(
        variants=len(rs), summary=summ,
        rule="breaking variants (one rule instance broken by a textual edit of an in-memory copy of the "
             "current tree) must fire; benign variants (behaviour-preserving rewrites) must stay silent; "
             "a variant whose anchor text no longer occurs is not-applicable",
        failures=[dict(name=r['name'], kind=r['kind'], status=r['status'], fired=r['fired']) for r in bad],
        samples=[dict(name=r['name'], kind=r['kind'], status=r['status'], fired=r['fired']) for r in rs[:6]])
    ev['coverage']['mechanical_refactorings'] = dict(
        rewrites=len(mech), silent=len(mech) - len(mech_bad),
        rule="every function of the property's anchored Python files rewritten seven ways (all locals renamed; every "
             "comparison flipped a<b -> b>a; every if/else and conditional expression exchanged under the negated test; else-after-return turned into a guard clause and back; return value named; `if a and b` nested); "
             "the check must stay silent on each rewritten tree",
        failures=mech_bad[:20])
    if extra:
        ev['coverage']['cross_reference'] = extra.get('summary')
        if extra.get('gating'):
            for g in extra['gating']:
                print("VIOLATION property=%s replay=%s" % (prop, g.get('replay', '(generic analyzer report)')))
                print("  " + g['text'])
                code = 1
    ev['wall_s'] = round(time.time() - t0, 3)
    p.write_text(json.dumps(ev, indent=1, default=str))
    print("%s thorough: self-test %s" % (prop, summ))
    print("%s thorough: mechanical refactorings %d, non-silent %d" % (prop, len(mech), len(mech_bad)))
    for r in bad:
        print("  CHECKER-DEFECT %s variant %s: %s %s" % (r['kind'], r['name'], r['status'], r['fired']))
    for r in mech_bad[:10]:
        print("  CHECKER-DEFECT mechanical refactoring %s: %s %s" % (r['name'], r['status'], r.get('fired')))
    bad = bad + mech_bad
    if bad and code == 0:
        print("ANALYSIS-ERROR property=%s the checker failed its own two-way self-test" % prop)
        return 2
    return code
