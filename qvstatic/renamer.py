"""Mechanical benign variants: rename every local variable of one function (AST rewrite of an in-memory copy)."""
import ast
import builtins


class _Rename(ast.NodeTransformer):
    def __init__(self, names):
        self.names = names

    def visit_Name(self, node):
        if node.id in self.names:
            return ast.copy_location(ast.Name(id=self.names[node.id], ctx=node.ctx), node)
        return node

    def visit_FunctionDef(self, node):
        # nested function: rename free uses of the outer locals, but not its own parameters shadowing them
        own = {a.arg for a in node.args.posonlyargs + node.args.args + node.args.kwonlyargs}
        if node.name in self.names:
            node.name = self.names[node.name]
        sub = {k: v for k, v in self.names.items() if k not in own}
        t = _Rename(sub)
        node.body = [t.visit(s) for s in node.body]
        node.args.defaults = [self.visit(d) for d in node.args.defaults]
        return node

    def visit_Lambda(self, node):
        own = {a.arg for a in node.args.args}
        sub = {k: v for k, v in self.names.items() if k not in own}
        node.body = _Rename(sub).visit(node.body)
        return node


def local_names(fnode):
    a = fnode.args
    params = {x.arg for x in a.posonlyargs + a.args + a.kwonlyargs}
    if a.vararg:
        params.add(a.vararg.arg)
    if a.kwarg:
        params.add(a.kwarg.arg)
    stores, glob = set(), set()
    for n in ast.walk(fnode):
        if isinstance(n, ast.Name) and isinstance(n.ctx, (ast.Store, ast.Del)):
            stores.add(n.id)
        elif isinstance(n, (ast.Global, ast.Nonlocal)):
            glob |= set(n.names)
        elif isinstance(n, ast.FunctionDef) and n is not fnode:
            stores.add(n.name)
    # comprehension targets are their own scope but renaming them consistently is harmless
    return {s for s in stores if s not in params and s not in glob and not hasattr(builtins, s)}


def rename_locals(src_text, qual, suffix='_rn'):
    """Return new module source with the locals of function `qual` ('Class.meth' or 'func') renamed, or None."""
    tree = ast.parse(src_text)
    parts = qual.split('.')
    body = tree.body
    target = None
    for i, p in enumerate(parts):
        found = None
        for n in body:
            if isinstance(n, (ast.ClassDef, ast.FunctionDef)) and n.name == p:
                found = n
        if found is None:
            return None
        target = found
        body = found.body
    if not isinstance(target, ast.FunctionDef):
        return None
    names = {n: n + suffix for n in local_names(target)}
    if not names:
        return None
    t = _Rename(names)
    target.body = [t.visit(s) for s in target.body]
    ast.fix_missing_locations(tree)
    return ast.unparse(tree)


_FLIP = {ast.Lt: ast.Gt, ast.Gt: ast.Lt, ast.LtE: ast.GtE, ast.GtE: ast.LtE, ast.Eq: ast.Eq, ast.NotEq: ast.NotEq}


class _FlipCmp(ast.NodeTransformer):
    def visit_Compare(self, node):
        self.generic_visit(node)
        if len(node.ops) == 1 and type(node.ops[0]) in _FLIP:
            return ast.copy_location(ast.Compare(left=node.comparators[0], ops=[_FLIP[type(node.ops[0])]()],
                                                 comparators=[node.left]), node)
        return node


class _SwapIf(ast.NodeTransformer):
    def visit_If(self, node):
        self.generic_visit(node)
        if node.orelse:
            test = node.test.operand if isinstance(node.test, ast.UnaryOp) and isinstance(node.test.op, ast.Not) \
                else ast.UnaryOp(op=ast.Not(), operand=node.test)
            return ast.copy_location(ast.If(test=test, body=node.orelse, orelse=node.body), node)
        return node

    def visit_IfExp(self, node):
        self.generic_visit(node)
        test = node.test.operand if isinstance(node.test, ast.UnaryOp) and isinstance(node.test.op, ast.Not) \
            else ast.UnaryOp(op=ast.Not(), operand=node.test)
        return ast.copy_location(ast.IfExp(test=test, body=node.orelse, orelse=node.body), node)


_TERM = (ast.Return, ast.Raise, ast.Continue, ast.Break)


def _terminates(stmts):
    if not stmts:
        return False
    last = stmts[-1]
    if isinstance(last, _TERM):
        return True
    if isinstance(last, ast.If):
        return _terminates(last.body) and _terminates(last.orelse)
    return False


def _map_blocks(node, fn):
    """Apply fn(list of statements) -> list to every statement list below node (innermost first)."""
    for field in ('body', 'orelse', 'finalbody'):
        blk = getattr(node, field, None)
        if isinstance(blk, list) and blk and isinstance(blk[0], ast.stmt):
            for s in blk:
                if not isinstance(s, (ast.FunctionDef, ast.ClassDef)):
                    _map_blocks(s, fn)
            setattr(node, field, fn(blk))
    for h in getattr(node, 'handlers', []) or []:
        for s in h.body:
            _map_blocks(s, fn)
        h.body = fn(h.body)


def _guard(stmts):
    """if c: <terminates> else: B   ->   if c: <terminates> ; B"""
    out = []
    for s in stmts:
        if isinstance(s, ast.If) and s.orelse and _terminates(s.body):
            rest = s.orelse
            s.orelse = []
            out.append(s)
            out += rest
        else:
            out.append(s)
    return out


def _unguard(stmts):
    """if c: <terminates> ; rest   ->   if c: <terminates> else: rest"""
    for i, s in enumerate(stmts):
        if isinstance(s, ast.If) and not s.orelse and _terminates(s.body) and stmts[i + 1:]:
            s.orelse = _unguard(stmts[i + 1:])
            return stmts[:i + 1]
    return stmts


def _retvar(stmts):
    """return E   ->   result_ = E ; return result_"""
    out = []
    for s in stmts:
        if isinstance(s, ast.Return) and s.value is not None and not isinstance(s.value, (ast.Name, ast.Constant)):
            out.append(ast.Assign(targets=[ast.Name(id='result_', ctx=ast.Store())], value=s.value))
            out.append(ast.Return(value=ast.Name(id='result_', ctx=ast.Load())))
        else:
            out.append(s)
    return out


def _splitand(stmts):
    """if a and b: X (no else)   ->   if a: if b: X"""
    out = []
    for s in stmts:
        if isinstance(s, ast.If) and not s.orelse and isinstance(s.test, ast.BoolOp) and isinstance(s.test.op, ast.And):
            vals = s.test.values
            inner = ast.If(test=vals[-1] if len(vals) == 2 else ast.BoolOp(op=ast.And(), values=vals[1:]), body=s.body, orelse=[])
            out.append(ast.If(test=vals[0], body=[inner], orelse=[]))
        else:
            out.append(s)
    return out


_CV = [0]


def _condvar(stmts):
    """if E: ...   ->   cond_ = E ; if cond_: ...   (only for plain `if` statements that are not elif branches)"""
    out = []
    for s in stmts:
        if isinstance(s, ast.If) and not isinstance(s.test, (ast.Name, ast.Constant)):
            _CV[0] += 1
            out.append(ast.Assign(targets=[ast.Name(id='cond_%d' % _CV[0], ctx=ast.Store())], value=s.test))
            s.test = ast.Name(id='cond_%d' % _CV[0], ctx=ast.Load())
        out.append(s)
    return out


_BLOCK = {'condvar': _condvar, 'guard': _guard, 'unguard': _unguard, 'retvar': _retvar, 'splitand': _splitand}


def _find(tree, qual):
    body, target = tree.body, None
    for p in qual.split('.'):
        found = None
        for n in body:
            if isinstance(n, (ast.ClassDef, ast.FunctionDef)) and n.name == p:
                found = n
        if found is None:
            return None
        target, body = found, found.body
    return target if isinstance(target, ast.FunctionDef) else None


def rename_params(src_text, qual, suffix='_rp'):
    """Rename the parameters of a PRIVATE function / method (name starts with one underscore) in its definition, its body and
    the keyword arguments of its call sites in the same module.  Public functions keep their parameter names (API)."""
    tree = ast.parse(src_text)
    target = _find(tree, qual)
    if target is None:
        return None
    nm = target.name
    if not nm.startswith('_') or nm.startswith('__'):
        return None
    if any(isinstance(d, ast.Name) and d.id in ('property', 'staticmethod', 'classmethod') or isinstance(d, ast.Attribute)
           for d in target.decorator_list):
        return None
    a = target.args
    if a.vararg or a.kwarg:
        return None
    allp = a.posonlyargs + a.args + a.kwonlyargs
    is_method = '.' in qual
    ps = [x for x in allp[1:]] if is_method else list(allp)
    if not ps:
        return None
    names = {x.arg: x.arg + suffix for x in ps}
    for x in ps:
        x.arg = names[x.arg]
    t = _Rename(names)
    target.body = [t.visit(s_) for s_ in target.body]
    a.defaults = [t.visit(d) for d in a.defaults]
    for n in ast.walk(tree):
        if isinstance(n, ast.Call):
            f = n.func
            callee = f.id if isinstance(f, ast.Name) else (f.attr if isinstance(f, ast.Attribute) else None)
            if callee == nm:
                for k in n.keywords:
                    if k.arg in names:
                        k.arg = names[k.arg]
    ast.fix_missing_locations(tree)
    return ast.unparse(tree)



# ---------------------------------------------------------------------------------------------- extract-method
class _Scope(ast.NodeVisitor):
    """Names read / written by a list of statements in the function's own scope (comprehension and lambda variables are
    local to their expression)."""

    def __init__(self, strict=True):
        self.reads, self.writes, self.bad = [], [], False
        self._shadow = []
        self.strict = strict

    def visit_AugAssign(self, n):
        if isinstance(n.target, ast.Name) and not any(n.target.id in sh for sh in self._shadow):
            self.reads.append(n.target.id)
        self.generic_visit(n)

    def visit_Name(self, n):
        if any(n.id in sh for sh in self._shadow):
            return
        (self.reads if isinstance(n.ctx, ast.Load) else self.writes).append(n.id)

    def _comp(self, n):
        bound = set()
        for g in n.generators:
            bound |= {x.id for x in ast.walk(g.target) if isinstance(x, ast.Name)}
        # the first iterable is evaluated in the enclosing scope
        self.visit(n.generators[0].iter)
        self._shadow.append(bound)
        for i, g in enumerate(n.generators):
            if i:
                self.visit(g.iter)
            for c in g.ifs:
                self.visit(c)
        if isinstance(n, ast.DictComp):
            self.visit(n.key)
            self.visit(n.value)
        else:
            self.visit(n.elt)
        self._shadow.pop()
    visit_ListComp = visit_SetComp = visit_GeneratorExp = visit_DictComp = _comp

    def visit_Lambda(self, n):
        a = n.args
        for d in a.defaults + [d for d in a.kw_defaults if d is not None]:
            self.visit(d)
        self._shadow.append({x.arg for x in a.posonlyargs + a.args + a.kwonlyargs + ([a.vararg] if a.vararg else []) + ([a.kwarg] if a.kwarg else [])})
        self.visit(n.body)
        self._shadow.pop()

    def generic_visit(self, n):
        if isinstance(n, (ast.FunctionDef, ast.AsyncFunctionDef, ast.ClassDef, ast.Return, ast.Yield, ast.YieldFrom, ast.Global,
                          ast.Nonlocal, ast.NamedExpr, ast.Delete, ast.Await, ast.Import, ast.ImportFrom)):
            self.bad = True
            if self.strict or isinstance(n, (ast.FunctionDef, ast.AsyncFunctionDef, ast.ClassDef)):
                if not self.strict:
                    # a nested function may read anything
                    self.reads += [x.id for x in ast.walk(n) if isinstance(x, ast.Name)]
                return
        if isinstance(n, ast.Call) and isinstance(n.func, ast.Name) and n.func.id in ('super', 'locals', 'vars', 'eval', 'exec') and not n.args:
            self.bad = True
        if isinstance(n, ast.Attribute) and n.attr.startswith('__') and not n.attr.endswith('__'):
            self.bad = True          # private name mangling depends on the enclosing class
        if isinstance(n, ast.ExceptHandler) and n.name:
            self.writes.append(n.name)
        super().generic_visit(n)


def _loose_jumps(stmts):
    """break / continue not enclosed by a loop inside `stmts`"""
    def rec(n, inloop):
        if isinstance(n, (ast.Break, ast.Continue)):
            return not inloop
        if isinstance(n, (ast.FunctionDef, ast.Lambda, ast.ClassDef)):
            return False
        il = inloop or isinstance(n, (ast.For, ast.While))
        if isinstance(n, (ast.For, ast.While)):
            return any(rec(c, True) for c in n.body) or any(rec(c, inloop) for c in n.orelse)
        return any(rec(c, il) for c in ast.iter_child_nodes(n))
    return any(rec(s_, False) for s_ in stmts)


def _definitely_assigned(stmts):
    out = set()
    for s_ in stmts:
        if isinstance(s_, ast.Assign):
            for t in s_.targets:
                for x in ([t] if isinstance(t, ast.Name) else t.elts if isinstance(t, (ast.Tuple, ast.List)) else []):
                    if isinstance(x, ast.Name):
                        out.add(x.id)
        elif isinstance(s_, ast.AnnAssign) and s_.value is not None and isinstance(s_.target, ast.Name):
            out.add(s_.target.id)
        elif isinstance(s_, ast.If):
            out |= _definitely_assigned(s_.body) & _definitely_assigned(s_.orelse)
        elif isinstance(s_, (ast.With,)):
            out |= _definitely_assigned(s_.body)
    return out


def extract_method(src_text, qual, which):
    """Extract a window of top-level statements of the function into a new module-level private helper (which = 1, 2, 3
    selects window size and position).  Behaviour-preserving by construction: every name of the function's scope that the
    window touches and that is bound before it is passed in, every name it binds that is used afterwards is returned."""
    tree = ast.parse(src_text)
    target = _find(tree, qual)
    if target is None or any(isinstance(n, (ast.Yield, ast.YieldFrom)) for n in ast.walk(target)):
        return None
    if target.decorator_list and any(not (isinstance(d, ast.Name) and d.id in ('staticmethod', 'property')) and
                                     not (isinstance(d, ast.Attribute) and d.attr == 'setter') for d in target.decorator_list):
        return None
    body = target.body
    d0 = 1 if body and isinstance(body[0], ast.Expr) and isinstance(getattr(body[0], 'value', None), ast.Constant) else 0
    n = len(body) - d0
    size = which
    if n < size + 1:
        return None
    starts = {1: None, 2: d0 + n // 3, 3: d0 + n // 2}[which]
    if which == 1:
        # the largest compound statement
        cands = sorted(range(d0, len(body)), key=lambda i: -len(ast.unparse(body[i])))
        order = cands
    else:
        order = [starts] + [i for i in range(d0, len(body) - size + 1) if i != starts]
    a = target.args
    fparams = [x.arg for x in a.posonlyargs + a.args + a.kwonlyargs] + ([a.vararg.arg] if a.vararg else []) + ([a.kwarg.arg] if a.kwarg else [])
    for i in order:
        if i is None or i + size > len(body):
            continue
        win = body[i:i + size]
        sc = _Scope()
        for s_ in win:
            sc.visit(s_)
        if sc.bad or _loose_jumps(win):
            continue
        before = _Scope(strict=False)
        for s_ in body[d0:i]:
            before.visit(s_)
        after = _Scope(strict=False)
        for s_ in body[i + size:]:
            after.visit(s_)
        if before.bad and any(isinstance(x, (ast.Global, ast.Nonlocal)) for s_ in body for x in ast.walk(s_)):
            continue
        bound_before = set(fparams) | set(before.writes)
        touched = list(dict.fromkeys(sc.reads + sc.writes))
        params = [x for x in touched if x in bound_before]
        outs = [x for x in dict.fromkeys(sc.writes) if x in after.reads or x in after.writes and x in params]
        outs = [x for x in outs if x in after.reads]
        da = _definitely_assigned(win)
        if any(o not in da and o not in params for o in outs):
            continue
        # names written in the window, not bound before, read later only... covered by outs; names written and never
        # used later stay local to the helper
        if not params and not outs:
            continue
        hname = '_extracted_%s_%d' % (target.name.strip('_'), which)
        ret = [ast.Return(value=ast.Tuple(elts=[ast.Name(id=o, ctx=ast.Load()) for o in outs], ctx=ast.Load())
                          if len(outs) > 1 else ast.Name(id=outs[0], ctx=ast.Load()))] if outs else []
        helper = ast.FunctionDef(name=hname, args=ast.arguments(posonlyargs=[], args=[ast.arg(arg=p_) for p_ in params], kwonlyargs=[],
                                                                kw_defaults=[], defaults=[]),
                                 body=win + ret, decorator_list=[], type_params=[])
        call = ast.Call(func=ast.Name(id=hname, ctx=ast.Load()), args=[ast.Name(id=p_, ctx=ast.Load()) for p_ in params], keywords=[])
        if outs:
            tgt = ast.Tuple(elts=[ast.Name(id=o, ctx=ast.Store()) for o in outs], ctx=ast.Store()) if len(outs) > 1 else \
                ast.Name(id=outs[0], ctx=ast.Store())
            st = ast.Assign(targets=[tgt], value=call)
        else:
            st = ast.Expr(value=call)
        target.body = body[:i] + [st] + body[i + size:]
        # place the helper before the top-level statement that contains the function
        top = qual.split('.')[0]
        for k, tn in enumerate(tree.body):
            if isinstance(tn, (ast.ClassDef, ast.FunctionDef)) and tn.name == top:
                tree.body.insert(k, helper)
                break
        ast.fix_missing_locations(tree)
        return ast.unparse(tree)
    return None



def extract_nested(src_text, qual, which):
    """Extract a whole nested block (the body of a loop or of an if / else branch; which = 4: the largest, 5: the second
    largest, 6: the third) into a new module-level private helper.  Names bound before the block (textually) that the block
    touches are passed in, names the block binds that are read after it - or anywhere in an enclosing loop - are returned."""
    tree = ast.parse(src_text)
    target = _find(tree, qual)
    if target is None or any(isinstance(n, (ast.Yield, ast.YieldFrom)) for n in ast.walk(target)):
        return None
    if target.decorator_list and any(not (isinstance(d, ast.Name) and d.id in ('staticmethod', 'property')) and
                                     not (isinstance(d, ast.Attribute) and d.attr == 'setter') for d in target.decorator_list):
        return None
    a = target.args
    fparams = [x.arg for x in a.posonlyargs + a.args + a.kwonlyargs] + ([a.vararg.arg] if a.vararg else []) + ([a.kwarg.arg] if a.kwarg else [])
    blocks = []

    def rec(owner, loops):
        for field in ('body', 'orelse', 'finalbody'):
            lst = getattr(owner, field, None)
            if not (isinstance(lst, list) and lst and isinstance(lst[0], ast.stmt)):
                continue
            if owner is not target:
                blocks.append((owner, field, lst, list(loops)))
            for st in lst:
                if isinstance(st, (ast.FunctionDef, ast.AsyncFunctionDef, ast.ClassDef)):
                    continue
                rec(st, loops + [st] if isinstance(st, (ast.For, ast.While)) else loops)
        for h in getattr(owner, 'handlers', []) or []:
            rec(h, loops)
    rec(target, [])
    blocks.sort(key=lambda b: -sum(len(ast.unparse(x)) for x in b[2]))
    picked = 0
    for owner, field, win, loops in blocks:
        if isinstance(owner, ast.Try) and field == 'body':
            continue                                   # exceptions raised in the block are caught around the call all the same; keep simple
        sc = _Scope()
        for s_ in win:
            sc.visit(s_)
        if sc.bad or _loose_jumps(win):
            continue
        lo, hi = win[0].lineno, max(getattr(x, 'end_lineno', x.lineno) for x in win)
        inside = {id(x) for s_ in win for x in ast.walk(s_)}
        outside_names = [x for x in ast.walk(target) if isinstance(x, ast.Name) and id(x) not in inside]
        if any(isinstance(x, (ast.Global, ast.Nonlocal)) for x in ast.walk(target)):
            continue
        aug_out = [x.target.id for x in ast.walk(target) if isinstance(x, ast.AugAssign) and isinstance(x.target, ast.Name) and id(x.target) not in inside]
        bound_before = set(fparams) | {x.id for x in outside_names if isinstance(x.ctx, ast.Store) and x.lineno < lo}
        # loop targets of enclosing loops are bound before the body
        for lp in loops:
            if isinstance(lp, ast.For):
                bound_before |= {x.id for x in ast.walk(lp.target) if isinstance(x, ast.Name)}
        bound_later_in_loop = set()
        reads_in_loops = set()
        for lp in loops:
            for x in ast.walk(lp):
                if isinstance(x, ast.Name) and id(x) not in inside:
                    if isinstance(x.ctx, ast.Store) and x.lineno > hi:
                        bound_later_in_loop.add(x.id)
                    if isinstance(x.ctx, ast.Load):
                        reads_in_loops.add(x.id)
            reads_in_loops |= {n_ for n_ in aug_out}
        touched = list(dict.fromkeys(sc.reads + sc.writes))
        if any(t in bound_later_in_loop and t not in bound_before for t in touched):
            continue
        da = _definitely_assigned(win)
        params = [x for x in touched if x in bound_before]
        reads_after = {x.id for x in outside_names if isinstance(x.ctx, ast.Load) and x.lineno > hi} | \
            {n_ for n_ in aug_out}
        # nested functions defined anywhere may read anything
        for x in ast.walk(target):
            if x is not target and isinstance(x, (ast.FunctionDef, ast.Lambda)) and id(x) not in inside:
                reads_after |= {y.id for y in ast.walk(x) if isinstance(y, ast.Name)}
        outs = [x for x in dict.fromkeys(sc.writes) if x in reads_after or x in reads_in_loops or (loops and x in sc.reads and x in bound_before)]
        if any(o not in da and o not in params for o in outs):
            continue
        if not params and not outs:
            continue
        picked += 1
        if picked < which - 3:
            continue
        hname = '_extracted_%s_%d' % (target.name.strip('_'), which)
        ret = [ast.Return(value=ast.Tuple(elts=[ast.Name(id=o, ctx=ast.Load()) for o in outs], ctx=ast.Load())
                          if len(outs) > 1 else ast.Name(id=outs[0], ctx=ast.Load()))] if outs else []
        helper = ast.FunctionDef(name=hname, args=ast.arguments(posonlyargs=[], args=[ast.arg(arg=p_) for p_ in params], kwonlyargs=[],
                                                                kw_defaults=[], defaults=[]),
                                 body=list(win) + ret, decorator_list=[], type_params=[])
        call = ast.Call(func=ast.Name(id=hname, ctx=ast.Load()), args=[ast.Name(id=p_, ctx=ast.Load()) for p_ in params], keywords=[])
        if outs:
            tgt = ast.Tuple(elts=[ast.Name(id=o, ctx=ast.Store()) for o in outs], ctx=ast.Store()) if len(outs) > 1 else \
                ast.Name(id=outs[0], ctx=ast.Store())
            st = ast.Assign(targets=[tgt], value=call)
        else:
            st = ast.Expr(value=call)
        setattr(owner, field, [st])
        top = qual.split('.')[0]
        for k, tn in enumerate(tree.body):
            if isinstance(tn, (ast.ClassDef, ast.FunctionDef)) and tn.name == top:
                tree.body.insert(k, helper)
                break
        ast.fix_missing_locations(tree)
        return ast.unparse(tree)
    return None


def transform(src_text, qual, kind):
    """kind in {'rename', 'flipcmp', 'swapif'}; returns new module text or None when nothing changes."""
    if kind == 'rename':
        return rename_locals(src_text, qual)
    if kind == 'renameparams':
        return rename_params(src_text, qual)
    if kind.startswith('extract'):
        w = int(kind[7:])
        return extract_method(src_text, qual, w) if w <= 3 else extract_nested(src_text, qual, w)
    tree = ast.parse(src_text)
    target = _find(tree, qual)
    if target is None:
        return None
    before = ast.unparse(target)
    if kind in _BLOCK:
        if any(isinstance(n, (ast.Yield, ast.YieldFrom)) for n in ast.walk(target)) and kind == 'retvar':
            return None
        _map_blocks(target, _BLOCK[kind])
        ast.fix_missing_locations(tree)
        if ast.unparse(target) == before:
            return None
        return ast.unparse(tree)
    t = _FlipCmp() if kind == 'flipcmp' else _SwapIf()
    doc = target.body[:1] if target.body and isinstance(target.body[0], ast.Expr) and isinstance(getattr(target.body[0], 'value', None), ast.Constant) else []
    target.body = doc + [t.visit(s) for s in target.body[len(doc):]]
    ast.fix_missing_locations(tree)
    if ast.unparse(target) == before:
        return None
    return ast.unparse(tree)
