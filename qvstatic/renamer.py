"""Mechanical benign variants: rename every local variable of one function (AST rewrite of an in-memory copy)."""
import ast
import builtins


class _Rename(ast.NodeTransformer):
    def __init__(self, names):
        self.names = names

    def visit_Name(self, node):
        if node.id in self.names:
            return ast.copy_location(ast.Name(id=self.names[node.id], ctx=node.ctx), node)
        return node

    def visit_FunctionDef(self, node):
        # nested function: rename free uses of the outer locals, but not its own parameters shadowing them
        own = {a.arg for a in node.args.posonlyargs + node.args.args + node.args.kwonlyargs}
        if node.name in self.names:
            node.name = self.names[node.name]
        sub = {k: v for k, v in self.names.items() if k not in own}
        t = _Rename(sub)
        node.body = [t.visit(s) for s in node.body]
        node.args.defaults = [self.visit(d) for d in node.args.defaults]
        return node

    def visit_Lambda(self, node):
        own = {a.arg for a in node.args.args}
        sub = {k: v for k, v in self.names.items() if k not in own}
        node.body = _Rename(sub).visit(node.body)
        return node


def local_names(fnode):
    a = fnode.args
    params = {x.arg for x in a.posonlyargs + a.args + a.kwonlyargs}
    if a.vararg:
        params.add(a.vararg.arg)
    if a.kwarg:
        params.add(a.kwarg.arg)
    stores, glob = set(), set()
    for n in ast.walk(fnode):
        if isinstance(n, ast.Name) and isinstance(n.ctx, (ast.Store, ast.Del)):
            stores.add(n.id)
        elif isinstance(n, (ast.Global, ast.Nonlocal)):
            glob |= set(n.names)
        elif isinstance(n, ast.FunctionDef) and n is not fnode:
            stores.add(n.name)
    # comprehension targets are their own scope but renaming them consistently is harmless
    return {s for s in stores if s not in params and s not in glob and not hasattr(builtins, s)}


def rename_locals(src_text, qual, suffix='_rn'):
    """Return new module source with the locals of function `qual` ('Class.meth' or 'func') renamed, or None."""
    tree = ast.parse(src_text)
    parts = qual.split('.')
    body = tree.body
    target = None
    for i, p in enumerate(parts):
        found = None
        for n in body:
            if isinstance(n, (ast.ClassDef, ast.FunctionDef)) and n.name == p:
                found = n
        if found is None:
            return None
        target = found
        body = found.body
    if not isinstance(target, ast.FunctionDef):
        return None
    names = {n: n + suffix for n in local_names(target)}
    if not names:
        return None
    t = _Rename(names)
    target.body = [t.visit(s) for s in target.body]
    ast.fix_missing_locations(tree)
    return ast.unparse(tree)


_FLIP = {ast.Lt: ast.Gt, ast.Gt: ast.Lt, ast.LtE: ast.GtE, ast.GtE: ast.LtE, ast.Eq: ast.Eq, ast.NotEq: ast.NotEq}


class _FlipCmp(ast.NodeTransformer):
    def visit_Compare(self, node):
        self.generic_visit(node)
        if len(node.ops) == 1 and type(node.ops[0]) in _FLIP:
            return ast.copy_location(ast.Compare(left=node.comparators[0], ops=[_FLIP[type(node.ops[0])]()],
                                                 comparators=[node.left]), node)
        return node


class _SwapIf(ast.NodeTransformer):
    def visit_If(self, node):
        self.generic_visit(node)
        if node.orelse:
            test = node.test.operand if isinstance(node.test, ast.UnaryOp) and isinstance(node.test.op, ast.Not) \
                else ast.UnaryOp(op=ast.Not(), operand=node.test)
            return ast.copy_location(ast.If(test=test, body=node.orelse, orelse=node.body), node)
        return node

    def visit_IfExp(self, node):
        self.generic_visit(node)
        test = node.test.operand if isinstance(node.test, ast.UnaryOp) and isinstance(node.test.op, ast.Not) \
            else ast.UnaryOp(op=ast.Not(), operand=node.test)
        return ast.copy_location(ast.IfExp(test=test, body=node.orelse, orelse=node.body), node)


_TERM = (ast.Return, ast.Raise, ast.Continue, ast.Break)


def _terminates(stmts):
    if not stmts:
        return False
    last = stmts[-1]
    if isinstance(last, _TERM):
        return True
    if isinstance(last, ast.If):
        return _terminates(last.body) and _terminates(last.orelse)
    return False


def _map_blocks(node, fn):
    """Apply fn(list of statements) -> list to every statement list below node (innermost first)."""
    for field in ('body', 'orelse', 'finalbody'):
        blk = getattr(node, field, None)
        if isinstance(blk, list) and blk and isinstance(blk[0], ast.stmt):
            for s in blk:
                if not isinstance(s, (ast.FunctionDef, ast.ClassDef)):
                    _map_blocks(s, fn)
            setattr(node, field, fn(blk))
    for h in getattr(node, 'handlers', []) or []:
        for s in h.body:
            _map_blocks(s, fn)
        h.body = fn(h.body)


def _guard(stmts):
    """if c: <terminates> else: B   ->   if c: <terminates> ; B"""
    out = []
    for s in stmts:
        if isinstance(s, ast.If) and s.orelse and _terminates(s.body):
            rest = s.orelse
            s.orelse = []
            out.append(s)
            out += rest
        else:
            out.append(s)
    return out


def _unguard(stmts):
    """if c: <terminates> ; rest   ->   if c: <terminates> else: rest"""
    for i, s in enumerate(stmts):
        if isinstance(s, ast.If) and not s.orelse and _terminates(s.body) and stmts[i + 1:]:
            s.orelse = _unguard(stmts[i + 1:])
            return stmts[:i + 1]
    return stmts


def _retvar(stmts):
    """return E   ->   result_ = E ; return result_"""
    out = []
    for s in stmts:
        if isinstance(s, ast.Return) and s.value is not None and not isinstance(s.value, (ast.Name, ast.Constant)):
            out.append(ast.Assign(targets=[ast.Name(id='result_', ctx=ast.Store())], value=s.value))
            out.append(ast.Return(value=ast.Name(id='result_', ctx=ast.Load())))
        else:
            out.append(s)
    return out


def _splitand(stmts):
    """if a and b: X (no else)   ->   if a: if b: X"""
    out = []
    for s in stmts:
        if isinstance(s, ast.If) and not s.orelse and isinstance(s.test, ast.BoolOp) and isinstance(s.test.op, ast.And):
            vals = s.test.values
            inner = ast.If(test=vals[-1] if len(vals) == 2 else ast.BoolOp(op=ast.And(), values=vals[1:]), body=s.body, orelse=[])
            out.append(ast.If(test=vals[0], body=[inner], orelse=[]))
        else:
            out.append(s)
    return out


_CV = [0]


def _condvar(stmts):
    """if E: ...   ->   cond_ = E ; if cond_: ...   (only for plain `if` statements that are not elif branches)"""
    out = []
    for s in stmts:
        if isinstance(s, ast.If) and not isinstance(s.test, (ast.Name, ast.Constant)):
            _CV[0] += 1
            out.append(ast.Assign(targets=[ast.Name(id='cond_%d' % _CV[0], ctx=ast.Store())], value=s.test))
            s.test = ast.Name(id='cond_%d' % _CV[0], ctx=ast.Load())
        out.append(s)
    return out


_BLOCK = {'condvar': _condvar, 'guard': _guard, 'unguard': _unguard, 'retvar': _retvar, 'splitand': _splitand}


def _find(tree, qual):
    body, target = tree.body, None
    for p in qual.split('.'):
        found = None
        for n in body:
            if isinstance(n, (ast.ClassDef, ast.FunctionDef)) and n.name == p:
                found = n
        if found is None:
            return None
        target, body = found, found.body
    return target if isinstance(target, ast.FunctionDef) else None


def rename_params(src_text, qual, suffix='_rp'):
    """Rename the parameters of a PRIVATE function / method (name starts with one underscore) in its definition, its body and
    the keyword arguments of its call sites in the same module.  Public functions keep their parameter names (API)."""
    tree = ast.parse(src_text)
    target = _find(tree, qual)
    if target is None:
        return None
    nm = target.name
    if not nm.startswith('_') or nm.startswith('__'):
        return None
    if any(isinstance(d, ast.Name) and d.id in ('property', 'staticmethod', 'classmethod') or isinstance(d, ast.Attribute)
           for d in target.decorator_list):
        return None
    a = target.args
    if a.vararg or a.kwarg:
        return None
    allp = a.posonlyargs + a.args + a.kwonlyargs
    is_method = '.' in qual
    ps = [x for x in allp[1:]] if is_method else list(allp)
    if not ps:
        return None
    names = {x.arg: x.arg + suffix for x in ps}
    for x in ps:
        x.arg = names[x.arg]
    t = _Rename(names)
    target.body = [t.visit(s_) for s_ in target.body]
    a.defaults = [t.visit(d) for d in a.defaults]
    for n in ast.walk(tree):
        if isinstance(n, ast.Call):
            f = n.func
            callee = f.id if isinstance(f, ast.Name) else (f.attr if isinstance(f, ast.Attribute) else None)
            if callee == nm:
                for k in n.keywords:
                    if k.arg in names:
                        k.arg = names[k.arg]
    ast.fix_missing_locations(tree)
    return ast.unparse(tree)


def transform(src_text, qual, kind):
    """kind in {'rename', 'flipcmp', 'swapif'}; returns new module text or None when nothing changes."""
    if kind == 'rename':
        return rename_locals(src_text, qual)
    if kind == 'renameparams':
        return rename_params(src_text, qual)
    tree = ast.parse(src_text)
    target = _find(tree, qual)
    if target is None:
        return None
    before = ast.unparse(target)
    if kind in _BLOCK:
        if any(isinstance(n, (ast.Yield, ast.YieldFrom)) for n in ast.walk(target)) and kind == 'retvar':
            return None
        _map_blocks(target, _BLOCK[kind])
        ast.fix_missing_locations(tree)
        if ast.unparse(target) == before:
            return None
        return ast.unparse(tree)
    t = _FlipCmp() if kind == 'flipcmp' else _SwapIf()
    doc = target.body[:1] if target.body and isinstance(target.body[0], ast.Expr) and isinstance(getattr(target.body[0], 'value', None), ast.Constant) else []
    target.body = doc + [t.visit(s) for s in target.body[len(doc):]]
    ast.fix_missing_locations(tree)
    if ast.unparse(target) == before:
        return None
    return ast.unparse(tree)
