"""A1 effect / freshness / escape analysis.

Flow-sensitive, per function, over the statement CFG.  The abstract value of
a local name is a set of *origins*:

    'param:<name>'     the object passed as that parameter (incl. self)
    'fresh@<line>:<col>'  an object allocated in this function at that site
    'elem:<origin>'    something stored inside / obtained from that object
    'global'           a module-level object

Events collected per function (with the origins of the affected object):
    mutation   subscript store / delete, attribute store, augmented assignment
               on the object, call of a mutating method, passing it to a
               callee whose summary mutates that parameter
    escape     the object is stored into the receiver's state (self.<attr>
               container or attribute), directly or through a callee
Summaries (may-mutate parameter, returns-origins, stores-parameter) are
iterated to a fixpoint over all functions of the package.
"""
import ast

from .pymodel import FuncInfo
from .astutil import src, is_name, call_name, walk_no_nested, strip_docstring, bind_args
from .cfg import cfg_of, ENTRY, EXIT, RAISE

CONTAINER_MUTATORS = {
    'append', 'extend', 'insert', 'remove', 'pop', 'clear', 'sort', 'reverse', 'update',
    'popitem', 'setdefault', 'add', 'discard', 'difference_update', 'intersection_update',
    'symmetric_difference_update', '__setitem__', '__delitem__', '__iadd__', '__isub__',
    '__imul__', '__ipow__', '__itruediv__', '__ifloordiv__',
}
CONTAINER_FIELDS = {'_variables', '_mapping', '_reverse_mapping', '_constraints', 'state'}
MODEL_MUTATORS = {
    'refresh', 'simplify', 'set_mapping', 'set_reverse_mapping', '_append_constraint',
    '_pop_constraint', 'normalize',
}
FRESH_BUILTINS = {'dict', 'list', 'set', 'tuple', 'sorted', 'frozenset', 'str', 'int', 'float',
                  'bool', 'len', 'range', 'enumerate', 'zip', 'map', 'filter', 'sum', 'min', 'max',
                  'abs', 'round', 'pow', 'any', 'all', 'isinstance', 'type', 'callable', 'hasattr',
                  'getattr', 'bin', 'reversed', 'iter', 'next', 'id', 'repr', 'divmod'}
# builtins whose result may alias elements of the argument
ELEM_BUILTINS = {'next', 'min', 'max', 'getattr', 'iter', 'reversed', 'enumerate', 'zip', 'filter', 'map'}
ELEM_METHODS = {'get', 'pop', 'setdefault', 'items', 'values', 'keys', 'popitem', '__getitem__'}


def elem(o):
    return o if o.startswith('elem:') else 'elem:' + o


def root(o):
    while o.startswith('elem:'):
        o = o[5:]
    return o


class FuncEffects:
    def __init__(self, fn):
        self.fn = fn
        self.mutations = []   # (node, origins, how)
        self.escapes = []     # (node, origins, how)
        self.returns = set()
        self.state_at = {}    # stmt -> state (dict name -> frozenset origins)


class Effects:
    def __init__(self, prog, resolver, context=None):
        """context: name of a concrete class; methods of every class in its MRO
        are then analysed with that class as the receiver (thorough tier)."""
        self.prog, self.res = prog, resolver
        self.context = context
        self._ctx_mro = set(prog.mro_names(context)) if context else set()
        self.summ = {}     # id(fn) -> dict(mut=set(params), ret=set(origins), store=set(params))
        self.fe = {}
        self._built = False
        self.contents = {}  # (id(fn), 'fresh@..') -> set(origins of the objects put inside)
        self._cur = None

    def elems_of(self, origs):
        """Identities of the objects found inside objects with identities origs."""
        out = set()
        for o in origs:
            if o.startswith('fresh@'):
                c = self.contents.get((self._cur, o))
                if c:
                    out |= c
                # a fresh container without recorded contents holds nothing foreign
            else:
                out.add(elem(o))
        return frozenset(out)

    def _put(self, container_origs, value_origs):
        for o in container_origs:
            if o.startswith('fresh@') and value_origs:
                self.contents.setdefault((self._cur, o), set()).update(value_origs)

    # ------------------------------------------------------------ driver
    def build(self):
        if self._built:
            return
        funcs = [f for f in self.prog.all_funcs()]
        for f in funcs:
            self.summ[id(f)] = dict(mut=set(), ret=set(), store=set())
        for it in range(12):
            changed = False
            for f in funcs:
                fe = self.analyse(f)
                s = self.summ[id(f)]
                mut = {root(o)[6:] for _, os_, _ in fe.mutations for o in os_ if root(o).startswith('param:')}
                store = {o[6:] for _, os_, _, holder in fe.escapes for o in os_
                         if o.startswith('param:') and any(root(h).startswith('param:') for h in holder)}
                ret = {o if not o.startswith('fresh@') else 'fresh' for o in fe.returns}
                ret = {('elem:fresh' if root(o).startswith('fresh') and o.startswith('elem:') else o) for o in ret}
                if mut - s['mut'] or store - s['store'] or ret - s['ret']:
                    changed = True
                s['mut'] |= mut
                s['store'] |= store
                s['ret'] |= ret
                self.fe[id(f)] = fe
            if not changed:
                break
        self._built = True

    def effects(self, fn):
        self.build()
        return self.fe[id(fn)]

    def summary(self, fn):
        self.build()
        return self.summ[id(fn)]

    # ------------------------------------------------------- per function
    def analyse(self, fn):
        fe = FuncEffects(fn)
        self._cur = id(fn)
        recv = fn.cls.name if fn.cls else None
        if fn.cls and self.context and fn.cls.name in self._ctx_mro:
            recv = self.context
        g = cfg_of(fn.node)
        init = {}
        for p in fn.all_params:
            init[p] = frozenset(['param:' + p])
        if fn.outer is not None:
            for p in fn.outer.all_params:
                init.setdefault(p, frozenset(['param:' + p]))
        states = {ENTRY: init}
        work = [ENTRY]
        order = 0
        while work and order < 5000:
            order += 1
            n = work.pop()
            st_in = states.get(n, {})
            st_out = self._transfer(fn, recv, n, st_in, None)
            for b, lab in g.succ.get(n, ()):
                old = states.get(b)
                new = self._join(old, st_out)
                if new != old:
                    states[b] = new
                    work.append(b)
        # final pass collecting events
        for n in g.nodes:
            if n in (ENTRY, EXIT, RAISE):
                continue
            if n not in states:
                continue
            fe.state_at[n] = states[n]
            self._transfer(fn, recv, n, states[n], fe)
        return fe

    @staticmethod
    def _join(a, b):
        if a is None:
            return dict(b)
        out = dict(a)
        for k, v in b.items():
            out[k] = out.get(k, frozenset()) | v
        return out

    # ----------------------------------------------------------- origins
    def origins(self, e, st, fn, recv, fe, comp=None):
        """Origins of the value of expression e; also records call events."""
        if e is None:
            return frozenset()
        if isinstance(e, ast.Name):
            if comp and e.id in comp:
                return comp[e.id]
            if e.id in st:
                return st[e.id]
            if e.id in ('True', 'False', 'None'):
                return frozenset()
            r = self.prog.resolve_expr(fn.module, e)
            if r and r[0] == 'var':
                return frozenset(['global'])
            return frozenset()
        if isinstance(e, ast.Constant):
            return frozenset()
        if isinstance(e, (ast.Dict, ast.List, ast.Set, ast.Tuple)):
            inner = frozenset()
            elts = (list(e.keys) + list(e.values)) if isinstance(e, ast.Dict) else e.elts
            for x in elts:
                if x is not None:
                    inner |= self.origins(x, st, fn, recv, fe, comp)
            site = 'fresh@%d:%d%s' % (e.lineno, e.col_offset, ':t' if isinstance(e, ast.Tuple) else '')
            self._put([site], inner)
            return frozenset([site])
        if isinstance(e, (ast.ListComp, ast.SetComp, ast.GeneratorExp, ast.DictComp)):
            c = dict(comp or {})
            for gen in e.generators:
                io = self.origins(gen.iter, st, fn, recv, fe, c)
                eo = self.elems_of(io)
                # iterating dict.items() yields tuples of (key, value): one more level
                if isinstance(gen.target, (ast.Tuple, ast.List)):
                    eo = eo | self.elems_of(eo)
                for nm in ast.walk(gen.target):
                    if isinstance(nm, ast.Name):
                        c[nm.id] = eo
                for cond in gen.ifs:
                    self.origins(cond, st, fn, recv, fe, c)
            inner = frozenset()
            if isinstance(e, ast.DictComp):
                inner |= self.origins(e.key, st, fn, recv, fe, c) | self.origins(e.value, st, fn, recv, fe, c)
            else:
                inner |= self.origins(e.elt, st, fn, recv, fe, c)
            site = 'fresh@%d:%d' % (e.lineno, e.col_offset)
            self._put([site], inner)
            return frozenset([site])
        if isinstance(e, ast.Lambda):
            c = dict(comp or {})
            for a in e.args.args:
                c[a.arg] = frozenset()
            self.origins(e.body, st, fn, recv, fe, c)
            return frozenset()
        if isinstance(e, ast.IfExp):
            self.origins(e.test, st, fn, recv, fe, comp)
            return self.origins(e.body, st, fn, recv, fe, comp) | self.origins(e.orelse, st, fn, recv, fe, comp)
        if isinstance(e, ast.BoolOp):
            out = frozenset()
            for v in e.values:
                out |= self.origins(v, st, fn, recv, fe, comp)
            return out
        if isinstance(e, (ast.BinOp,)):
            self.origins(e.left, st, fn, recv, fe, comp)
            self.origins(e.right, st, fn, recv, fe, comp)
            return frozenset(['fresh@%d:%d:b' % (e.lineno, e.col_offset)])
        if isinstance(e, ast.UnaryOp):
            self.origins(e.operand, st, fn, recv, fe, comp)
            return frozenset(['fresh@%d:%d:u' % (e.lineno, e.col_offset)])
        if isinstance(e, ast.Compare):
            self.origins(e.left, st, fn, recv, fe, comp)
            for c_ in e.comparators:
                self.origins(c_, st, fn, recv, fe, comp)
            return frozenset()
        if isinstance(e, ast.Subscript):
            self.origins(e.slice, st, fn, recv, fe, comp)
            return self.elems_of(self.origins(e.value, st, fn, recv, fe, comp))
        if isinstance(e, ast.Starred):
            return self.origins(e.value, st, fn, recv, fe, comp)
        if isinstance(e, ast.Attribute):
            base = self.origins(e.value, st, fn, recv, fe, comp)
            # property with a summary?
            env = None
            for t in self._types(e.value, fn, recv):
                m = self.prog.lookup_method(t, e.attr) if t in self.prog.classes else None
                if isinstance(m, FuncInfo) and m.is_property:
                    s = self.summ.get(id(m), dict(mut=set(), ret=set(), store=set()))
                    if m.params and m.params[0] in s['mut']:
                        if fe is not None and base:
                            fe.mutations.append((e, base, 'property %s mutates its receiver' % m.qual))
                    return self._map_ret(s['ret'], {m.params[0] if m.params else 'self': base}, e)
            return self.elems_of(base)
        if isinstance(e, ast.Call):
            return self._call(e, st, fn, recv, fe, comp)
        if isinstance(e, ast.JoinedStr):
            return frozenset()
        if isinstance(e, (ast.Yield, ast.YieldFrom, ast.Await)):
            return self.origins(e.value, st, fn, recv, fe, comp) if e.value else frozenset()
        return frozenset()

    def _types(self, e, fn, recv):
        try:
            return self.res.infer(e, fn, recv)
        except Exception:
            return set()

    def _map_ret(self, ret, argmap, node):
        out = set()
        for o in ret:
            r = root(o)
            depth = o[:len(o) - len(r)]
            if r == 'fresh':
                out.add(depth + 'fresh@%d:%d' % (node.lineno, node.col_offset))
            elif r.startswith('param:'):
                for x in argmap.get(r[6:], ()):
                    out.add(depth + x if depth else x)
            elif r == 'global':
                out.add(o)
        return frozenset(out)

    def _call(self, c, st, fn, recv, fe, comp):
        f = c.func
        arg_or = [self.origins(a, st, fn, recv, fe, comp) for a in c.args]
        kw_or = {k.arg: self.origins(k.value, st, fn, recv, fe, comp) for k in c.keywords}
        site = 'fresh@%d:%d:c%d' % (c.lineno, c.col_offset, c.end_col_offset or 0)
        recv_or = frozenset()
        if isinstance(f, ast.Attribute):
            if isinstance(f.value, ast.Call) and is_name(f.value.func, 'super'):
                sn = self.res.self_name(fn)
                recv_or = st.get(sn, frozenset(['param:' + sn])) if sn else frozenset()
            else:
                recv_or = self.origins(f.value, st, fn, recv, fe, comp)
        targets = []
        try:
            targets = self.res.resolve_call(c, fn, recv)
        except Exception:
            targets = []
        ftargets = [(t, r, how) for t, r, how in targets if isinstance(t, FuncInfo)]
        out = set()
        if ftargets:
            for t, r, how in ftargets:
                s = self.summ.get(id(t), dict(mut=set(), ret=set(), store=set()))
                bound_method = how in ('method', 'super') or (how == 'ctor')
                b = bind_args(c, t, skip_self=(bool(t.cls) and not t.is_static and how != 'unbound'))
                argmap = {}
                for pname, a in b.items():
                    if isinstance(a, ast.AST):
                        argmap[pname] = self.origins(a, st, fn, recv, None, comp)
                    elif isinstance(a, list):
                        o = frozenset()
                        for x in a:
                            if isinstance(x, ast.Starred):
                                o |= self.elems_of(self.origins(x.value, st, fn, recv, None, comp))
                            else:
                                o |= self.origins(x, st, fn, recv, None, comp)
                        vs = 'fresh@%d:%d:varargs' % (c.lineno, c.col_offset)
                        self._put([vs], o)
                        argmap[pname[1:]] = frozenset([vs])
                if t.cls and not t.is_static and how != 'unbound' and t.params:
                    if how == 'ctor':
                        argmap[t.params[0]] = frozenset([site])
                    elif how == 'classcall':
                        argmap[t.params[0]] = frozenset()
                    else:
                        argmap[t.params[0]] = recv_or
                if fe is not None:
                    for p in s['mut']:
                        if argmap.get(p):
                            fe.mutations.append((c, argmap[p], 'passed to %s which mutates its parameter `%s`' % (t.qual, p)))
                    for p in s['store']:
                        # callee stores param p into ITS receiver (or another param's state)
                        if argmap.get(p) and t.params and argmap.get(t.params[0]) is not None:
                            holder = argmap.get(t.params[0], frozenset())
                            fe.escapes.append((c, argmap[p], 'stored by %s' % t.qual, holder))
                if how == 'ctor':
                    out.add(site)
                    if not self.res.is_model_class(r or ''):
                        # a non-model container class keeps the elements of its argument
                        for a in arg_or:
                            self._put([site], self.elems_of(a))
                else:
                    out |= self._map_ret(s['ret'], argmap, c)
            return frozenset(out)
        # unresolved / builtin / ext
        name = call_name(c)
        if isinstance(f, ast.Name):
            allo = frozenset().union(*arg_or) if arg_or else frozenset()
            if name in ('next', 'min', 'max', 'getattr'):
                return self.elems_of(allo)
            if name in ('dict', 'list', 'set', 'tuple', 'sorted', 'frozenset', 'reversed', 'iter',
                        'enumerate', 'zip', 'filter', 'map'):
                self._put([site], self.elems_of(allo))
                return frozenset([site])
            if name in FRESH_BUILTINS:
                return frozenset([site])
            # class object held in a local (type(G)()) -> constructor: fresh
            return frozenset([site])
        if isinstance(f, ast.Attribute):
            if fe is not None and (name in CONTAINER_MUTATORS | MODEL_MUTATORS or
                                   (name or '').startswith('add_constraint_')):
                if recv_or:
                    fe.mutations.append((c, recv_or, 'call of mutating method .%s()' % name))
            if name in ('append', 'extend', 'insert', 'add', 'update', 'setdefault', '__setitem__'):
                allo = frozenset().union(*arg_or) if arg_or else frozenset()
                if name in ('extend', 'update'):
                    allo = self.elems_of(allo)
                self._put(recv_or, allo)
                if fe is not None and allo and any(not o.startswith('fresh@') for o in recv_or):
                    fe.escapes.append((c, allo, 'stored into container by .%s()' % name, recv_or))
            if name == 'copy':
                self._put([site], self.elems_of(recv_or))
                return frozenset([site])
            if name in ('items',):
                self._put([site], self.elems_of(recv_or))
                return frozenset([site])
            if name in ELEM_METHODS:
                r_ = self.elems_of(recv_or)
                if name == 'setdefault' and len(arg_or) > 1:
                    r_ = r_ | arg_or[1]
                return r_
            return frozenset([site])
        return frozenset([site])

    # ---------------------------------------------------------- transfer
    def _transfer(self, fn, recv, n, st, fe):
        st = dict(st)
        if n in (ENTRY, EXIT, RAISE):
            return st
        if isinstance(n, ast.Assign):
            val = self.origins(n.value, st, fn, recv, fe)
            for t in n.targets:
                self._assign(t, val, n.value, st, fn, recv, fe, n)
        elif isinstance(n, ast.AnnAssign):
            if n.value is not None:
                val = self.origins(n.value, st, fn, recv, fe)
                self._assign(n.target, val, n.value, st, fn, recv, fe, n)
        elif isinstance(n, ast.AugAssign):
            val = self.origins(n.value, st, fn, recv, fe)
            t = n.target
            if isinstance(t, ast.Name):
                cur = st.get(t.id, frozenset())
                if fe is not None:
                    direct = frozenset(o for o in cur if not o.startswith('elem:'))
                    types = self._types(t, fn, recv)
                    modelish = any(x in self.prog.classes for x in types)
                    tgt = cur if modelish else direct
                    # a local that aliases a container field (x = obj._variables) updated in place
                    if cur:
                        from .astutil import assignments_to
                        for s_, v_ in assignments_to(fn.node, t.id):
                            if isinstance(v_, ast.Attribute) and v_.attr in CONTAINER_FIELDS and \
                                    isinstance(n.op, (ast.BitAnd, ast.BitOr, ast.BitXor, ast.Sub, ast.Add)):
                                tgt = frozenset(tgt) | frozenset(o for o in cur if o.startswith('elem:'))
                    va = fn.node.args.vararg.arg if fn.node.args.vararg else None
                    if va:   # the elements of *args are the real operands
                        tgt = tgt | frozenset(o for o in cur if o == 'elem:param:' + va)
                    if tgt:
                        fe.mutations.append((n, tgt, 'augmented assignment `%s`' % src(n)[:60]))
                # result keeps identity for mutable objects, new object for numbers
                st[t.id] = cur | frozenset(['fresh@%d:%d' % (n.lineno, n.col_offset)])
            elif isinstance(t, ast.Subscript):
                base = self.origins(t.value, st, fn, recv, fe)
                self.origins(t.slice, st, fn, recv, fe)
                if fe is not None and base:
                    fe.mutations.append((n, base, 'item update `%s`' % src(n)[:60]))
            elif isinstance(t, ast.Attribute):
                base = self.origins(t.value, st, fn, recv, fe)
                if fe is not None and base:
                    fe.mutations.append((n, base, 'attribute update `%s`' % src(n)[:60]))
        elif isinstance(n, ast.Delete):
            for t in n.targets:
                if isinstance(t, ast.Subscript):
                    base = self.origins(t.value, st, fn, recv, fe)
                    if fe is not None and base:
                        fe.mutations.append((n, base, 'item deletion'))
                elif isinstance(t, ast.Attribute):
                    base = self.origins(t.value, st, fn, recv, fe)
                    if fe is not None and base:
                        fe.mutations.append((n, base, 'attribute deletion'))
        elif isinstance(n, ast.Expr):
            self.origins(n.value, st, fn, recv, fe)
        elif isinstance(n, ast.Return):
            val = self.origins(n.value, st, fn, recv, fe) if n.value is not None else frozenset()
            if fe is not None:
                fe.returns |= set(val)
        elif isinstance(n, (ast.If, ast.While)):
            self.origins(n.test, st, fn, recv, fe)
        elif isinstance(n, (ast.For, ast.AsyncFor)):
            io = self.origins(n.iter, st, fn, recv, fe)
            self._assign(n.target, self.elems_of(io), None, st, fn, recv, None, n)
        elif isinstance(n, (ast.With, ast.AsyncWith)):
            for it in n.items:
                v = self.origins(it.context_expr, st, fn, recv, fe)
                if it.optional_vars is not None:
                    self._assign(it.optional_vars, v, None, st, fn, recv, None, n)
        elif isinstance(n, ast.Raise):
            if n.exc is not None:
                self.origins(n.exc, st, fn, recv, fe)
        elif isinstance(n, ast.Assert):
            self.origins(n.test, st, fn, recv, fe)
        elif isinstance(n, ast.FunctionDef):
            st[n.name] = frozenset()
        return st

    def _assign(self, t, val, value_expr, st, fn, recv, fe, stmt):
        if isinstance(t, ast.Name):
            st[t.id] = val
        elif isinstance(t, (ast.Tuple, ast.List)):
            if isinstance(value_expr, (ast.Tuple, ast.List)) and len(value_expr.elts) == len(t.elts):
                for tt, vv in zip(t.elts, value_expr.elts):
                    self._assign(tt, self.origins(vv, st, fn, recv, None), vv, st, fn, recv, fe, stmt)
            else:
                ev = self.elems_of(val)
                for tt in t.elts:
                    self._assign(tt, ev, None, st, fn, recv, fe, stmt)
        elif isinstance(t, ast.Starred):
            self._assign(t.value, val, None, st, fn, recv, fe, stmt)
        elif isinstance(t, ast.Subscript):
            base = self.origins(t.value, st, fn, recv, fe)
            self.origins(t.slice, st, fn, recv, fe)
            self._put(base, val)
            if fe is not None and base:
                fe.mutations.append((stmt, base, 'item store `%s`' % src(stmt)[:60]))
                if val and any(not o.startswith('fresh@') for o in base):
                    fe.escapes.append((stmt, val, 'stored as item', base))
        elif isinstance(t, ast.Attribute):
            base = self.origins(t.value, st, fn, recv, fe)
            self._put(base, val)
            if fe is not None and base:
                fe.mutations.append((stmt, base, 'attribute store `%s`' % src(stmt)[:60]))
                if val and any(not o.startswith('fresh@') for o in base):
                    fe.escapes.append((stmt, val, 'stored as attribute .%s' % t.attr, base))
