"""A12 same-name forwarding: when a function passes its own parameter ``p`` to
a resolved callee that also has a parameter named ``p``, the argument must
bind to that parameter.  Omission is fine (callee default applies);
misbinding is a violation."""
import ast

from .pymodel import FuncInfo
from .astutil import bind_args, src, is_name


def check_forwarding(ctx, rid, fn, call, callee, how='method', names=None, skip_self=None):
    """Record one instance per own-parameter argument of ``call``."""
    own = set(fn.all_params)
    if skip_self is None:
        skip_self = bool(callee.cls) and not callee.is_static and how not in ('unbound',)
    b = bind_args(call, callee, skip_self=skip_self)
    callee_params = set(callee.all_params)
    n = 0
    for pname, arg in b.items():
        if pname.startswith(('*', '!')) or not isinstance(arg, ast.AST):
            if pname.startswith('!unknown:'):
                ctx.inst(rid, fn, call, False, "keyword %s is not a parameter of %s" % (pname[9:], callee.qual))
                n += 1
            continue
        if isinstance(arg, ast.Name) and arg.id in own and arg.id in callee_params:
            if names is not None and arg.id not in names:
                continue
            ok = pname == arg.id
            ctx.inst(rid, fn, '%s <- %s in %s' % (pname, arg.id, src(call.func)), ok,
                     "parameter %s forwarded to its namesake of %s" % (arg.id, callee.qual) if ok else
                     "own parameter `%s` is passed to %s as `%s` (misbinding)" % (arg.id, callee.qual, pname))
            n += 1
    return n
