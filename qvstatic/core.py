"""Check driver: rule registry, instances, findings, known findings, evidence,
replay files, exit codes."""
import hashlib
import json
import os
import pathlib
import re
import sys
import time
import traceback

from .pymodel import Program, AnalysisError, FuncInfo
from .resolve import Resolver
from . import astutil as U

VERIF = pathlib.Path(__file__).resolve().parent.parent


class Ctx:
    """Everything a rule needs: program model, resolver, C model (lazy) and
    the instance sink."""

    def __init__(self, prop, tier='quick', repo=None, overrides=None, c_overrides=None):
        self.prop = prop
        self.tier = tier
        self.repo = pathlib.Path(repo or os.environ.get('QV_REPO', '/repo'))
        self.prog = Program(self.repo, overrides=overrides)
        from . import inliner
        self.inlined = inliner.inline_program(self.prog)
        self.res = Resolver(self.prog)
        U.INLINER = self._inline_call
        self.c_overrides = c_overrides or {}
        self._cprog = None
        self.instances = []      # dicts
        self.info = []           # informational notes
        self.rule_floor = {}     # rule -> (min instances, description)
        self.rule_desc = {}

    def _inline_call(self, call):
        """Inline a call of a trivial module-level predicate helper (body: one `return <expr>`)."""
        import ast as _ast
        import copy
        if not isinstance(call.func, _ast.Name) or call.keywords or any(isinstance(a, _ast.Starred) for a in call.args):
            return None
        n = call
        while getattr(n, '_parent', None) is not None:
            n = n._parent
        mod = None
        for m in self.prog.modules.values():
            if m.tree is n:
                mod = m
        if mod is None:
            return None
        r = self.prog.resolve_expr(mod, call.func)
        if not r or r[0] != 'func':
            return None
        f = r[1]
        body = U.strip_docstring(f.node.body)
        if len(body) != 1 or not isinstance(body[0], _ast.Return) or body[0].value is None:
            return None
        params = f.params
        if len(params) != len(call.args) or f.node.args.vararg or f.node.args.kwarg:
            return None
        amap = dict(zip(params, call.args))

        class Sub(_ast.NodeTransformer):
            def visit_Name(self, node):
                if node.id in amap and isinstance(node.ctx, _ast.Load):
                    return U.ast_copy(amap[node.id])
                return node
        return _ast.fix_missing_locations(Sub().visit(U.ast_copy(body[0].value)))

    @property
    def cprog(self):
        if self._cprog is None:
            from .cmodel import CProgram
            self._cprog = CProgram(self.repo, overrides=self.c_overrides)
        return self._cprog

    def rule(self, rid, desc, floor=1):
        if rid in self.rule_desc and self.rule_desc[rid] != desc:
            raise RuntimeError("rule id %s declared twice with different descriptions" % rid)
        self.rule_desc[rid] = desc
        self.rule_floor[rid] = floor

    def inst(self, rid, where, construct, ok, msg='', nontrivial=True, path=None):
        """Record one evaluated rule instance.
        where: FuncInfo, (file, qual) tuple or str; construct: AST node or text."""
        if rid not in self.rule_desc:
            raise RuntimeError("rule %s not declared" % rid)
        if isinstance(where, FuncInfo):
            file, qual = where.file, where.qual
        elif isinstance(where, tuple):
            file, qual = where
        else:
            file, qual = str(where), ''
        line = getattr(construct, 'lineno', None)
        text = construct if isinstance(construct, str) else U.stmt_key(construct)
        self.instances.append(dict(
            rule=rid, file=file, function=qual, line=line, construct=text,
            ok=bool(ok), msg=msg, nontrivial=bool(nontrivial), path=path))
        return bool(ok)

    def note(self, text):
        self.info.append(text)


def finding_key(i):
    return '%s|%s|%s|%s' % (i['rule'], i['file'], i['function'], i['construct'])


def load_known():
    p = VERIF / 'known_findings.json'
    if not p.exists():
        return {'known': [], 'fixed': []}
    return json.loads(p.read_text())


LAST_ERROR = ''


def run_property(prop, rules_fn, tier='quick', repo=None, overrides=None,
                 c_overrides=None, write=True, quiet=False, explanation='',
                 not_decided='', trusted=(), extra_cov=None):
    """Run all rules of a property. Returns (exit_code, ctx, findings)."""
    global LAST_ERROR
    t0 = time.time()
    out = []

    def say(s):
        out.append(s)
        if not quiet:
            print(s)
    try:
        ctx = Ctx(prop, tier, repo, overrides, c_overrides)
        try:
            rules_fn(ctx)
        except AnalysisError as e:
            # a concrete violation found before the analysis broke is still a violation
            if all(i['ok'] for i in ctx.instances):
                raise
            ctx.note("analysis stopped early: %s" % e)
            say("note: analysis stopped early after recording violations: %s" % e)
        # vacuity guard (evaluated after the findings: a concrete violation
        # takes precedence over a too-low instance count)
        counts = {}
        for i in ctx.instances:
            counts[i['rule']] = counts.get(i['rule'], 0) + 1
        if all(i['ok'] for i in ctx.instances):
            for rid, floor in ctx.rule_floor.items():
                if counts.get(rid, 0) < floor:
                    raise AnalysisError(
                        "rule %s matched %d instances, below the hand-confirmed floor %d "
                        "(rule would pass vacuously)" % (rid, counts.get(rid, 0), floor))
    except AnalysisError as e:
        LAST_ERROR = str(e)
        say("ANALYSIS-ERROR property=%s %s" % (prop, e))
        if write:
            write_evidence(prop, tier, None, [], [], time.time() - t0, explanation,
                           not_decided, trusted, error=str(e))
        return 2, None, []
    except Exception:
        tb = traceback.format_exc()
        LAST_ERROR = tb[-600:]
        say("ANALYSIS-ERROR property=%s internal error\n%s" % (prop, tb))
        if write:
            write_evidence(prop, tier, None, [], [], time.time() - t0, explanation,
                           not_decided, trusted, error=tb[-800:])
        return 2, None, []

    known = load_known()
    kmap = {k['key']: k for k in known.get('known', []) if k.get('property') == prop}
    findings, known_hits = [], []
    for i in ctx.instances:
        if i['ok']:
            continue
        k = finding_key(i)
        if k in kmap:
            known_hits.append((i, kmap[k]))
        else:
            findings.append(i)
    for i, k in known_hits:
        say("KNOWN-FINDING: property=%s %s" % (prop, k.get('what', finding_key(i))))
    code = 0
    for i in findings:
        rp = write_replay(prop, i) if write else '(none)'
        say("VIOLATION property=%s replay=%s" % (prop, rp))
        say("  rule %s at %s:%s in %s: %s\n    construct: %s" % (
            i['rule'], i['file'], i['line'], i['function'], i['msg'], i['construct']))
        if i.get('path'):
            say("    path: %s" % ' -> '.join(i['path']))
        code = 1
    wall = time.time() - t0
    if write:
        write_evidence(prop, tier, ctx, findings, known_hits, wall, explanation,
                       not_decided, trusted, extra_cov=extra_cov)
    n = len(ctx.instances)
    say("%s %s: %d rule instances over %d rules, %d violations, %d known findings (%.2fs)" % (
        prop, tier, n, len(ctx.rule_desc), len(findings), len(known_hits), wall))
    return code, ctx, findings


def write_replay(prop, i):
    d = VERIF / 'replays' / prop
    d.mkdir(parents=True, exist_ok=True)
    h = hashlib.sha1(finding_key(i).encode()).hexdigest()[:12]
    p = d / ('%s_%s.json' % (i['rule'], h))
    p.write_text(json.dumps(dict(property=prop, key=finding_key(i), **i), indent=1))
    return str(p)


def write_evidence(prop, tier, ctx, findings, known_hits, wall, explanation,
                   not_decided, trusted, error=None, extra_cov=None):
    d = VERIF / 'evidence'
    d.mkdir(exist_ok=True)
    seed = int(os.environ.get('VERIF_SEED', '0') or 0)
    cov = dict(explanation=(explanation or 'static analysis') +
               " (The complete list of rules evaluated in this run - including the premises shared with other properties and the "
               "clauses added while testing against independently written changes - is under coverage.rules, one description each.)",
               trusted_base=list(trusted))
    if ctx is not None:
        insts = ctx.instances
        distinct = {(i['rule'], i['file'], i['function'], i['construct'])
                    for i in insts if i['nontrivial']}
        per_rule = {}
        for i in insts:
            r = per_rule.setdefault(i['rule'], dict(
                description=ctx.rule_desc[i['rule']], instances=0, violated=0,
                floor=ctx.rule_floor[i['rule']]))
            r['instances'] += 1
            r['violated'] += (not i['ok'])
        # samples: first instance of each rule (deterministic, rotated by seed)
        samples = []
        by_rule = {}
        for i in insts:
            by_rule.setdefault(i['rule'], []).append(i)
        for rid, lst in by_rule.items():
            s = lst[seed % len(lst)]
            samples.append(dict(rule=rid, at='%s:%s' % (s['file'], s['line']),
                                function=s['function'], construct=s['construct'],
                                verdict='holds' if s['ok'] else 'VIOLATED', detail=s['msg']))
        units = sorted(m.relpath for m in ctx.prog.modules.values())
        cov.update(dict(
            evaluations=len(insts),
            distinct_nontrivial=len(distinct),
            rule="one evaluation = one rule instance (rule x construct) decided on the current "
                 "source; non-trivial = the decision needed a dataflow / path / table argument "
                 "beyond the mere existence of the construct; distinct by (rule, file, function, "
                 "normalised construct text)",
            obligations=len(insts),
            discharged=sum(1 for i in insts if i['ok']),
            samples=samples,
            rules=per_rule,
            units_parsed=len(units),
            functions_in_model=len(list(ctx.prog.all_funcs())),
            classes_in_model=len(ctx.prog.classes),
            not_decided=not_decided,
            known_findings=[k.get('what') for _, k in known_hits],
            informational=ctx.info[:50],
            exhaustive=True,
        ))
        if ctx._cprog is not None:
            cov['c_units'] = ctx.cprog.summary()
        if extra_cov:
            cov.update(extra_cov)
    else:
        cov.update(dict(analysis_error=error or ''))
    ev = dict(property_id=prop, tier=tier, seed=seed, level='other', coverage=cov,
              assumptions=list(trusted), wall_s=round(wall, 3), violations=len(findings))
    (d / ('%s.json' % prop)).write_text(json.dumps(ev, indent=1, default=str))
