"""A8 nullness: is a use of an optional expression guarded by a None test?

The optional expression is identified by its normalised text (e.g.
``self.best``).  A use is guarded when a fact ``X is not None`` (or the
truthiness of X) is established
  * by an earlier operand of an enclosing short-circuit operator,
  * by the test of an enclosing conditional expression / comprehension filter,
  * or by a branch edge that dominates the enclosing statement in the CFG,
and X is not re-assigned on the way (checked for plain re-assignments in the
same function between the dominating test and the use).
"""
import ast

from .astutil import src, compare_atoms, enclosing_stmt, parent, walk_no_nested
from .cfg import cfg_of, ENTRY


def _facts_nonnull(facts, x):
    for f in facts:
        if f == (x, 'is not', 'None') or f == ('None', 'is not', x):
            return True
        if f == ('truthy', x):
            return True
        if len(f) == 3 and f[1] == '!=' and {f[0], f[2]} == {x, 'None'}:
            return True
    return False


def local_guard(use, x):
    """Short-circuit / conditional-expression guards inside the statement."""
    node = use
    p = parent(node)
    while p is not None and not isinstance(p, ast.stmt):
        if isinstance(p, ast.BoolOp):
            idx = None
            for i, v in enumerate(p.values):
                if v is node or any(n is node for n in ast.walk(v)):
                    idx = i
                    break
            if idx:
                for prev in p.values[:idx]:
                    facts = compare_atoms(prev, isinstance(p.op, ast.And))
                    if _facts_nonnull(facts, x):
                        return True
        elif isinstance(p, ast.IfExp):
            if node is p.body or any(n is node for n in ast.walk(p.body)):
                if _facts_nonnull(compare_atoms(p.test, True), x):
                    return True
            elif node is p.orelse or any(n is node for n in ast.walk(p.orelse)):
                if _facts_nonnull(compare_atoms(p.test, False), x):
                    return True
        elif isinstance(p, ast.comprehension):
            pass
        elif isinstance(p, (ast.GeneratorExp, ast.ListComp, ast.SetComp, ast.DictComp)):
            for g in p.generators:
                for c in g.ifs:
                    if c is not node and _facts_nonnull(compare_atoms(c, True), x):
                        return True
        node = p
        p = parent(p)
    return False


def dominating_facts(fnode, stmt):
    """Facts established by branch edges dominating ``stmt``, as
    [(facts, owner_stmt)]."""
    g = cfg_of(fnode)
    out = []
    for test, pol, owner in g.edge_dominators(stmt):
        out.append((compare_atoms(test, pol), owner))
    return out


def is_guarded(fnode, use, x):
    if local_guard(use, x):
        return True
    stmt = enclosing_stmt(use)
    g = cfg_of(fnode)
    # the test of an If/While is part of the header node; a use inside the
    # test is not protected by that same test's edges (handled by local_guard)
    for facts, owner in dominating_facts(fnode, stmt):
        if owner is stmt:
            continue
        if not _facts_nonnull(facts, x):
            continue
        # re-assignment of x between owner and stmt?
        killed = False
        for n in g.stmts():
            if n is stmt or n is owner:
                continue
            if _assigns(n, x) and g.reaches(owner, n) and g.reaches(n, stmt):
                killed = True
        if not killed:
            return True
    return False


def _assigns(stmt, x):
    tgts = []
    if isinstance(stmt, ast.Assign):
        tgts = stmt.targets
    elif isinstance(stmt, (ast.AugAssign, ast.AnnAssign)):
        tgts = [stmt.target]
    for t in tgts:
        for e in ([t] if not isinstance(t, (ast.Tuple, ast.List)) else t.elts):
            if src(e) == x:
                return True
    return False


ORDER_OPS = (ast.Lt, ast.LtE, ast.Gt, ast.GtE)


def optional_uses(fnode, x):
    """Uses of optional expression text x that would fail on None: attribute
    access ``x.attr``, ordering comparison with x as operand, arithmetic,
    subscript, call."""
    out = []
    for n in walk_no_nested(fnode.body):
        if isinstance(n, ast.Attribute) and src(n.value) == x and isinstance(n.ctx, ast.Load):
            out.append((n, 'attribute .%s' % n.attr))
        elif isinstance(n, ast.Compare):
            ops = [n.left] + list(n.comparators)
            for i, op in enumerate(n.ops):
                if isinstance(op, ORDER_OPS):
                    for o in (ops[i], ops[i + 1]):
                        if src(o) == x:
                            out.append((o, 'ordering comparison'))
        elif isinstance(n, ast.BinOp):
            for o in (n.left, n.right):
                if src(o) == x:
                    out.append((o, 'arithmetic'))
        elif isinstance(n, ast.Subscript) and src(n.value) == x:
            out.append((n, 'subscript'))
    return out
