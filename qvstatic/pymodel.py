"""Program model of qubovert's Python sources, built from source text only.

Nothing from qubovert is imported or executed.  The model offers: modules with
linked scopes (relative imports, star imports through ``__all__``, the
``import qubovert as qv`` idiom), classes with C3 MRO, method lookup per
receiver class, light local type inference and call resolution.
"""
import ast
import builtins
import os
import pathlib


class AnalysisError(Exception):
    """The analysis cannot be carried out (vanished anchor, unparseable unit,
    unrecognised idiom at an anchored site).  Mapped to exit code 2."""


BUILTIN_CLASSES = {'dict', 'list', 'set', 'tuple', 'object', 'UserWarning',
                   'Exception', 'ValueError', 'KeyError'}


def ast_copy_plain(n):
    import copy as _c
    m = ast.parse(ast.unparse(n), mode='eval').body
    return m


class Module:
    def __init__(self, name, relpath, src, ispkg):
        self.name, self.relpath, self.src, self.ispkg = name, relpath, src, ispkg
        try:
            self.tree = ast.parse(src, filename=relpath)
        except SyntaxError as e:
            raise AnalysisError("cannot parse %s: %s" % (relpath, e))
        for n in ast.walk(self.tree):
            for c in ast.iter_child_nodes(n):
                c._parent = n
        self.scope = {}


class FuncInfo:
    def __init__(self, module, node, cls=None, outer=None):
        self.module, self.node, self.cls, self.outer = module, node, cls, outer
        self.name = node.name
        self.decorators = set()
        for d in node.decorator_list:
            if isinstance(d, ast.Name):
                self.decorators.add(d.id)
            elif isinstance(d, ast.Attribute):
                self.decorators.add(d.attr)  # x.setter
        self.is_property = 'property' in self.decorators
        self.is_setter = 'setter' in self.decorators
        self.is_static = 'staticmethod' in self.decorators
        self.is_classmethod = 'classmethod' in self.decorators

    @property
    def qual(self):
        if self.outer is not None:
            return self.outer.qual + '.<locals>.' + self.name
        if self.cls:
            return '%s.%s' % (self.cls.name, self.name)
        return '%s.%s' % (self.module.name.split('.')[-1], self.name)

    @property
    def file(self):
        return self.module.relpath

    @property
    def params(self):
        a = self.node.args
        return [x.arg for x in a.posonlyargs + a.args]

    @property
    def all_params(self):
        a = self.node.args
        out = [x.arg for x in a.posonlyargs + a.args]
        if a.vararg:
            out.append(a.vararg.arg)
        out += [x.arg for x in a.kwonlyargs]
        if a.kwarg:
            out.append(a.kwarg.arg)
        return out

    def body_nodes(self):
        """All AST nodes of the body, not descending into nested defs/lambdas'
        own scopes?  No: includes nested functions (closures matter)."""
        for s in self.node.body:
            yield from ast.walk(s)

    def __repr__(self):
        return '<Func %s>' % self.qual


class ClassInfo:
    def __init__(self, module, node):
        self.module, self.node, self.name = module, node, node.name
        self.methods = {}     # name -> FuncInfo (getter for properties)
        self.setters = {}
        self.bases = []       # ClassInfo or str (builtin)
        self.mro = None

    def __repr__(self):
        return '<Class %s>' % self.name


class Program:
    def __init__(self, root=None, overrides=None, package='qubovert'):
        self.root = pathlib.Path(root or os.environ.get('QV_REPO', '/repo'))
        self.package = package
        self.modules = {}
        self.classes = {}      # simple name -> ClassInfo
        self.functions = {}    # qual -> FuncInfo (module-level + methods)
        self.overrides = overrides or {}
        self._load()
        self._link()

    # ------------------------------------------------------------- loading
    def _load(self):
        pkg = self.root / self.package
        if not pkg.is_dir():
            raise AnalysisError("package directory %s missing" % pkg)
        for p in sorted(pkg.rglob('*.py')):
            rel = str(p.relative_to(self.root))
            parts = list(p.relative_to(self.root).with_suffix('').parts)
            ispkg = parts[-1] == '__init__'
            if ispkg:
                parts = parts[:-1]
            name = '.'.join(parts)
            src = self.overrides.get(rel)
            if src is None:
                src = p.read_text()
            self.modules[name] = Module(name, rel, src, ispkg)
        for m in self.modules.values():
            self._plain_assignments(m)
            self._hoist_walrus(m)
        self._undo_private_renames()
        for m in self.modules.values():
            for n in m.tree.body:
                if isinstance(n, ast.ClassDef):
                    ci = ClassInfo(m, n)
                    if n.name in self.classes:
                        raise AnalysisError("duplicate class name %s" % n.name)
                    self.classes[n.name] = ci
                    for b in n.body:
                        if isinstance(b, ast.FunctionDef):
                            fi = FuncInfo(m, b, cls=ci)
                            if fi.is_setter:
                                ci.setters[b.name] = fi
                                self.functions[fi.qual + '.setter'] = fi
                            else:
                                ci.methods[b.name] = fi
                                self.functions[fi.qual] = fi
                            self._nested(fi)
                elif isinstance(n, ast.FunctionDef):
                    fi = FuncInfo(m, n)
                    self.functions[fi.qual] = fi
                    self._nested(fi)

    # private helpers of the reference tree: (file, class) -> {name: number of parameters}.  The rules address these by
    # name; a private helper may be renamed freely, so a rename is undone in the model before anything is looked up.
    PRIVATE_HELPERS = {
        ('qubovert/_pcbo.py', None): {'_get_bounds': ['P', 'bounds'],
                                      '_special_constraints_eq_zero': ['pcbo', 'P', 'lam'],
                                      '_special_constraints_le_zero': ['pcbo', 'P', 'lam', 'log_trick', 'bounds']},
        ('qubovert/_pcbo.py', 'PCBO'): {'_append_constraint': ['self', 'key', 'constraint'], '_next_ancilla': ['self'],
                                        '_pop_constraint': ['self', 'key']},
        ('qubovert/_pcso.py', 'PCSO'): {'_append_constraint': ['self', 'key', 'constraint']},
        ('qubovert/_pcso.py', None): {'_empty_pcbo': ['pcso']},
        ('qubovert/_pubo.py', 'PUBO'): {'_check_key_valid': ['key'], '_reduce_degree': ['self', 'D', 'deg', 'lam', 'pairs']},
        ('qubovert/_puso.py', 'PUSO'): {'_check_key_valid': ['key'], '_create_pubo': ['self'], '_to_puso': ['self']},
        ('qubovert/sim/_anneal.py', None): {'_create_spin_schedule': ['spin_model', 'anneal_duration', 'temperature_range', 'schedule'],
                                            '_package_spin_results': ['states', 'values', 'offset', 'reverse_mapping']},
        ('qubovert/sim/_anneal_results.py', None): {'_recompute_best': ['results']},
        ('qubovert/utils/_dict_arithmetic.py', None): {'_generate_key_value_pairs': ['args', 'kwargs']},
        ('qubovert/utils/_solve_bruteforce.py', None): {'_solve_bruteforce': ['D', 'all_solutions', 'valid', 'spin', 'value']},
    }

    PRIVATE_HELPER_CLASSES = ('PCBO', 'PCSO', 'PUBO', 'PUSO')

    def _undo_private_renames(self):
        self.renamed = {}
        by_rel = {m.relpath: m for m in self.modules.values()}
        for (rel, cname), table in self.PRIVATE_HELPERS.items():
            m = by_rel.get(rel)
            if m is None:
                continue
            body = m.tree.body
            if cname is not None:
                cl = [n for n in body if isinstance(n, ast.ClassDef) and n.name == cname]
                if not cl:
                    continue
                body = cl[0].body
            defs = {n.name: n for n in body if isinstance(n, ast.FunctionDef) and n.name.startswith('_')
                    and not (n.name.startswith('__') and n.name.endswith('__'))}

            def arity(n):
                a = n.args
                return len(a.posonlyargs + a.args + a.kwonlyargs) + bool(a.vararg) + bool(a.kwarg)
            missing = [k for k in table if k not in defs]
            fresh = [k for k in defs if k not in table]
            for k in missing:
                cand = [d for d in fresh if arity(defs[d]) == len(table[k])]
                rivals = [k2 for k2 in missing if k2 != k and len(table[k2]) == len(table[k])]
                if len(cand) == 1 and not rivals:
                    self.renamed[cand[0]] = k
                    fresh.remove(cand[0])
            # a reference helper that created its result object itself may now be handed that object by its callers
            # (one extra trailing parameter, every call site passes a fresh `T()`): read it in the reference form
            for k in [k for k in table if k not in defs and k not in self.renamed.values()]:
                cand = [d for d in fresh if arity(defs[d]) == len(table[k]) + 1]
                if len(cand) == 1 and self._absorb_object_param(defs[cand[0]], cname is not None):
                    self.renamed[cand[0]] = k
                    fresh.remove(cand[0])
        self._undo_level_moves(by_rel)
        self._undo_factory_params(by_rel)
        self._undo_setter_helpers(by_rel)
        self._undo_returned_penalty(by_rel)
        self._undo_param_renames(by_rel)
        if not self.renamed:
            return
        for m in self.modules.values():
            for n in ast.walk(m.tree):
                if isinstance(n, ast.FunctionDef) and n.name in self.renamed:
                    n.name = self.renamed[n.name]
                elif isinstance(n, ast.Name) and n.id in self.renamed:
                    n.id = self.renamed[n.id]
                elif isinstance(n, ast.Attribute) and n.attr in self.renamed:
                    n.attr = self.renamed[n.attr]
                elif isinstance(n, ast.alias) and n.name in self.renamed:
                    n.name = self.renamed[n.name]

    @staticmethod
    def _plain_assignments(m):
        """Annotated assignments (`x: int = 5`) are read as plain assignments, bare annotations (`x: int`) are dropped: type
        hints do not change behaviour and the rules look for ast.Assign."""
        changed = False
        for node in ast.walk(m.tree):
            for field in ('body', 'orelse', 'finalbody'):
                blk = getattr(node, field, None)
                if not (isinstance(blk, list) and blk and isinstance(blk[0], ast.stmt)):
                    continue
                out = []
                for st in blk:
                    if isinstance(st, ast.AnnAssign):
                        changed = True
                        if st.value is not None:
                            out.append(ast.copy_location(ast.Assign(targets=[st.target], value=st.value), st))
                        continue
                    out.append(st)
                if not out:
                    out = [ast.copy_location(ast.Pass(), blk[0])]
                setattr(node, field, out)
        if changed:
            for n in ast.walk(m.tree):
                for c in ast.iter_child_nodes(n):
                    c._parent = n

    @staticmethod
    def _hoist_walrus(m):
        """`x = f((n := E))` / `if (n := E) ...:` -> `n = E` placed before the statement, when the named expression is
        evaluated unconditionally (not inside a lambda, a comprehension, the right side of and/or, or a branch of a
        conditional expression).  `while` tests are left alone (re-evaluated per iteration)."""
        changed = [False]

        def unconditional(root, target):
            # path from root to target must not pass a conditional evaluation context
            def rec(n):
                if n is target:
                    return True
                if isinstance(n, (ast.Lambda, ast.ListComp, ast.SetComp, ast.DictComp, ast.GeneratorExp)):
                    return False
                if isinstance(n, ast.BoolOp):
                    return rec(n.values[0])
                if isinstance(n, ast.IfExp):
                    return rec(n.test)
                if isinstance(n, ast.Compare):
                    return rec(n.left) or (len(n.comparators) == 1 and rec(n.comparators[0]))
                return any(rec(c) for c in ast.iter_child_nodes(n))
            return rec(root)

        def fix(stmts):
            out = []
            for st in stmts:
                roots = []
                if isinstance(st, (ast.Assign, ast.AugAssign, ast.Return, ast.Expr)) and getattr(st, 'value', None) is not None:
                    roots = [st.value]
                elif isinstance(st, ast.If):
                    roots = [st.test]
                for root in roots:
                    named = [n for n in ast.walk(root) if isinstance(n, ast.NamedExpr)]
                    for ne in named:
                        if not unconditional(root, ne):
                            continue
                        out.append(ast.copy_location(ast.Assign(targets=[ast.Name(id=ne.target.id, ctx=ast.Store())], value=ne.value), st))

                        class R(ast.NodeTransformer):
                            def visit_NamedExpr(self, node):
                                if node is ne:
                                    return ast.copy_location(ast.Name(id=ne.target.id, ctx=ast.Load()), node)
                                return self.generic_visit(node)
                        if isinstance(st, ast.If):
                            st.test = R().visit(st.test)
                        else:
                            st.value = R().visit(st.value)
                        changed[0] = True
                out.append(st)
            return out
        for node in ast.walk(m.tree):
            for field in ('body', 'orelse', 'finalbody'):
                blk = getattr(node, field, None)
                if isinstance(blk, list) and blk and isinstance(blk[0], ast.stmt):
                    if any(isinstance(x, ast.NamedExpr) for st in blk for x in ast.walk(st)):
                        setattr(node, field, fix(blk))
        if changed[0]:
            ast.fix_missing_locations(m.tree)
            for n in ast.walk(m.tree):
                for c in ast.iter_child_nodes(n):
                    c._parent = n

    def _undo_level_moves(self, by_rel):
        """A private helper that was turned from a module-level function into a method (first parameter = the former
        first argument) or back is put where the reference tree has it, and its calls are rewritten accordingly."""
        self.moved = []
        for (rel, cname), table in self.PRIVATE_HELPERS.items():
            m = by_rel.get(rel)
            if m is None:
                continue
            classes = [n for n in m.tree.body if isinstance(n, ast.ClassDef)]
            for name, ref in table.items():
                if cname is None:
                    if any(isinstance(n, ast.FunctionDef) and n.name == name for n in m.tree.body):
                        continue
                    hits = [(c, f) for c in classes for f in c.body if isinstance(f, ast.FunctionDef) and f.name == name
                            and not f.decorator_list and len(f.args.args) == len(ref)]
                    if len(hits) != 1:
                        continue
                    c, f = hits[0]
                    if any(name in self.PRIVATE_HELPERS.get((rel, c.name), {}) for _ in [0]):
                        continue        # that class has a reference method of this name itself
                    c.body.remove(f)
                    if not c.body:
                        c.body.append(ast.Pass())
                    m.tree.body.insert(m.tree.body.index(c), f)
                    f._parent = m.tree
                    self.moved.append('%s.%s -> %s' % (c.name, name, name))
                    for mod in self.modules.values():
                        for n in ast.walk(mod.tree):
                            if isinstance(n, ast.Call) and isinstance(n.func, ast.Attribute) and n.func.attr == name:
                                recv = n.func.value
                                n.args = [recv] + list(n.args)
                                n.func = ast.copy_location(ast.Name(id=name, ctx=ast.Load()), n.func)
                else:
                    cl = [c for c in classes if c.name == cname]
                    if not cl or any(isinstance(f, ast.FunctionDef) and f.name == name for f in cl[0].body):
                        continue
                    hits = [f for f in m.tree.body if isinstance(f, ast.FunctionDef) and f.name == name
                            and not f.decorator_list and len(f.args.args) == len(ref)]
                    if not hits and ref[:1] == ['self']:
                        # moved out of the class AND renamed: the one new private module-level function of that arity whose every
                        # call passes the `self` of a method of this class as first argument
                        known = {k2 for t2 in self.PRIVATE_HELPERS.values() for k2 in t2}
                        cands = []
                        for f in m.tree.body:
                            if not (isinstance(f, ast.FunctionDef) and f.name.startswith('_') and not f.name.startswith('__')
                                    and f.name not in known and not f.decorator_list and len(f.args.args) == len(ref)
                                    and not f.args.vararg and not f.args.kwarg):
                                continue
                            calls = [c for c in ast.walk(m.tree) if isinstance(c, ast.Call) and isinstance(c.func, ast.Name) and c.func.id == f.name]
                            ok_ = bool(calls)
                            for c in calls:
                                p_ = getattr(c, '_parent', None)
                                while p_ is not None and not isinstance(p_, ast.FunctionDef):
                                    p_ = getattr(p_, '_parent', None)
                                in_cls = p_ is not None and getattr(p_, '_parent', None) is cl[0]
                                if not (in_cls and c.args and isinstance(c.args[0], ast.Name) and p_.args.args and c.args[0].id == p_.args.args[0].arg):
                                    ok_ = False
                            if ok_:
                                cands.append(f)
                        if len(cands) == 1:
                            old_name = cands[0].name
                            for mod in self.modules.values():
                                for n in ast.walk(mod.tree):
                                    if isinstance(n, ast.Name) and n.id == old_name:
                                        n.id = name
                                    elif isinstance(n, ast.alias) and n.name == old_name:
                                        n.name = name
                            cands[0].name = name
                            hits = cands
                    if len(hits) != 1 or ref[:1] != ['self']:
                        continue
                    f = hits[0]
                    m.tree.body.remove(f)
                    cl[0].body.append(f)
                    f._parent = cl[0]
                    self.moved.append('%s -> %s.%s' % (name, cname, name))
                    for mod in self.modules.values():
                        for n in ast.walk(mod.tree):
                            if isinstance(n, ast.Call) and isinstance(n.func, ast.Name) and n.func.id == name and n.args \
                                    and not isinstance(n.args[0], ast.Starred):
                                recv = n.args[0]
                                n.func = ast.copy_location(ast.Attribute(value=recv, attr=name, ctx=ast.Load()), n.func)
                                n.args = list(n.args[1:])
        if self.moved:
            for m in self.modules.values():
                for n in ast.walk(m.tree):
                    for c in ast.iter_child_nodes(n):
                        c._parent = n

    def _absorb_object_param(self, fn, is_method):
        """fn(self, .., H) whose every call site passes a fresh constructor call `T()` with one and the same T for the last
        parameter, and which returns that parameter (or nothing): make `H = T()` the first statement, drop the parameter,
        let it `return H`, and drop the argument at the call sites (`h(T())` / `x = T(); h(x); ... x`).  True when done."""
        a = fn.args
        if a.vararg or a.kwarg or a.kwonlyargs or a.defaults or not a.args:
            return False
        pn = a.args[-1].arg
        own = list(self._walk_own(fn))
        rets = [n for n in own if isinstance(n, ast.Return)]
        if any(r.value is not None and not (isinstance(r.value, ast.Name) and r.value.id == pn) for r in rets):
            return False
        sites = []
        for mm in self.modules.values():
            for c in ast.walk(mm.tree):
                if isinstance(c, ast.Call):
                    f = c.func
                    callee = f.id if isinstance(f, ast.Name) else (f.attr if isinstance(f, ast.Attribute) else None)
                    if callee == fn.name:
                        sites.append(c)
        if not sites:
            return False
        ctor = None
        for c in sites:
            if c.keywords or not c.args:
                return False
            e = c.args[-1]
            if not (isinstance(e, ast.Call) and not e.args and not e.keywords and isinstance(e.func, (ast.Name, ast.Attribute))):
                return False
            t = ast.dump(e.func)
            if ctor is not None and t != ast.dump(ctor.func):
                return False
            ctor = e
        # rewrite
        for c in sites:
            c.args = c.args[:-1]
        a.args = a.args[:-1]
        mk = ast.Assign(targets=[ast.Name(id=pn, ctx=ast.Store())], value=ast_copy_plain(ctor))
        d0 = 1 if fn.body and isinstance(fn.body[0], ast.Expr) and isinstance(getattr(fn.body[0], 'value', None), ast.Constant) else 0
        ast.copy_location(mk, fn.body[d0] if len(fn.body) > d0 else fn)
        ast.fix_missing_locations(mk)
        fn.body.insert(d0, mk)
        for r in rets:
            if r.value is None:
                r.value = ast.Name(id=pn, ctx=ast.Load())
                ast.copy_location(r.value, r)
        if not isinstance(fn.body[-1], ast.Return):
            r = ast.Return(value=ast.Name(id=pn, ctx=ast.Load()))
            ast.copy_location(r, fn.body[-1])
            ast.fix_missing_locations(r)
            fn.body.append(r)
        for mm in self.modules.values():
            for n_ in ast.walk(mm.tree):
                for c_ in ast.iter_child_nodes(n_):
                    c_._parent = n_
        return True

    def _undo_returned_penalty(self, by_rel):
        """A module-level helper of the reference tree that merged a penalty into the model it was handed (`pcbo += E;
        return True` / `return False`) may be rewritten to return the penalty (`return E` / `return None`) and leave the merge to
        its caller (`v = h(..); if v is not None: self += v`).  The model reads the second form as the first."""
        for (rel, cname), table in self.PRIVATE_HELPERS.items():
            m = by_rel.get(rel)
            if m is None or cname is not None:
                continue
            for fn in [n for n in m.tree.body if isinstance(n, ast.FunctionDef)]:
                ref = table.get(self.renamed.get(fn.name, fn.name))
                if ref is None or not ref or ref[0] != 'pcbo':
                    continue
                a = fn.args
                cur = [x.arg for x in a.args]
                if a.vararg or a.kwarg or a.kwonlyargs or len(cur) != len(ref) - 1 or 'pcbo' in cur:
                    continue
                own = list(self._walk_own(fn))
                rets = [n for n in own if isinstance(n, ast.Return)]
                vals = [r for r in rets if r.value is not None and not (isinstance(r.value, ast.Constant) and r.value.value is None)]
                if not vals or any(isinstance(r.value, ast.Constant) for r in vals):
                    continue
                # call sites: v = h(args) ; if v is not None / if v: X += v ...
                sites = []
                ok = True
                for mm in self.modules.values():
                    for owner in ast.walk(mm.tree):
                        for field in ('body', 'orelse', 'finalbody'):
                            lst = getattr(owner, field, None)
                            if not isinstance(lst, list):
                                continue
                            for k, st in enumerate(lst):
                                if not isinstance(st, ast.stmt):
                                    continue
                                for c in self._stmt_own_calls(st):
                                    if isinstance(c.func, ast.Name) and c.func.id == fn.name:
                                        nxt = lst[k + 1] if k + 1 < len(lst) else None
                                        good = isinstance(st, ast.Assign) and st.value is c and len(st.targets) == 1 and isinstance(st.targets[0], ast.Name) \
                                            and isinstance(nxt, ast.If) and nxt.body and isinstance(nxt.body[0], ast.AugAssign) \
                                            and isinstance(nxt.body[0].op, ast.Add) and isinstance(nxt.body[0].value, ast.Name) \
                                            and nxt.body[0].value.id == st.targets[0].id and isinstance(nxt.body[0].target, ast.Name)
                                        if good:
                                            v = st.targets[0].id
                                            t = nxt.test
                                            tests_ok = (isinstance(t, ast.Name) and t.id == v) or (
                                                isinstance(t, ast.Compare) and len(t.ops) == 1 and isinstance(t.ops[0], ast.IsNot)
                                                and isinstance(t.left, ast.Name) and t.left.id == v and isinstance(t.comparators[0], ast.Constant)
                                                and t.comparators[0].value is None)
                                            good = tests_ok
                                        if good:
                                            sites.append((st, nxt, c))
                                        else:
                                            ok = False
                if not ok or not sites:
                    continue
                a.args.insert(0, ast.arg(arg='pcbo'))
                for r in rets:
                    if r in vals:
                        merge = ast.AugAssign(target=ast.Name(id='pcbo', ctx=ast.Store()), op=ast.Add(), value=r.value)
                        ast.copy_location(merge, r)
                        ast.fix_missing_locations(merge)
                        r.value = ast.copy_location(ast.Constant(value=True), r)
                        r._merge_before = merge
                    else:
                        r.value = ast.copy_location(ast.Constant(value=False), r)

                def splice(node):
                    for field in ('body', 'orelse', 'finalbody'):
                        lst = getattr(node, field, None)
                        if isinstance(lst, list):
                            out = []
                            for st in lst:
                                if isinstance(st, ast.stmt):
                                    splice(st)
                                    if isinstance(st, ast.Return) and getattr(st, '_merge_before', None) is not None:
                                        out.append(st._merge_before)
                                out.append(st)
                            setattr(node, field, out)
                    for h in getattr(node, 'handlers', []) or []:
                        splice(h)
                splice(fn)
                if not isinstance(fn.body[-1], ast.Return):
                    r = ast.Return(value=ast.Constant(value=False))
                    ast.copy_location(r, fn.body[-1])
                    ast.fix_missing_locations(r)
                    fn.body.append(r)
                for st, nxt, c in sites:
                    recv = nxt.body[0].target.id
                    c.args.insert(0, ast.copy_location(ast.Name(id=recv, ctx=ast.Load()), c))
                    nxt.test = ast.copy_location(ast.Name(id=st.targets[0].id, ctx=ast.Load()), nxt.test)
                    nxt.body = nxt.body[1:] or [ast.Pass()]
                for mm in self.modules.values():
                    for n_ in ast.walk(mm.tree):
                        for c_ in ast.iter_child_nodes(n_):
                            c_._parent = n_

    def _undo_setter_helpers(self, by_rel):
        """A module-level private helper of the reference tree that returned a value which every caller stored into a field of
        the argument (`x.best = h(x)`) may be rewritten to store it itself (`h(x)`, ending in `x.best = value`).  The
        model reads the second form as the first."""
        for (rel, cname), table in self.PRIVATE_HELPERS.items():
            m = by_rel.get(rel)
            if m is None or cname is not None:
                continue
            for fn in [n for n in m.tree.body if isinstance(n, ast.FunctionDef)]:
                if self.renamed.get(fn.name, fn.name) not in table:
                    continue
                a = fn.args
                if a.vararg or a.kwarg or a.kwonlyargs or len(a.args) != 1:
                    continue
                prm = a.args[0].arg
                own = list(self._walk_own(fn))
                if any(isinstance(n, ast.Return) and n.value is not None for n in own):
                    continue
                stores = [n for n in own if isinstance(n, ast.Assign) and len(n.targets) == 1 and isinstance(n.targets[0], ast.Attribute)
                          and isinstance(n.targets[0].value, ast.Name) and n.targets[0].value.id == prm]
                other = [n for n in own if isinstance(n, ast.Attribute) and isinstance(n.ctx, (ast.Store, ast.Del))
                         and isinstance(n.value, ast.Name) and n.value.id == prm]
                if len(stores) != 1 or len(other) != 1 or fn.body[-1] is not stores[0]:
                    continue
                attr = stores[0].targets[0].attr
                sites = []
                ok = True
                for mm in self.modules.values():
                    for owner in ast.walk(mm.tree):
                        for field in ('body', 'orelse', 'finalbody'):
                            lst = getattr(owner, field, None)
                            if not isinstance(lst, list):
                                continue
                            for st in lst:
                                if not isinstance(st, ast.stmt):
                                    continue
                                for c in self._stmt_own_calls(st):
                                    if isinstance(c.func, ast.Name) and c.func.id == fn.name:
                                        if isinstance(st, ast.Expr) and st.value is c and len(c.args) == 1 and not c.keywords \
                                                and isinstance(c.args[0], ast.Name):
                                            sites.append((lst, st, c))
                                        else:
                                            ok = False
                if not ok or not sites:
                    continue
                ret = ast.Return(value=stores[0].value)
                ast.copy_location(ret, stores[0])
                fn.body[-1] = ret
                for lst, st, c in sites:
                    new = ast.Assign(targets=[ast.Attribute(value=ast.Name(id=c.args[0].id, ctx=ast.Load()), attr=attr, ctx=ast.Store())], value=c)
                    ast.copy_location(new, st)
                    ast.fix_missing_locations(new)
                    k = next(j for j, y in enumerate(lst) if y is st)
                    lst[k] = new
                for mm in self.modules.values():
                    for n_ in ast.walk(mm.tree):
                        for c_ in ast.iter_child_nodes(n_):
                            c_._parent = n_

    def _undo_factory_params(self, by_rel):
        """A private helper of the reference tree that fills an object handed in by its caller (`h(D, ..)`, caller:
        `D = T(); h(D, ..); return D`) may be rewritten to create and return it (`h(T, ..)`: `D = T(); ...; return D`,
        caller: `return h(T, ..)`).  The model reads the second form as the first: the rules address the out-parameter."""
        for (rel, cname), table in self.PRIVATE_HELPERS.items():
            m = by_rel.get(rel)
            if m is None:
                continue
            body = m.tree.body
            if cname is not None:
                cl = [n for n in body if isinstance(n, ast.ClassDef) and n.name == cname]
                if not cl:
                    continue
                body = cl[0].body
            for fn in [n for n in body if isinstance(n, ast.FunctionDef)]:
                if self.renamed.get(fn.name, fn.name) not in table:
                    continue
                a = fn.args
                if a.vararg or a.kwarg or a.kwonlyargs:
                    continue
                params = [x.arg for x in a.posonlyargs + a.args]
                fb = fn.body
                own = [n for n in self._walk_own(fn)]
                rets = [n for n in own if isinstance(n, ast.Return)]
                # mode B: the helper fills the object it is handed AND returns it (`return D`), callers use the returned value
                doneB = False
                for i, pn in enumerate(params):
                    if cname is not None and i == 0:
                        continue
                    if not rets or not all(isinstance(r.value, ast.Name) and r.value.id == pn for r in rets) or not isinstance(fb[-1], ast.Return):
                        continue
                    if any(isinstance(n, ast.Name) and n.id == pn and isinstance(n.ctx, ast.Store) and
                           not any(isinstance(q, ast.AugAssign) and q.target is n for q in ast.walk(fn)) for n in ast.walk(fn)):
                        continue        # the parameter is rebound: what is returned need not be the argument
                    sites = self._factory_call_sites(fn.name, i, cname)
                    if sites is None:
                        continue
                    fn.body = fb[:-1] or [ast.Pass()]
                    for r in rets:
                        r.value = None
                    for owner, field, idx, st, call, ai in sites:
                        lst = getattr(owner, field)
                        e = call.args[ai]
                        nm = e.id if isinstance(e, ast.Name) else ('_made' if isinstance(st, ast.Return) else st.targets[0].id)
                        new = []
                        if not isinstance(e, ast.Name):
                            new.append(ast.Assign(targets=[ast.Name(id=nm, ctx=ast.Store())], value=e))
                            call.args[ai] = ast.Name(id=nm, ctx=ast.Load())
                        new.append(ast.Expr(value=call))
                        if isinstance(st, ast.Return):
                            new.append(ast.Return(value=ast.Name(id=nm, ctx=ast.Load())))
                        elif isinstance(e, ast.Name) and st.targets[0].id != nm:
                            new.append(ast.Assign(targets=[ast.Name(id=st.targets[0].id, ctx=ast.Store())], value=ast.Name(id=nm, ctx=ast.Load())))
                        for x in new:
                            ast.copy_location(x, st)
                            ast.fix_missing_locations(x)
                        k = next(j for j, y in enumerate(lst) if y is st)
                        lst[k:k + 1] = new
                    for mm in self.modules.values():
                        for n_ in ast.walk(mm.tree):
                            for c_ in ast.iter_child_nodes(n_):
                                c_._parent = n_
                    doneB = True
                    break
                if doneB:
                    continue
                for i, pn in enumerate(params):
                    if cname is not None and i == 0:
                        continue
                    uses = [n for n in ast.walk(fn) if isinstance(n, ast.Name) and n.id == pn]
                    mk = [st for st in fb if isinstance(st, ast.Assign) and len(st.targets) == 1 and isinstance(st.targets[0], ast.Name)
                          and isinstance(st.value, ast.Call) and isinstance(st.value.func, ast.Name) and st.value.func.id == pn
                          and not st.value.args and not st.value.keywords]
                    if len(mk) != 1 or len(uses) != 1:
                        continue
                    v = mk[0].targets[0].id
                    if v in params:
                        continue
                    aug = {id(n.target) for n in ast.walk(fn) if isinstance(n, ast.AugAssign)}      # D += .. keeps the object (R05.2)
                    stores = [n for n in ast.walk(fn) if isinstance(n, ast.Name) and n.id == v and isinstance(n.ctx, (ast.Store, ast.Del))
                              and id(n) not in aug]
                    if len(stores) != 1 or not rets or not all(isinstance(r.value, ast.Name) and r.value.id == v for r in rets):
                        continue
                    if not (isinstance(fb[-1], ast.Return)):
                        continue
                    # nothing between the start of the function and the creation may read v; the creation is at the top level
                    sites = self._factory_call_sites(fn.name, i, cname)
                    if sites is None:
                        continue
                    # --- rewrite the helper
                    (a.posonlyargs + a.args)[i].arg = v
                    fn.body = [st for st in fb if st is not mk[0]]
                    if isinstance(fn.body[-1], ast.Return):
                        fn.body = fn.body[:-1] or [ast.Pass()]
                    for r in rets:
                        r.value = None
                    # --- rewrite the callers
                    for owner, field, idx, st, call, ai in sites:
                        lst = getattr(owner, field)
                        e = call.args[ai]
                        if isinstance(st, ast.Return):
                            nm = '_made'
                            new = [ast.Assign(targets=[ast.Name(id=nm, ctx=ast.Store())], value=ast.Call(func=e, args=[], keywords=[])),
                                   ast.Expr(value=call), ast.Return(value=ast.Name(id=nm, ctx=ast.Load()))]
                        else:
                            nm = st.targets[0].id
                            new = [ast.Assign(targets=[ast.Name(id=nm, ctx=ast.Store())], value=ast.Call(func=e, args=[], keywords=[])),
                                   ast.Expr(value=call)]
                        call.args[ai] = ast.Name(id=nm, ctx=ast.Load())
                        for x in new:
                            ast.copy_location(x, st)
                            ast.fix_missing_locations(x)
                        k = next(j for j, y in enumerate(lst) if y is st)
                        lst[k:k + 1] = new
                    for mm in self.modules.values():
                        for n_ in ast.walk(mm.tree):
                            for c_ in ast.iter_child_nodes(n_):
                                c_._parent = n_
                    break

    @staticmethod
    def _walk_own(fn):
        stack = list(fn.body)
        while stack:
            n = stack.pop()
            yield n
            for c in ast.iter_child_nodes(n):
                if not isinstance(c, (ast.FunctionDef, ast.AsyncFunctionDef, ast.Lambda, ast.ClassDef)):
                    stack.append(c)

    def _factory_call_sites(self, name, i, cname):
        """call sites of helper `name` in statement position `return h(..)` / `x = h(..)`; None when some call is elsewhere"""
        out = []
        for mm in self.modules.values():
            for owner in ast.walk(mm.tree):
                for field in ('body', 'orelse', 'finalbody'):
                    lst = getattr(owner, field, None)
                    if not isinstance(lst, list):
                        continue
                    for idx, st in enumerate(lst):
                        if not isinstance(st, ast.stmt):
                            continue
                        calls = [c for c in self._stmt_own_calls(st) if (c.func.id if isinstance(c.func, ast.Name) else
                                                                          c.func.attr if isinstance(c.func, ast.Attribute) else None) == name]
                        for c in calls:
                            top = (isinstance(st, ast.Return) and st.value is c) or \
                                  (isinstance(st, ast.Assign) and st.value is c and len(st.targets) == 1 and isinstance(st.targets[0], ast.Name))
                            if not top or c.keywords or any(isinstance(x, ast.Starred) for x in c.args):
                                return None
                            f = c.func
                            unbound = isinstance(f, ast.Attribute) and isinstance(f.value, ast.Name) and f.value.id[:1].isupper()
                            ai = i if (cname is None or unbound) else i - 1
                            if ai < 0 or ai >= len(c.args):
                                return None
                            out.append((owner, field, idx, st, c, ai))
        return out or None

    @staticmethod
    def _stmt_own_calls(st):
        """calls in the header / expression of one statement (not in nested statement lists)"""
        out = []
        stack = [c for f_, c in ast.iter_fields(st) if f_ not in ('body', 'orelse', 'finalbody', 'handlers')]
        while stack:
            n = stack.pop()
            if isinstance(n, list):
                stack.extend(n)
            elif isinstance(n, ast.AST):
                if isinstance(n, ast.Call):
                    out.append(n)
                stack.extend(c for c in ast.iter_child_nodes(n))
        return out

    def _undo_param_renames(self, by_rel):
        """Parameters of the private helpers back to their reference names (definition, body, keyword arguments of the
        calls in the same module): positional match, only when the parameter count is unchanged."""
        inv = {v: k for k, v in self.renamed.items()}
        for (rel, cname), table in self.PRIVATE_HELPERS.items():
            m = by_rel.get(rel)
            if m is None:
                continue
            body = m.tree.body
            if cname is not None:
                cl = [n for n in body if isinstance(n, ast.ClassDef) and n.name == cname]
                if not cl:
                    continue
                body = cl[0].body
            for fn in [n for n in body if isinstance(n, ast.FunctionDef)]:
                ref_name = self.renamed.get(fn.name, fn.name)
                ref = table.get(ref_name)
                if ref is None:
                    continue
                a = fn.args
                if a.kwonlyargs and not a.vararg and all(d is None for d in a.kw_defaults) and not a.defaults:
                    # a keyword-only marker on a private helper: read it as the plain positional signature, and its
                    # calls (below) in positional form
                    a.args = a.args + a.kwonlyargs
                    a.kwonlyargs, a.kw_defaults = [], []
                names_now = [x.arg for x in a.posonlyargs + a.args]
                if not a.vararg and not a.kwarg and not a.kwonlyargs:
                    off = 1 if cname is not None else 0
                    for n in ast.walk(m.tree):
                        if isinstance(n, ast.Call) and n.keywords and all(k.arg for k in n.keywords):
                            f = n.func
                            callee = f.id if isinstance(f, ast.Name) else (f.attr if isinstance(f, ast.Attribute) else None)
                            if callee != fn.name:
                                continue
                            unbound = isinstance(f, ast.Attribute) and isinstance(f.value, ast.Name) and f.value.id in self.PRIVATE_HELPER_CLASSES
                            o = 0 if (cname is None or unbound) else off
                            want = names_now[o:]
                            kw = {k.arg: k.value for k in n.keywords}
                            tail = want[len(n.args):len(n.args) + len(kw)]
                            if len(n.args) + len(kw) <= len(want) and set(tail) == set(kw) and not any(isinstance(x, ast.Starred) for x in n.args):
                                n.args = list(n.args) + [kw[t] for t in tail]
                                n.keywords = []
                cur = a.posonlyargs + a.args + ([a.vararg] if a.vararg else []) + a.kwonlyargs + ([a.kwarg] if a.kwarg else [])
                if len(cur) != len(ref) or [x.arg for x in cur] == ref:
                    continue
                mp = {x.arg: r for x, r in zip(cur, ref) if x.arg != r}
                stores = {n.id for n in ast.walk(fn) if isinstance(n, ast.Name) and isinstance(n.ctx, ast.Store)}
                if set(mp.values()) & (stores | {x.arg for x in cur if x.arg not in mp}):
                    continue        # a reference name is taken by another variable of the function
                for x in cur:
                    x.arg = mp.get(x.arg, x.arg)
                for n in ast.walk(fn):
                    if isinstance(n, ast.Name) and n.id in mp:
                        n.id = mp[n.id]
                for n in ast.walk(m.tree):
                    if isinstance(n, ast.Call):
                        f = n.func
                        callee = f.id if isinstance(f, ast.Name) else (f.attr if isinstance(f, ast.Attribute) else None)
                        if callee == fn.name:
                            for k in n.keywords:
                                if k.arg in mp:
                                    k.arg = mp[k.arg]

    def _nested(self, outer):
        for s in ast.walk(outer.node):
            if s is outer.node:
                continue
            if isinstance(s, ast.FunctionDef) and self._owner_def(s) is outer.node:
                fi = FuncInfo(outer.module, s, cls=None, outer=outer)
                self.functions[fi.qual] = fi
                self._nested(fi)

    @staticmethod
    def _owner_def(node):
        p = getattr(node, '_parent', None)
        while p is not None and not isinstance(p, (ast.FunctionDef, ast.Lambda,
                                                   ast.ClassDef, ast.Module)):
            p = getattr(p, '_parent', None)
        return p

    def _absname(self, mod, level, module):
        base = mod.name.split('.') if mod.ispkg else mod.name.split('.')[:-1]
        if level > 1:
            base = base[:len(base) - (level - 1)]
        return '.'.join(base + (module.split('.') if module else []))

    def _all_of(self, m):
        for n in m.tree.body:
            if isinstance(n, ast.Assign) and any(
                    isinstance(t, ast.Name) and t.id == '__all__' for t in n.targets):
                try:
                    v = ast.literal_eval(n.value)
                    return [v] if isinstance(v, str) else list(v)
                except Exception:
                    return None
        return None

    def _build_scope(self, m):
        sc = m.scope
        if sc.get('__built__'):
            return sc
        sc['__built__'] = True
        for n in m.tree.body:
            if isinstance(n, ast.ClassDef):
                sc[n.name] = ('class', self.classes[n.name])
            elif isinstance(n, ast.FunctionDef):
                sc[n.name] = ('func', self.functions['%s.%s' % (m.name.split('.')[-1], n.name)])
            elif isinstance(n, ast.ImportFrom):
                src = self._absname(m, n.level, n.module) if n.level else n.module
                for a in n.names:
                    if a.name == '*':
                        if src in self.modules:
                            sm = self.modules[src]
                            self._build_scope(sm)
                            names = self._all_of(sm)
                            if names is None:
                                names = [k for k in sm.scope if not k.startswith('_')]
                            for k in names:
                                if k in sm.scope:
                                    sc[k] = sm.scope[k]
                    else:
                        sub = '%s.%s' % (src, a.name)
                        if sub in self.modules:
                            sc[a.asname or a.name] = ('mod', sub)
                        elif src in self.modules:
                            sc[a.asname or a.name] = ('lazy', (src, a.name))
                        else:
                            sc[a.asname or a.name] = ('ext', '%s.%s' % (src, a.name))
            elif isinstance(n, ast.Import):
                for a in n.names:
                    if a.name in self.modules:
                        sc[a.asname or a.name] = ('mod', a.name)
                    else:
                        sc[a.asname or a.name.split('.')[0]] = ('ext', a.name)
            elif isinstance(n, ast.Assign):
                for t in n.targets:
                    if isinstance(t, ast.Name):
                        sc[t.id] = ('var', (m, n))
        return sc

    def lookup(self, modname, name, depth=0):
        m = self.modules.get(modname)
        if m is None:
            return None
        e = m.scope.get(name)
        while e and e[0] == 'lazy' and depth < 30:
            src, nm = e[1]
            sub = '%s.%s' % (src, nm)
            if sub in self.modules and nm not in self.modules[src].scope:
                return ('mod', sub)
            e = self.modules[src].scope.get(nm)
            if e is None and sub in self.modules:
                return ('mod', sub)
            depth += 1
        return e

    def resolve_expr(self, m, e):
        """Resolve a Name / dotted Attribute in module scope of m to a scope
        entry, or None."""
        if isinstance(e, ast.Name):
            r = self.lookup(m.name, e.id)
            if r is None and e.id in BUILTIN_CLASSES:
                return ('builtin', e.id)
            return r
        if isinstance(e, ast.Attribute):
            b = self.resolve_expr(m, e.value)
            if b and b[0] == 'mod':
                r = self.lookup(b[1], e.attr)
                if r is None and ('%s.%s' % (b[1], e.attr)) in self.modules:
                    return ('mod', '%s.%s' % (b[1], e.attr))
                return r
            if b and b[0] == 'ext':
                return ('ext', '%s.%s' % (b[1], e.attr))
        return None

    def _link(self):
        for m in self.modules.values():
            self._build_scope(m)
        for ci in self.classes.values():
            for b in ci.node.bases:
                r = self.resolve_expr(ci.module, b)
                if r and r[0] == 'class':
                    ci.bases.append(r[1])
                else:
                    ci.bases.append(ast.unparse(b))
        for ci in self.classes.values():
            ci.mro = self._mro(ci)

    def _mro(self, ci, _stack=()):
        if isinstance(ci, str):
            return [ci] if ci == 'object' else [ci, 'object']
        if ci in _stack:
            raise AnalysisError("inheritance cycle at %s" % ci.name)
        seqs = [list(self._mro(b, _stack + (ci,))) for b in ci.bases]
        seqs.append(list(ci.bases))
        if not ci.bases:
            seqs = [['object']]
        res = [ci]
        seqs = [s for s in seqs if s]
        while seqs:
            for s in seqs:
                h = s[0]
                if not any(h in t[1:] for t in seqs):
                    break
            else:
                raise AnalysisError("inconsistent MRO for %s" % ci.name)
            res.append(h)
            seqs = [[x for x in s if x is not h and x != h] for s in seqs]
            seqs = [s for s in seqs if s]
        return res

    # ------------------------------------------------------------- queries
    def cls(self, name):
        ci = self.classes.get(name)
        if ci is None:
            raise AnalysisError("class %s not found" % name)
        return ci

    def mro_names(self, name):
        return [c.name if isinstance(c, ClassInfo) else c for c in self.cls(name).mro]

    def lookup_method(self, clsname, meth, after=None, setter=False):
        """First definer of ``meth`` in the MRO of clsname; with ``after`` the
        first definer strictly after class ``after`` in that MRO."""
        mro = self.cls(clsname).mro
        start = 0
        if after is not None:
            names = [c.name if isinstance(c, ClassInfo) else c for c in mro]
            if after not in names:
                return None
            start = names.index(after) + 1
        for c in mro[start:]:
            if isinstance(c, ClassInfo):
                tab = c.setters if setter else c.methods
                if meth in tab:
                    return tab[meth]
            else:
                bi = getattr(builtins, c, None)
                if bi is not None and hasattr(bi, meth) and c != 'object':
                    return ('builtin', '%s.%s' % (c, meth))
        return None

    def definer(self, clsname, meth):
        r = self.lookup_method(clsname, meth)
        if isinstance(r, FuncInfo):
            return r.cls.name
        if isinstance(r, tuple):
            return r[1].split('.')[0]
        return None

    def func(self, qual):
        """FuncInfo by 'Class.method' or 'modulebasename.function'."""
        f = self.functions.get(qual)
        if f is None:
            f = self._moved(qual)
        if f is None:
            raise AnalysisError("function %s not found (anchor vanished)" % qual)
        return f

    def _moved(self, qual):
        """A module-level function that is not where the reference tree has it but exists exactly once elsewhere in the
        package under the same name was moved to another module (and is imported from there)."""
        if '.' not in qual:
            return None
        mod, name = qual.rsplit('.', 1)
        if mod in self.classes:
            return None
        hits = [f for q, f in self.functions.items() if f.cls is None and f.outer is None and f.name == name]
        hits = list({id(f): f for f in hits}.values())
        return hits[0] if len(hits) == 1 else None

    def opt_funcs(self, quals):
        """The functions among `quals` that exist.  For private helpers only: a helper that was inlined into its callers
        and deleted is analysed as part of those callers (which the rule lists contain anyway)."""
        return [self.func(q) for q in quals if self.has_func(q)]

    def has_func(self, qual):
        return qual in self.functions or self._moved(qual) is not None

    def subclasses_of(self, name):
        return [c for c in self.classes.values()
                if name in [x.name if isinstance(x, ClassInfo) else x for x in c.mro]]

    def module_const(self, modname, name):
        e = self.lookup(modname, name)
        if e and e[0] == 'var':
            return e[1][1].value
        return None

    def all_funcs(self):
        seen = set()
        for f in self.functions.values():
            if id(f) not in seen:
                seen.add(id(f))
                yield f

    # ----------------------------------------------------- type inference
    def class_kinds(self):
        """(boolean class names, spin class names) read from the literal
        tuples BOOLEAN_MODELS / SPIN_MODELS in qubovert/__init__.py."""
        out = []
        for nm in ('BOOLEAN_MODELS', 'SPIN_MODELS'):
            v = self.module_const(self.package, nm)
            if not isinstance(v, ast.Tuple):
                raise AnalysisError("%s is not a literal tuple" % nm)
            names = []
            for e in v.elts:
                r = self.resolve_expr(self.modules[self.package], e)
                if not r or r[0] != 'class':
                    raise AnalysisError("cannot resolve %s in %s" % (ast.unparse(e), nm))
                names.append(r[1].name)
            out.append(names)
        return out


def enclosing_stmt(node):
    while node is not None and not isinstance(node, ast.stmt):
        node = getattr(node, '_parent', None)
    return node


def parent(node):
    return getattr(node, '_parent', None)


def ancestors(node):
    p = parent(node)
    while p is not None:
        yield p
        p = parent(p)
