"""C03 - PCSO comparison constraints.  Rules R03.1 - R03.5 (DESIGN 4.3)."""
import ast

from ..pymodel import AnalysisError, FuncInfo, parent
from ..astutil import (alpha_src, src, is_name, is_attr, is_const, const_num, call_name, walk_no_nested,
                       strip_docstring, compare_atoms, enclosing_stmt, calls_in, names_in,
                       assignments_to, kwarg)
from ..cfg import cfg_of, ENTRY, EXIT
from ..effects import Effects
from ..forwarding import check_forwarding
from . import C02

EXPLANATION = (
    "Decides the hand-off clauses that make each spin constraint method the boolean method "
    "conjugated by the two basis changes: the six PCSO.add_constraint_* siblings agree clause by "
    "clause on one skeleton (fresh PUSO copy recorded under the method's own relation, `not lam` "
    "return, helper PCBO seeded with the model's ancilla counter, same-named boolean method on "
    "puso_to_pubo(H) with lam/log_trick/bounds/suppress_warnings forwarded to their namesakes, "
    "counter handed back before/with the merge of pubo_to_puso(helper)); _empty_pcbo seeds the "
    "counter; the remaining PCSO methods delegate to the PCBO implementations; the counter is "
    "never reset on a live model.")
NOT_DECIDED = ("the numerical guarantee F >= 0 / min F = 0 <=> H R 0 / F >= lam (as C02), "
               "correctness of the basis changes (C04).")
TRUSTED = ["the PCBO constraint methods (C02)", "puso_to_pubo / pubo_to_puso (C04)"]

RELS = C02.RELS


def _seed_mode(fn):
    """'object' when _empty_pcbo(x) seeds the helper with x's counter (x._ancilla / x.num_ancillas), 'counter' when it
    seeds it with x itself (the caller passes the counter)."""
    for n in ast.walk(fn.module.tree):
        if isinstance(n, ast.FunctionDef) and n.name == '_empty_pcbo' and n.args.args:
            prm = n.args.args[0].arg
            for a in ast.walk(n):
                if isinstance(a, ast.Assign) and any(isinstance(t, ast.Attribute) and t.attr == '_ancilla' for t in a.targets):
                    if is_name(a.value, prm):
                        return 'counter'
    return 'object'


def is_seeded(fn, e, selfn, at, depth=4):
    """Does expression e (the receiver of the boolean constraint call / the helper whose counter is handed back) denote
    a PCBO seeded with self's ancilla counter: `_empty_pcbo(self)`, possibly through chained calls that return their
    receiver and through local names, or a `PCBO()` local whose `_ancilla` was set from self's counter before `at`."""
    while isinstance(e, ast.Call) and isinstance(e.func, ast.Attribute):
        e = e.func.value
    if isinstance(e, ast.Call) and call_name(e) == '_empty_pcbo' and e.args:
        if _seed_mode(fn) == 'counter':
            # the helper takes the counter itself
            return src(e.args[0]) in ('%s._ancilla' % selfn, '%s.num_ancillas' % selfn)
        return is_name(e.args[0], selfn)
    if isinstance(e, ast.Name) and depth > 0:
        g = cfg_of(fn.node)
        seeds = [n for n in g.stmts() if isinstance(n, ast.Assign) and any(src(t) == '%s._ancilla' % e.id for t in n.targets)
                 and src(n.value) in ('%s._ancilla' % selfn, '%s.num_ancillas' % selfn)]
        ds = [(s_, x) for s_, x in assignments_to(fn.node, e.id) if isinstance(x, ast.AST)]
        if not ds:
            return False
        ok = True
        for s_, x in ds:
            r = x
            while isinstance(r, ast.Call) and isinstance(r.func, ast.Attribute):
                r = r.func.value
            if isinstance(r, ast.Name) and r.id == e.id:
                continue                      # h = h.add_constraint_...(...): same object
            if is_seeded(fn, x, selfn, s_, depth - 1):
                continue
            fresh = isinstance(r, ast.Call) and src(r.func).split('.')[-1] == 'PCBO' and not r.args
            if fresh and seeds and at is not None and g.dominates(seeds, at):
                continue
            ok = False
        return ok
    return False


def counter_handback(ctx, rid):
    """Every PCSO relational method that merges a helper PCBO's terms into the model also takes the helper's ancilla
    counter back (before or with the merge), on every path - also when the helper is used as an expression."""
    P, R = ctx.prog, ctx.res
    for rel, fn in C02.rel_methods(P, 'PCSO').items():
        selfn = R.self_name(fn)
        g = cfg_of(fn.node)
        merges = [n for n in g.stmts() if isinstance(n, ast.AugAssign) and is_name(n.target, selfn)]
        syncs = [n for n in g.stmts() if isinstance(n, ast.Assign) and any(src(t) == '%s._ancilla' % selfn for t in n.targets)
                 and isinstance(n.value, ast.Attribute) and n.value.attr in ('_ancilla', 'num_ancillas')
                 and not is_name(n.value.value, selfn)]
        ok = bool(merges) and bool(syncs)
        for m in merges:
            ok = ok and (g.dominates(syncs, m) or g.must_pass_to_exit(m, set(syncs)))
        ctx.inst(rid, fn, syncs[0] if syncs else (merges[0] if merges else 'def %s' % fn.name), ok,
                 "counter taken back from the helper on every merging path" if ok else
                 "%s merges the helper's penalty but does not write the helper's ancilla counter back to %s._ancilla on every "
                 "such path: the ancillas it added are not counted, and the next constraint hands their names out again"
                 % (fn.name, selfn))


def counter_handback_source(ctx, rid):
    """Whatever is written back into self._ancilla by a PCSO constraint method is the counter of a helper that was
    seeded with self's counter (`_empty_pcbo(self)`): a fresh PCBO() would hand back a counter that restarts at 0."""
    P, R = ctx.prog, ctx.res
    for rel, fn in C02.rel_methods(P, 'PCSO').items():
        selfn = R.self_name(fn)
        for n in ast.walk(fn.node):
            if not (isinstance(n, ast.Assign) and any(src(t) == '%s._ancilla' % selfn for t in n.targets)):
                continue
            v = n.value
            ok, why = False, "`%s` is not the counter of the seeded helper" % src(v)
            if isinstance(v, ast.Attribute) and v.attr in ('_ancilla', 'num_ancillas') and isinstance(v.value, ast.Name):
                hv = v.value.id
                defs = [x for s_, x in assignments_to(fn.node, hv) if isinstance(x, ast.AST)]

                def root_call(e):
                    # strip chained method calls: X.m(...).n(...) -> X
                    while isinstance(e, ast.Call) and isinstance(e.func, ast.Attribute):
                        e = e.func.value
                    return e
                ok = is_seeded(fn, v.value, selfn, n)
                why = "helper `%s` is not built on _empty_pcbo(%s): its counter restarts at 0 and is written back over the " \
                      "model's counter - ancilla names already in the model are handed out again" % (hv, selfn)
            ctx.inst(rid, fn, n, ok, "counter handed back from the helper seeded with the model's counter" if ok else why)


def rules(ctx):
    P, R = ctx.prog, ctx.res
    ctx.rule('R03.8', "no function writes module-level state (memo / registry): results independent of earlier calls", floor=1)
    from .C14 import no_module_state as _nms
    _nms(ctx, 'R03.8')
    from .C14 import derived_fields
    ctx.rule('R03.6', "a field of model objects outside the frozen bookkeeping fields that is written together with the terms / a bookkeeping field is written by every other mutator of that state (no stale memo)", floor=1)
    derived_fields(ctx, 'R03.6')
    E = Effects(P, R)
    E.build()
    ctx.rule('R03.1', "six-sibling skeleton: same-named boolean method on puso_to_pubo(H) of the recorded "
                      "polynomial, options forwarded to their namesakes, merge of pubo_to_puso(helper), "
                      "record {R: +1}, `not lam` return", floor=30)
    ctx.rule('R03.2', "the helper PCBO is seeded with the model's ancilla counter", floor=7)
    ctx.rule('R03.3', "the counter is handed back on every path that merges the helper's terms", floor=6)
    ctx.rule('R03.4', "the recorded polynomial is a fresh PUSO copy, never mutated afterwards", floor=12)
    ctx.rule('R03.5', "remaining PCSO methods delegate to the PCBO implementations", floor=9)

    meths = C02.rel_methods(P, 'PCSO')
    C02.record_helpers(ctx, 'R03.1')
    for rel, fn in meths.items():
        selfn = R.self_name(fn)
        hp = fn.params[1]
        g = cfg_of(fn.node)
        # (b) record balance, (c) lam-zero
        C02.record_balance(ctx, 'R03.1', fn, rel)
        C02.lam_zero_rule(ctx, 'R03.1', fn)
        # (a) R03.4
        C02.recorded_copy_rules(ctx, E, fn, 'R03.4', 'R03.4', 'PUSO')
        # (d) inner call
        inner = [c for c in calls_in(fn.node) if isinstance(c.func, ast.Attribute)
                 and c.func.attr.startswith('add_constraint_') and not is_name(c.func.value, selfn)]
        if len(inner) != 1:
            ctx.inst('R03.1', fn, 'inner boolean constraint', False,
                     "expected exactly one constraint call on the helper PCBO, found %d" % len(inner))
            continue
        c = inner[0]
        ok = c.func.attr == fn.name
        ctx.inst('R03.1', fn, c, ok,
                 "boolean method of the same relation" if ok else
                 "spin method %s calls the boolean method %s: a different relation is penalised than recorded"
                 % (fn.name, c.func.attr))
        a0 = c.args[0] if c.args else None
        ok = isinstance(a0, ast.Call) and call_name(a0) == 'puso_to_pubo' and a0.args and is_name(a0.args[0], hp)
        ctx.inst('R03.1', fn, a0 if a0 is not None else c, ok,
                 "boolean form puso_to_pubo(%s) of the recorded polynomial" % hp if ok else
                 "the helper receives `%s`, not puso_to_pubo(%s) of the recorded spin polynomial"
                 % (src(a0) if a0 is not None else '', hp))
        # receiver originates from _empty_pcbo(self)
        rv = c.func.value
        seeded = is_seeded(fn, rv, selfn, enclosing_stmt(c))
        ctx.inst('R03.2', fn, c, seeded,
                 "helper comes from _empty_pcbo(self)" if seeded else
                 "the boolean constraint is built on `%s`, not on a helper seeded by _empty_pcbo(self): its "
                 "ancilla names start again at __a0" % src(rv))
        # (e) forwarding
        tg = P.lookup_method('PCBO', c.func.attr)
        if isinstance(tg, FuncInfo):
            check_forwarding(ctx, 'R03.1', fn, c, tg, 'method')
            # every option of the spin method that the boolean method also has must be passed
            from ..astutil import bind_args
            b = bind_args(c, tg, skip_self=True)
            for opt in fn.params[2:]:
                if opt in tg.all_params:
                    ok = opt in b and is_name(b[opt], opt)
                    ctx.inst('R03.1', fn, '%s forwarded in %s' % (opt, fn.name), ok,
                             "option passed on" if ok else
                             "option `%s` of the spin method is not passed on to the boolean method" % opt)
        # helper variable
        st = enclosing_stmt(c)
        hv = None
        if isinstance(st, ast.Assign) and isinstance(st.targets[0], ast.Name):
            hv = st.targets[0].id
        # (g) merge
        merges = [n for n in g.stmts() if isinstance(n, ast.AugAssign) and is_name(n.target, selfn)]
        okm = False
        for m in merges:
            v = m.value
            if isinstance(m.op, ast.Add) and isinstance(v, ast.Call) and call_name(v) == 'pubo_to_puso' and v.args \
                    and hv and is_name(v.args[0], hv):
                okm = True
            ctx.inst('R03.1', fn, m, isinstance(m.op, ast.Add) and isinstance(v, ast.Call) and
                     call_name(v) == 'pubo_to_puso' and bool(v.args) and hv is not None and is_name(v.args[0], hv),
                     "merges the spin form pubo_to_puso(%s) of the helper" % hv if okm else
                     "`%s` does not merge pubo_to_puso(helper): boolean terms would be added to a spin model" % src(m))
        if not merges:
            ctx.inst('R03.1', fn, 'merge', False, "the helper's penalty is never merged into the model")
        # (f) R03.3 sync
        syncs = [n for n in g.stmts() if isinstance(n, ast.Assign) and any(
            src(t) == '%s._ancilla' % selfn for t in n.targets)]
        good_sync = [n for n in syncs if hv and src(n.value) in ('%s._ancilla' % hv, '%s.num_ancillas' % hv)]
        ok3 = bool(merges) and bool(good_sync)
        if ok3:
            for m in merges:
                # every path ENTRY -> m -> EXIT passes a sync
                before = g.dominates(good_sync, m)
                after = g.must_pass_to_exit(m, set(good_sync))
                ok3 = ok3 and (before or after)
        ctx.inst('R03.3', fn, good_sync[0] if good_sync else (syncs[0] if syncs else 'self._ancilla = h._ancilla'), ok3,
                 "counter handed back from the helper on every merging path" if ok3 else
                 "the helper's ancilla counter is not written back to self._ancilla on every path that merges its "
                 "terms: num_ancillas under-reports and the next constraint reuses the same ancilla names")
        # (h) returns self
        rets = [n for n in g.stmts() if isinstance(n, ast.Return)]
        ctx.inst('R03.1', fn, rets[-1] if rets else 'return', bool(rets) and all(src(r.value) == selfn for r in rets),
                 "returns self", nontrivial=False)

    # ---------------------------------------------------------------- R03.2
    if not P.has_func('_pcso._empty_pcbo'):
        # inlined into the constraint methods (PCBO() + seeding assignment, accepted by is_seeded above)
        ctx.inst('R03.2', ('qubovert/_pcso.py', ''), '_empty_pcbo', True, "the seeding helper is written out in the methods",
                 nontrivial=False)
        ep = None
    else:
        ep = P.func('_pcso._empty_pcbo')
    prm = ep.params[0] if ep else None
    if ep is not None:
        g = cfg_of(ep.node)
        rets = [n for n in g.stmts() if isinstance(n, ast.Return)]
        seeds = [n for n in g.stmts() if isinstance(n, ast.Assign) and any(
            isinstance(t, ast.Attribute) and t.attr == '_ancilla' for t in n.targets)]
        ok = bool(rets) and bool(seeds)
        for r in rets:
            rv = src(r.value)
            s_ok = [s for s in seeds if src(s.targets[0]) == '%s._ancilla' % rv and
                    src(s.value) in ('%s._ancilla' % prm, '%s.num_ancillas' % prm, prm)]     # prm: the callers pass the counter
            ok = ok and bool(s_ok) and g.dominates(s_ok, r)
            ts = R.infer(r.value, ep, None)
            ok = ok and ts == {'PCBO'}
        ctx.inst('R03.2', ep, seeds[0] if seeds else 'h._ancilla = pcso._ancilla', ok,
                 "returned PCBO carries the model's counter" if ok else
                 "_empty_pcbo does not copy the model's ancilla counter into the PCBO it returns")

    # counter never reset on a live model (shared with C14)
    from .C14 import reset_reachability, refresh_order
    reset_reachability(ctx, 'R03.3')
    refresh_order(ctx, 'R03.3')
    from .C05 import derived_from_copy
    derived_from_copy(ctx, 'R03.3')
    C02.record_not_shared(ctx, 'R03.4')
    C02.copy_ctor_counter(ctx, 'R03.3')
    counter_handback_source(ctx, 'R03.3')
    ctx.rule('R03.7', "the weight enters the boolean penalties only linearly (premise: the spin methods delegate to them)", floor=4)
    from .C16 import weight_linearity
    weight_linearity(ctx, 'R03.7')
    C02.arity_guards(ctx, 'R03.7', P.opt_funcs(['_pcbo._special_constraints_eq_zero', '_pcbo._special_constraints_le_zero']) or
                     [P.func('PCBO.add_constraint_eq_zero'), P.func('PCBO.add_constraint_le_zero')])
    C02.slack_register_size(ctx, 'R03.7', [P.func('PCBO.add_constraint_le_zero'), P.func('PCBO.add_constraint_ne_zero')] +
                            P.opt_funcs(['_pcbo._special_constraints_le_zero']))
    C02.two_sided_slack(ctx, 'R03.7', P.func('PCBO.add_constraint_ne_zero'))
    # bounds completed by _get_bounds enclose the polynomial (the spin methods hand their bounds on to it)
    if P.has_func('_pcbo._get_bounds'):
        C02.get_bounds_rule(ctx, 'R03.7', P.func('_pcbo._get_bounds'), 'approximate_pubo_extrema')
    C02.slack_weights(ctx, 'R03.7', list(C02.rel_methods(P, 'PCBO').values()) + P.opt_funcs(['_pcbo._special_constraints_le_zero']))
    C02.merge_discipline(ctx, 'R03.7', list(C02.rel_methods(P, 'PCBO').values()) + P.opt_funcs(
        ['_pcbo._special_constraints_eq_zero', '_pcbo._special_constraints_le_zero']))

    # ---------------------------------------------------------------- R03.5
    # premise: what PCSO.is_solution_valid delegates to reads the record relation by relation, every entry, no memo
    C02.validity_table(ctx, 'R03.5', P.func('PCBO.is_solution_valid'))
    table = ['is_solution_valid', 'remove_ancilla_from_solution', 'subs', '__round__', 'update',
             '__init__', '_append_constraint']
    pcso = P.cls('PCSO')
    for name in table:
        m = pcso.methods.get(name)
        tgt = P.cls('PCBO').methods.get(name)
        if m is None:
            # inherited? then it must resolve to ... PCSO does not inherit from PCBO
            ctx.inst('R03.5', (pcso.module.relpath, 'PCSO'), 'def %s' % name, False,
                     "PCSO.%s vanished: the PUSO default ignores constraints/ancillas" % name)
            continue
        calls = [c for c in calls_in(m.node) if src(c.func) == 'PCBO.%s' % name]
        ok = len(calls) == 1 and tgt is not None
        if not calls and tgt is not None and [alpha_src(x) for x in strip_docstring(m.node.body)] == \
                [alpha_src(x) for x in strip_docstring(tgt.node.body)] and m.params == tgt.params:
            ctx.inst('R03.5', m, 'def %s' % name, True, "statement-wise equal to PCBO.%s" % name)
            continue
        if ok:
            c = calls[0]
            selfn = R.self_name(m)
            if m.is_classmethod:
                pass
            else:
                ok = bool(c.args) and is_name(c.args[0], selfn)
            if ok and tgt is not None:
                check_forwarding(ctx, 'R03.5', m, c, tgt, 'unbound', skip_self=m.is_classmethod)
            # result returned (for non-None methods)
            rets = [n for n in walk_no_nested(strip_docstring(m.node.body)) if isinstance(n, ast.Return)]
            if name not in ('__init__', 'update', '_append_constraint'):
                ok = ok and any(r.value is c for r in rets)
            else:
                # the delegation happens on every path (not under a condition on the arguments)
                gm = cfg_of(m.node)
                ok = ok and gm.must_pass_to_exit(ENTRY, {enclosing_stmt(c)})
        ctx.inst('R03.5', m, 'def %s' % name, ok,
                 "delegates to PCBO.%s(self, ...)" % name if ok else
                 "PCSO.%s does not delegate to PCBO.%s with self" % (name, name))
    for name in ('constraints', 'num_ancillas'):
        m = pcso.methods.get(name)
        t = P.cls('PCBO').methods.get(name)
        if m is None or t is None:
            ctx.inst('R03.5', (pcso.module.relpath, 'PCSO'), 'def %s' % name, False, "property vanished")
            continue
        a = [alpha_src(n.value) for n in walk_no_nested(strip_docstring(m.node.body)) if isinstance(n, ast.Return)]
        b = [alpha_src(n.value) for n in walk_no_nested(strip_docstring(t.node.body)) if isinstance(n, ast.Return)]
        deleg = any(src(c.func) in ('PCBO.%s.fget' % name,) for c in calls_in(m.node))
        ok = (a == b and bool(a)) or deleg
        ctx.inst('R03.5', m, 'def %s' % name, ok,
                 "clause-wise equal to PCBO.%s" % name if ok else
                 "PCSO.%s returns `%s` but PCBO.%s returns `%s`" % (name, a, name, b))
