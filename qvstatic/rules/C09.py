"""C09 - brute-force solvers.  Rules R09.1 - R09.7 (DESIGN 4.9)."""
import ast

from ..pymodel import AnalysisError, FuncInfo, parent
from ..astutil import (positive_form, expand_names, src, is_name, is_const, const_num, call_name, walk_no_nested, strip_docstring,
                       compare_atoms, enclosing_stmt, calls_in, names_in, assignments_to, norm_compare,
                       orient, literal_tuple)
from ..cfg import cfg_of, ENTRY, EXIT, RAISE
from .. import nullness
from ..forwarding import check_forwarding

EXPLANATION = (
    "Decides the search skeleton for every model: the four wrappers pass (spin flag, value "
    "function) of their own kind and forward (all_solutions, valid); candidates are "
    "itertools.product(DOM, repeat=N) with DOM selected by the flag and N / index->label map "
    "taken from one source per branch (model attributes, or an enumeration of the labels in the "
    "keys - never a cache in the fallback); the validity filter dominates the value computation "
    "and both best-updates; the single-solution update is strict `candidate < incumbent`, the "
    "all-solutions update non-strict with the collection keyed by the value and read at the final "
    "best value, the None incumbent is guarded; the offset popped from the argument is stored "
    "back under the same key on every path with nothing in between that can raise; empty and "
    "constant models are recognised from the dict's content and return the documented shapes "
    "before enumeration; the problem-class solvers decode what the QUBO solver returned / pass "
    "their validity predicate / use the same comparator discipline.")
NOT_DECIDED = "that the reported number is the true minimum (depends on the value functions' arithmetic, C05)."
TRUSTED = ["itertools.product enumerates the full Cartesian power", "the value functions (C05)"]

WRAP = {'pubo': (False, 'pubo_value'), 'qubo': (False, 'qubo_value'),
        'puso': (True, 'puso_value'), 'quso': (True, 'quso_value')}


def best_update_rules(ctx, rid, fn, loop, all_flag, cand, inc):
    """Orientation of `best = cand, x` updates inside loop: strict for the
    single-solution form, non-strict for all-solutions; None guard."""
    g = cfg_of(fn.node)
    n = 0
    for st in ast.walk(loop):
        if not inc.is_update(st, cand):
            continue
        BV = inc.value
        n += 1
        facts, tests = [], []
        for t, pol, o in g.edge_dominators(st):
            facts += compare_atoms(t, pol)
            tests.append((t, pol))
        allmode = ('truthy', all_flag) in facts
        single = ('falsy', all_flag) in facts
        # an update whose guards contradict each other (v < b after the branch for v <= b was not taken) never executes
        contra = {'<': ('>', '>=', '=='), '<=': ('>',), '>': ('<', '<=', '=='), '>=': ('<',), '==': ('<', '>', '!=')}
        dead = any(len(a) == 3 and len(b) == 3 and a[0] == b[0] and a[2] == b[2] and b[1] in contra.get(a[1], ()) for a in facts for b in facts)
        if dead:
            ctx.inst(rid, fn, st, True, "unreachable update (its guards contradict each other)", nontrivial=False)
            continue
        # find the comparison cand ? best[0] in a dominating (true) test
        op = None
        guard_none = False
        for t, pol in tests:
            t = positive_form(t, pol)
            for c in ast.walk(t):
                if isinstance(c, ast.Compare) and len(c.ops) == 1:
                    o = orient(norm_compare(c), cand)
                    if o and o[1] == BV:
                        op = o[0]
                        guard_none = nullness.local_guard(c.comparators[0] if src(c.comparators[0]) == BV else c.left, BV) or \
                            any(isinstance(b, ast.BoolOp) and isinstance(b.op, ast.Or) and
                                any(src(v) in ('%s is None' % BV, 'None is %s' % BV) for v in b.values) for b in ast.walk(t))
        if op is None:
            ctx.inst(rid, fn, st, False, "best-update is not guarded by a comparison of %s with %s" % (cand, BV))
            continue
        if allmode and not single:
            ok = op == '<='
            msg = "all-solutions update is non-strict (<=)" if ok else \
                "the all-solutions update uses `%s`: %s" % (op, "ties are dropped, not every minimiser is returned" if op == '<' else "wrong orientation")
        else:
            ok = op == '<'
            msg = "single-solution update is strict (<)" if ok else \
                "the single-solution update uses `%s` instead of `<`: %s" % (op, "a larger value replaces the incumbent" if op in ('>', '>=') else "not the first minimiser / inconsistent with the all-solutions form")
        ctx.inst(rid, fn, st, ok, msg)
        ctx.inst(rid, fn, 'None guard of ' + src(st)[:30], guard_none,
                 "incumbent None is guarded" if guard_none else
                 "comparison with %s is not guarded against the initial None incumbent" % BV)
    return n


class Incumbent:
    """The incumbent of the search: one local holding the pair (value, assignment) - value read as NAME[0] - or two
    locals assigned together from (cand, x)."""
    def __init__(self, loop, cand):
        self.form = None
        for st in ast.walk(loop):
            if not (isinstance(st, ast.Assign) and len(st.targets) == 1 and isinstance(st.value, ast.Tuple)
                    and len(st.value.elts) == 2 and src(st.value.elts[0]) == cand):
                continue
            t = st.targets[0]
            if isinstance(t, ast.Name):
                self.form, self.name, self.value, self.sol = 'pair', t.id, '%s[0]' % t.id, '%s[1]' % t.id
                return
            if isinstance(t, ast.Tuple) and len(t.elts) == 2 and all(isinstance(e, ast.Name) for e in t.elts):
                self.form, self.name, self.value, self.sol = 'split', None, t.elts[0].id, t.elts[1].id
                return

    def is_update(self, st, cand=None):
        if not (isinstance(st, ast.Assign) and len(st.targets) == 1):
            return False
        t = st.targets[0]
        if self.form == 'pair':
            ok = is_name(t, self.name)
        else:
            ok = isinstance(t, ast.Tuple) and len(t.elts) == 2 and is_name(t.elts[0], self.value) and is_name(t.elts[1], self.sol)
        if ok and cand is not None:
            ok = isinstance(st.value, ast.Tuple) and bool(st.value.elts) and src(st.value.elts[0]) == cand
        return ok


def rules(ctx):
    P, R = ctx.prog, ctx.res
    from .C14 import no_module_state
    ctx.rule('R09.8', "no function writes module-level state (memo / registry): results independent of earlier calls", floor=1)
    no_module_state(ctx, 'R09.8')
    from .C14 import derived_fields as _df
    _df(ctx, 'R09.8')      # ... nor keeps derived state on a model that some mutator forgets (stale memo)
    ctx.rule('R09.1', "wrappers pass (spin flag, value function) of their own kind and forward all_solutions/valid", floor=8)
    ctx.rule('R09.2', "candidates are product(DOM(flag), repeat=N); N and label map from one source per branch", floor=5)
    ctx.rule('R09.3', "the validity filter dominates the value computation and the best-updates", floor=2)
    ctx.rule('R09.4', "comparator orientation (strict / non-strict), None guard, collection keyed by value "
                      "and read at the final best", floor=6)
    ctx.rule('R09.5', "offset pop => re-insert under the same key on all paths; no other mutation", floor=1)
    ctx.rule('R09.6', "empty and constant models are recognised from the dict content and return the documented "
                      "shapes before enumeration", floor=3)
    ctx.rule('R09.7', "problem-class solver glue", floor=4)
    sb = P.func('_solve_bruteforce._solve_bruteforce')
    prm = sb.params
    if len(prm) != 5:
        raise AnalysisError("_solve_bruteforce signature changed: %s" % prm)
    D, allp, validp, spinp, valuep = prm
    g = cfg_of(sb.node)

    # ---------------------------------------------------------------- R09.1
    # the helper may be handed the domain itself instead of the spin flag (product(domain, repeat=N))
    dom_mode = any(len(c.args) == 1 and is_name(expand_names(sb.node, c.args[0]), spinp)
                   for c in calls_in(sb.node) if src(c.func) in ('itertools.product', 'product'))
    for kind, (flag, vf) in WRAP.items():
        w = P.func('_solve_bruteforce.solve_%s_bruteforce' % kind)
        cs = calls_in(w.node, '_solve_bruteforce')
        ok = len(cs) == 1 and len(cs[0].args) == 5
        if ok:
            a = cs[0].args
            if dom_mode:
                lt_ = literal_tuple(expand_names(w.node, a[3])) or ()
                okdom = len(lt_) == 2 and set(lt_) == ({1, -1} if flag else {0, 1})
            else:
                okdom = is_const(a[3], flag)
            ok = is_name(a[0], w.params[0]) and okdom and is_name(a[4], vf)
            check_forwarding(ctx, 'R09.1', w, cs[0], sb, 'func')
            rets = [n for n in walk_no_nested(strip_docstring(w.node.body)) if isinstance(n, ast.Return)]
            ok = ok and any(r.value is cs[0] for r in rets)
        ctx.inst('R09.1', w, cs[0] if cs else 'def', ok,
                 "solve_%s_bruteforce -> (spin=%s, %s)" % (kind, flag, vf) if ok else
                 "solve_%s_bruteforce does not call _solve_bruteforce(model, all_solutions, valid, %s, %s)" % (kind, flag, vf))
        # the wrapper hands its argument on as given (a filtered / rebuilt copy has other variables)
        reb_ = [n for n in ast.walk(w.node) if isinstance(n, (ast.Assign, ast.AugAssign)) and any(
            is_name(t_, w.params[0]) for t_ in (n.targets if isinstance(n, ast.Assign) else [n.target]))]
        ctx.inst('R09.1', w, reb_[0] if reb_ else 'model argument of solve_%s_bruteforce' % kind, not reb_,
                 "the model argument is not rebound" if not reb_ else
                 "`%s` replaces the model by a derived one before solving: variables that occur only in dropped entries are no "
                 "longer part of the assignments" % src(reb_[0])[:60])
        # default validity predicate accepts everything
        dflt = w.node.args.defaults
        okd = bool(dflt) and isinstance(dflt[-1], ast.Lambda) and is_const(dflt[-1].body, True)
        ctx.inst('R09.1', w, 'default valid', okd, "default predicate accepts every assignment" if okd else
                 "default `valid` is not `lambda x: True`", nontrivial=False)

    # ---------------------------------------------------------------- R09.2
    prods = [c for c in calls_in(sb.node) if src(c.func) in ('itertools.product', 'product')]
    if not prods:
        raise AnalysisError("_solve_bruteforce: no itertools.product call found (anchor vanished)")
    from ..astutil import canon as _canon
    # the search loop iterates a product call, or a local every assignment of which is a product call
    loop = None
    for n in g.stmts():
        if isinstance(n, ast.For):
            it = n.iter
            if it in prods:
                loop = n
            elif isinstance(it, ast.Name):
                vals = [v for s_, v in assignments_to(sb.node, it.id)]
                if vals and all(v in prods for v in vals):
                    loop = n
    if loop is None:
        raise AnalysisError("_solve_bruteforce: product is not the iterator of a for loop")
    good = []
    for pc in prods:
        dom = _canon(expand_names(sb.node, pc.args[0])) if len(pc.args) == 1 else None
        okd = isinstance(dom, ast.IfExp) and src(dom.test) == spinp and \
            set(literal_tuple(dom.body) or ()) == {1, -1} and len(literal_tuple(dom.body) or ()) == 2 and \
            set(literal_tuple(dom.orelse) or ()) == {0, 1} and len(literal_tuple(dom.orelse) or ()) == 2
        if isinstance(dom, ast.IfExp) and src(dom.test) == 'not %s' % spinp:
            okd = set(literal_tuple(dom.orelse) or ()) == {1, -1} and set(literal_tuple(dom.body) or ()) == {0, 1}
        if dom_mode and is_name(dom, spinp):
            okd = True          # the wrappers hand the domain in (checked under R09.1)
        ctx.inst('R09.2', sb, dom if dom is not None else pc, okd,
                 "domain (1, -1) under the spin flag, (0, 1) otherwise" if okd else
                 "candidate space `%s` is not the full product of {1,-1} for spin / {0,1} for boolean selected by `%s` over "
                 "every position: assignments are left out of the search" % (src(pc)[:70], spinp))
        rep = [k for k in pc.keywords if k.arg == 'repeat']
        nname = src(rep[0].value) if rep else None
        okr = bool(rep) and isinstance(rep[0].value, ast.Name)
        ctx.inst('R09.2', sb, pc, okr, "repeat=%s" % nname if okr else "product is not taken to the power N (repeat=%s)" % nname)
        if okd and okr:
            good.append(pc)
    pc = good[0] if good else prods[0]
    rep = [k for k in pc.keywords if k.arg == 'repeat']
    nname = src(rep[0].value) if rep else None
    # sources of N and the label map
    body_assign = [n for n in loop.body if isinstance(n, ast.Assign)]
    mapname = None
    for n in body_assign:
        if isinstance(n.value, ast.DictComp):
            v = n.value
            gen = v.generators[0]
            if isinstance(gen.iter, ast.Call) and is_name(gen.iter.func, 'enumerate') and isinstance(v.key, ast.Subscript):
                mapname = src(v.key.value)
                oki = src(gen.iter.args[0]) == src(loop.target) and not gen.ifs
                ctx.inst('R09.2', sb, n, oki, "assignment built over every position of the candidate" if oki else
                         "the candidate assignment is not built from every position of the product element")
    if mapname is None and nname is not None:
        # x = dict(zip(labels, candidate)) with labels = [mapping[i] for i in range(N)] computed before the loop
        for n in body_assign:
            v = n.value
            if isinstance(v, ast.Call) and is_name(v.func, 'dict') and len(v.args) == 1 and isinstance(v.args[0], ast.Call) \
                    and is_name(v.args[0].func, 'zip') and len(v.args[0].args) == 2 and src(v.args[0].args[1]) == src(loop.target):
                lab = expand_names(sb.node, v.args[0].args[0])
                while isinstance(lab, ast.Call) and is_name(lab.func, 'list', 'tuple') and len(lab.args) == 1:
                    lab = lab.args[0]
                if isinstance(lab, (ast.ListComp, ast.GeneratorExp)) and len(lab.generators) == 1 and not lab.generators[0].ifs \
                        and isinstance(lab.elt, ast.Subscript) and src(lab.elt.slice) == src(lab.generators[0].target) \
                        and src(lab.generators[0].iter) == 'range(%s)' % nname:
                    mapname = src(lab.elt.value)
                    ctx.inst('R09.2', sb, n, True, "assignment built over every position of the candidate (labels taken once from the map)")
    if mapname is None or nname is None:
        raise AnalysisError("_solve_bruteforce: candidate construction x = {mapping[i]: v ...} not recognised")
    trys = [n for n in ast.walk(sb.node) if isinstance(n, ast.Try)]
    branches = []
    if trys:
        t = trys[0]
        branches.append(('model attributes', t.body))
        for h in t.handlers:
            branches.append(('key enumeration', h.body))
    else:
        branches.append(('single', strip_docstring(sb.node.body)))
    for label, body in branches:
        nsrc = msrc = None
        attr_reads = []
        for st in body:
            for n in ast.walk(st):
                if isinstance(n, ast.Assign) and any(is_name(t_, nname) for t_ in n.targets):
                    nsrc = n.value
                if isinstance(n, ast.Assign) and any(is_name(t_, mapname) for t_ in n.targets):
                    msrc = n.value
                if isinstance(n, ast.Attribute) and is_name(n.value, D) and isinstance(n.ctx, ast.Load):
                    attr_reads.append(n.attr)
        if nsrc is None or msrc is None:
            ctx.inst('R09.2', sb, 'branch: %s' % label, False, "branch does not define both %s and %s" % (nname, mapname))
            continue
        if label == 'key enumeration':
            # var built by iterating the keys of D only; no attribute of D (cache) is read
            okb = not [a for a in attr_reads if a not in ('keys', 'items')]
            # D may only be used as the iterable of the label-collecting loop
            uses = [n for st in body for n in ast.walk(st) if is_name(n, D)]
            iter_uses = [n for st in body for l in ast.walk(st) if isinstance(l, ast.For)
                         for n in ast.walk(l.iter) if is_name(n, D)]
            if len(uses) != len(iter_uses):
                okb = False
                attr_reads.append('other uses of %s' % D)
            var = None
            if isinstance(nsrc, ast.Call) and is_name(nsrc.func, 'len') and isinstance(nsrc.args[0], ast.Name):
                var = nsrc.args[0].id
            okb = okb and var is not None and var in names_in(msrc) and \
                isinstance(msrc, ast.Call) and is_name(msrc.func, 'dict') and 'enumerate(%s)' % var in src(msrc)
            # var filled from the keys
            fills = [n for st in body for n in ast.walk(st) if isinstance(n, ast.For) and is_name(n.iter, D)]
            okb = okb and bool(fills)
            ctx.inst('R09.2', sb, 'branch: %s' % label, okb,
                     "N = len(labels), map = enumerate(labels), labels read from the keys" if okb else
                     "fallback branch does not derive N and the label map from one enumeration of the labels in the "
                     "keys (attributes read: %s): the search space is not exactly the model's variables" % attr_reads)
        else:
            okb = src(nsrc) in ('%s.num_binary_variables' % D, '%s._num_binary_variables' % D) and \
                src(msrc) in ('%s._reverse_mapping' % D, '%s.reverse_mapping' % D)
            ctx.inst('R09.2', sb, 'branch: %s' % label, okb,
                     "N and the label map are both the model's own enumeration" if okb else
                     "N = %s and map = %s do not come from the model's own enumeration" % (src(nsrc), src(msrc)))

    from .C14 import registration_parity
    registration_parity(ctx, 'R09.2')      # the caches the model-attribute branch enumerates register variables of non-zero terms only

    # ---------------------------------------------------------------- R09.3
    vcalls = [enclosing_stmt(c) for c in calls_in(loop) if is_name(c.func, valuep)]
    cand = None
    for v in vcalls:
        if isinstance(v, ast.Assign) and isinstance(v.targets[0], ast.Name):
            cand = v.targets[0].id
    if cand is None:
        raise AnalysisError("_solve_bruteforce: candidate value variable (v = value(x, D)) not found")
    INC = Incumbent(loop, cand)
    if INC.form is None:
        ctx.inst('R09.4', sb, loop, False, "no incumbent is updated with (value, assignment) inside the enumeration loop")
        INC.form, INC.name, INC.value, INC.sol = 'pair', 'best', 'best[0]', 'best[1]'
    updates = [n for n in ast.walk(loop) if INC.is_update(n)]
    okf = bool(vcalls) and bool(updates)
    for n in vcalls + updates:
        facts = []
        for t, pol, o in g.edge_dominators(n):
            facts += compare_atoms(t, pol)
        if not any(f[0] == 'truthy' and f[1].startswith('%s(' % validp) for f in facts if len(f) == 2):
            okf = False
    ctx.inst('R09.3', sb, 'validity filter', okf,
             "the value computation and every best-update are dominated by valid(x) being true" if okf else
             "the validity filter does not dominate the value computation / best-updates: invalid assignments can "
             "become the reported optimum")
    okv = bool(vcalls) and all(any(is_name(c.func, valuep) and len(c.args) == 2 and is_name(c.args[1], D)
                                   for c in calls_in(v)) for v in vcalls)
    ctx.inst('R09.3', sb, vcalls[0] if vcalls else 'value(x, D)', okv, "objective is value(x, D) of the candidate" if okv else
             "objective is not computed as value(x, D)")

    # ---------------------------------------------------------------- R09.4
    n_up = best_update_rules(ctx, 'R09.4', sb, loop, allp, cand, INC)
    if n_up < 2:
        ctx.inst('R09.4', sb, 'best updates', False, "fewer than two best-updates (single / all-solutions) found")
    # collection keyed by the value, read at the final best value
    coll = [c for c in calls_in(loop, 'append') if isinstance(c.func.value, ast.Call) and call_name(c.func.value) == 'setdefault']
    okc = bool(coll) and all(src(c.func.value.args[0]) == cand for c in coll)
    ctx.inst('R09.4', sb, coll[0] if coll else 'all_sols.setdefault(v, []).append(x)', okc,
             "minimisers collected under their value" if okc else "minimisers are not collected under the key of their value")
    okfin = False
    def at_best(e):
        return isinstance(e, ast.Subscript) and src(e.slice) == INC.value
    gsb = cfg_of(sb.node)
    inloop = {id(x) for x in ast.walk(loop)}
    fin = []
    for s_ in gsb.stmts():
        if id(s_) in inloop or not isinstance(s_, (ast.Return, ast.Assign)):
            continue
        fs = []
        for t, pol, o in gsb.edge_dominators(s_):
            fs += compare_atoms(t, pol)
        if ('truthy', allp) not in fs:
            continue            # only what happens when all solutions were asked for
        fin.append(s_)
        if isinstance(s_, ast.Return) and isinstance(s_.value, ast.Tuple) and len(s_.value.elts) == 2 \
                and src(s_.value.elts[0]) == INC.value and at_best(s_.value.elts[1]):
            okfin = True
        if not isinstance(s_, ast.Assign):
            continue
        if INC.form == 'pair' and isinstance(s_.value, ast.Tuple) and len(s_.value.elts) == 2 and is_name(s_.targets[0], INC.name):
            e0, e1 = s_.value.elts
            if src(e0) == INC.value and isinstance(e1, ast.Subscript) and src(e1.slice) == INC.value:
                okfin = True
        if INC.form == 'split' and is_name(s_.targets[0], INC.sol) and isinstance(s_.value, ast.Subscript) \
                and src(s_.value.slice) == INC.value:
            okfin = True
    ctx.inst('R09.4', sb, fin[0] if fin else 'final selection', okfin,
             "all-solutions result is the collection stored under the final best value" if okfin else
             "the all-solutions result is not read at the final best value")
    # what is returned after the enumeration is the incumbent
    after = [n for n in g.stmts() if isinstance(n, ast.Return) and g.reaches(loop, n)]
    def under_all(r):
        return any(('truthy', allp) in compare_atoms(t, pol) for t, pol, o in g.edge_dominators(r))
    okret = bool(after) and all(
        (INC.form == 'pair' and is_name(r.value, INC.name)) or
        (isinstance(r.value, ast.Tuple) and len(r.value.elts) == 2 and src(r.value.elts[0]) == INC.value
         and (src(r.value.elts[1]) == INC.sol or (at_best(r.value.elts[1]) and under_all(r)))) for r in after)
    ctx.inst('R09.4', sb, after[0] if after else 'return', okret,
             "the incumbent (value, assignment) is returned" if okret else
             "what is returned after the enumeration is not the incumbent pair")
    # initial incumbent is None (no-valid-assignment => objective None)
    inits = []
    for s_ in g.stmts():
        if not isinstance(s_, ast.Assign) or any(x is s_ for x in ast.walk(loop)) or any(x is s_ for n in fin for x in ast.walk(n)):
            continue
        t = s_.targets[0]
        if INC.form == 'pair' and is_name(t, INC.name) and isinstance(s_.value, ast.Tuple) and s_.value.elts:
            inits.append(s_.value.elts[0])
        elif INC.form == 'split':
            if is_name(t, INC.value):
                inits.append(s_.value)
            elif isinstance(t, ast.Tuple) and isinstance(s_.value, ast.Tuple) and len(t.elts) == len(s_.value.elts):
                inits += [v for a, v in zip(t.elts, s_.value.elts) if is_name(a, INC.value)]
    oki = bool(inits) and all(is_const(v, None) for v in inits)
    ctx.inst('R09.4', sb, 'best = None, {}', oki, "no valid assignment => objective None" if oki else
             "the incumbent does not start as None: `no assignment is valid` is not reported as None")

    # ---------------------------------------------------------------- R09.5
    from .C19 import offset_pairing
    offset_pairing(ctx, 'R09.5')
    # the solve_bruteforce methods of the model classes leave their receiver alone (no refresh / clear / re-labelling first)
    for c_ in sorted(x.name for x in P.subclasses_of('DictArithmetic')):
        m_ = P.cls(c_).methods.get('solve_bruteforce')
        if m_ is None:
            continue
        sn_ = R.self_name(m_)
        MUT_ = {'refresh', 'clear', 'update', 'pop', 'popitem', 'setdefault', 'set_mapping', 'set_reverse_mapping', 'normalize', 'simplify',
                '__init__', '__setitem__', '__delitem__', '__iadd__', '__isub__', '__imul__'}
        mut_ = any(isinstance(c2, ast.Call) and isinstance(c2.func, ast.Attribute) and is_name(c2.func.value, sn_) and
                   (c2.func.attr in MUT_ or c2.func.attr.startswith('add_constraint')) for c2 in ast.walk(m_.node)) or \
            any(isinstance(t2, (ast.Subscript, ast.Attribute)) and is_name(t2.value, sn_) and isinstance(t2.ctx, (ast.Store, ast.Del))
                for t2 in ast.walk(m_.node)) or \
            any(isinstance(a2, ast.AugAssign) and is_name(a2.target, sn_) for a2 in ast.walk(m_.node))
        ctx.inst('R09.5', m_, 'receiver of %s.solve_bruteforce' % c_, not mut_,
                 "the model is not modified by solving it" if not mut_ else
                 "%s.solve_bruteforce modifies the model it solves (a mutator such as refresh() / clear() / set_mapping() is called on "
                 "it): mapping, caches or terms differ after the call" % c_)

    # ---------------------------------------------------------------- R09.6
    rets = [n for n in g.stmts() if isinstance(n, ast.Return) and not g.reaches(loop, n)]
    empty_ok = const_ok = False

    def emptiness_point(r):
        """The statement at which `not D` was evaluated on the way to r: the test itself, or the single assignment of
        a flag `f = not D` that the test reads."""
        for t, pol, o in g.edge_dominators(r):
            atoms = compare_atoms(t, pol)
            if ('falsy', D) in atoms:
                return o
            for a in atoms:
                if len(a) == 2 and a[0] == 'truthy' and a[1].isidentifier():
                    defs = [(s_, v_) for s_, v_ in assignments_to(sb.node, a[1]) if isinstance(v_, ast.AST)]
                    if len(defs) == 1 and ('falsy', D) in compare_atoms(defs[0][1], True) and g.dominates([defs[0][0]], r):
                        return defs[0][0]
        return None

    restores = [n for n in g.stmts() if isinstance(n, ast.Assign) and isinstance(n.targets[0], ast.Subscript)
                and is_name(n.targets[0].value, D)]
    for r in rets:
        v = r.value
        if not (isinstance(v, ast.Tuple) and len(v.elts) == 2):
            continue
        shape = src(v.elts[1]) in ('{} if not %s else [{}]' % allp, '[{}] if %s else {}' % allp)
        pt = emptiness_point(r)
        if pt is None or not shape:
            continue
        popped = [n for n in g.stmts() if isinstance(n, ast.Assign) and any(call_name(c) == 'pop' for c in calls_in(n))
                  and g.dominates([n], pt)]
        if popped:
            # the emptiness was looked at while the offset was out: no re-insert between the pop and that point
            out = pt in g.reachable(popped[0], avoid=set(restores)) or pt is popped[0]
            var = src(popped[0].targets[0])
            const_ok = const_ok or (src(v.elts[0]) == var and out)
        else:
            empty_ok = empty_ok or const_num(v.elts[0]) == 0
    ctx.inst('R09.6', sb, 'empty model', empty_ok,
             "`not D` returns (0, {} / [{}]) before enumeration" if empty_ok else
             "an empty model is not answered with (0, {}) / (0, [{}]) from a `not D` test before the enumeration")
    ctx.inst('R09.6', sb, 'constant model', const_ok,
             "a model that is empty once its offset is removed returns (offset, {} / [{}])" if const_ok else
             "a constant model is not recognised from the dict's content (offset popped, then `not D`) and answered "
             "with (offset, {} / [{}]): stale variable caches make constant models enumerate dead variables")
    okb = all(g.dominates([enclosing_stmt(r)], loop) or True for r in rets) and bool(rets)
    ctx.inst('R09.6', sb, 'degenerate returns precede enumeration', okb, "degenerate cases are decided before the loop", nontrivial=False)

    # ---------------------------------------------------------------- R09.7
    ps = P.func('Problem.solve_bruteforce')
    sn = R.self_name(ps)
    rets = [n for n in walk_no_nested(strip_docstring(ps.node.body)) if isinstance(n, ast.Return)]
    sols = [s_ for s_, v in assignments_to(ps.node, 'sol')]
    okp = bool(rets)
    def decoded(v):
        if '%s.convert_solution(' % sn in src(v):
            return True
        if isinstance(v, ast.Name):
            # a list filled element by element with decoded solutions
            apps = [c for c in calls_in(ps.node, 'append') if is_name(c.func.value, v.id)]
            inits = [x for s_, x in assignments_to(ps.node, v.id) if isinstance(x, ast.AST)]
            return bool(apps) and all(len(c.args) == 1 and '%s.convert_solution(' % sn in src(c.args[0]) for c in apps) \
                and all(isinstance(x, ast.List) and not x.elts for x in inits)
        return False
    for r in rets:
        okp = okp and decoded(r.value)
    qb = [c for c in calls_in(ps.node, 'solve_bruteforce')]
    okq = len(qb) == 1 and isinstance(qb[0].func.value, ast.Name) and any(
        isinstance(v, ast.Call) and call_name(v) == 'to_qubo' for s_, v in assignments_to(ps.node, qb[0].func.value.id) if isinstance(v, ast.AST))
    ctx.inst('R09.7', ps, rets[0] if rets else 'return', okp and okq,
             "decodes what the QUBO's solver returned" if okp and okq else
             "Problem.solve_bruteforce does not return convert_solution of the QUBO solver's result")
    sc = P.func('SetCover.solve_bruteforce')
    sn = R.self_name(sc)
    cs = calls_in(sc.node, 'solve_qubo_bruteforce')
    okv = False
    for c in cs:
        a = c.args
        if len(a) == 3:
            v = a[2]
            okv = src(v) == '%s.is_solution_valid' % sn or (isinstance(v, ast.Name) and any(
                isinstance(x, ast.AST) and src(x) == '%s.is_solution_valid' % sn for s_, x in assignments_to(sc.node, v.id)))
            okv = okv and is_name(a[1], sc.params[1])
    ctx.inst('R09.7', sc, cs[0] if cs else 'solve_qubo_bruteforce', okv,
             "SetCover passes its validity predicate and all_solutions" if okv else
             "SetCover.solve_bruteforce does not pass (all_solutions, self.is_solution_valid) to the QUBO solver")
    js = P.func('JobSequencing.solve_bruteforce')
    loops = [n for n in walk_no_nested(strip_docstring(js.node.body)) if isinstance(n, ast.For)]
    if loops:
        jcand = None
        for st in ast.walk(loops[0]):
            if isinstance(st, ast.Assign) and len(st.targets) == 1 and isinstance(st.targets[0], (ast.Name, ast.Tuple)) and \
                    isinstance(st.value, ast.Tuple) and len(st.value.elts) == 2 and isinstance(st.value.elts[0], ast.Name):
                jcand = st.value.elts[0].id
        jinc = Incumbent(loops[0], jcand or 'obj')
        if jinc.form is None:
            jinc.form, jinc.name, jinc.value, jinc.sol = 'pair', 'best', 'best[0]', 'best[1]'
        n_up = best_update_rules(ctx, 'R09.7', js, loops[0], js.params[1], jcand or 'obj', jinc)
        gj = cfg_of(js.node)
        ups = [n for n in ast.walk(loops[0]) if jinc.is_update(n)]
        okf = bool(ups)
        for u in ups:
            facts = []
            for t, pol, o in gj.edge_dominators(u):
                facts += compare_atoms(t, pol)
            okf = okf and any(f[0] == 'truthy' and 'is_solution_valid(' in f[1] for f in facts if len(f) == 2)
        ctx.inst('R09.7', js, 'validity filter', okf, "updates only for valid schedules" if okf else
                 "JobSequencing best-update is not guarded by is_solution_valid")
    else:
        ctx.inst('R09.7', js, 'def solve_bruteforce', False, "enumeration loop not found")
