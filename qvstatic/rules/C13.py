"""C13 - AnnealResults keeps ``best`` equal to the minimum under every list
operation.  Rules R13.1 - R13.6 (DESIGN 4.13)."""
import ast

from ..pymodel import AnalysisError, FuncInfo
from ..astutil import (positive_form, expand_preds, src, is_name, is_attr, is_const, call_name, norm_compare, orient,
                       walk_no_nested, strip_docstring, compare_atoms, enclosing_stmt,
                       parent, calls_in)
from ..cfg import cfg_of, ENTRY, EXIT, RAISE
from .. import nullness

EXPLANATION = (
    "Decides structurally, for every path of every list mutator of AnnealResults: the "
    "override table is exhaustive over list's membership-changing operations (R13.1); each "
    "override keeps `best` (guarded update with the added element, recompute after a removal, "
    "None on clear, element-wise delegation to a checked mutator) on all CFG paths (R13.2); "
    "every comparison is oriented candidate < incumbent on .value (R13.3); every dereference / "
    "ordering use of the optional `best` is dominated by a None test (R13.4); derived "
    "collections are constructed as AnnealResults (R13.5); AnnealResult.to_boolean/to_spin keep "
    "the value, set the literal flag and use the matching converter, __lt__/__le__ compare "
    "values (R13.6).")
NOT_DECIDED = "Python's own list semantics (trusted); nothing else structural."
TRUSTED = ["CPython list semantics (which dunder a statement dispatches to)",
           "ast module parse of the current source"]

CLS = 'AnnealResults'
# membership-changing operations of list -> kind of obligation
MUTATORS = {
    'append': 'add', 'insert': 'add', 'extend': 'bulk', '__iadd__': 'bulk',
    'remove': 'remove', 'pop': 'remove', 'clear': 'clear',
    '__setitem__': 'replace', '__delitem__': 'replace',
}
HARMLESS = {
    'sort': 'reorders only; membership and minimum unchanged',
    'reverse': 'reorders only; membership and minimum unchanged',
    '__imul__': "never dispatched for `*=`: AnnealResults defines __mul__ and list has no "
                "nb_inplace_multiply slot taking precedence over the subclass's __mul__; `*=` is "
                "not in the property's operation list",
}
DERIVED = ['copy', 'to_boolean', 'to_spin', 'filter', 'filter_states', 'apply_function',
           'convert_states', '__add__', '__mul__']


def _list_mutators():
    """Mutating operations of the builtin list of the running interpreter (a
    builtin, not qubovert): names whose docstring or known semantics mutate."""
    known = {'append', 'extend', 'insert', 'remove', 'pop', 'clear', 'sort', 'reverse',
             '__setitem__', '__delitem__', '__iadd__', '__imul__'}
    present = {n for n in known if hasattr(list, n)}
    # anything in dir(list) we have never classified and that is not read-only
    readonly = {'copy', 'count', 'index', '__add__', '__mul__', '__rmul__', '__contains__',
                '__getitem__', '__iter__', '__len__', '__reversed__', '__eq__', '__ne__',
                '__lt__', '__le__', '__gt__', '__ge__', '__repr__', '__str__', '__hash__',
                '__sizeof__', '__class_getitem__', '__init__', '__new__', '__doc__',
                '__getattribute__', '__setattr__', '__delattr__', '__dir__', '__format__',
                '__init_subclass__', '__reduce__', '__reduce_ex__', '__subclasshook__',
                '__class__', '__getstate__'}
    unknown = {n for n in dir(list) if n not in known and n not in readonly}
    return present, unknown


def _self(fn):
    return fn.node.args.args[0].arg


def _is_recompute(ctx, value, fn, selfn):
    """value is an expression that recomputes the minimum of the collection."""
    if isinstance(value, ast.Call):
        nm = call_name(value)
        if nm in recompute_funcs(ctx) and value.args and is_name(value.args[0], selfn):
            return True
        if is_name(value.func, 'min') and value.args and is_name(value.args[0], selfn):
            dflt = [k for k in value.keywords if k.arg == 'default']
            return bool(dflt) and is_const(dflt[0].value, None)
    return False


def recompute_funcs(ctx):
    """Names of module-level helpers in the results module that return the minimum-by-value element of their
    argument (None when empty): a scan loop with an incumbent starting at None, or min(..., default=None)."""
    cache = getattr(ctx, '_recompute_funcs', None)
    if cache is not None:
        return cache
    out = set()
    mod = ctx.prog.cls(CLS).module
    for f in ctx.prog.all_funcs():
        if f.module is not mod or f.cls is not None or f.outer is not None or len(f.params) != 1:
            continue
        body = strip_docstring(f.node.body)
        rets = [n for n in walk_no_nested(body) if isinstance(n, ast.Return)]
        loops = [n for n in walk_no_nested(body) if isinstance(n, ast.For) and is_name(n.iter, f.params[0])]
        if loops and rets and all(isinstance(r.value, ast.Name) for r in rets):
            inc = rets[-1].value.id
            init_none = any(isinstance(n, ast.Assign) and is_name(n.targets[0], inc) and is_const(n.value, None) for n in body)
            upd = any(isinstance(n, ast.Assign) and is_name(n.targets[0], inc) and src(n.value) == src(loops[0].target)
                      for n in ast.walk(loops[0]))
            if init_none and upd:
                out.add(f.name)
        for r in rets:
            v = r.value
            if isinstance(v, ast.Call) and is_name(v.func, 'min') and v.args and is_name(v.args[0], f.params[0]) and \
                    any(k.arg == 'default' and is_const(k.value, None) for k in v.keywords):
                out.add(f.name)
    # wrappers: `def f(xs): return g(xs)` with g a recompute function
    grew = True
    while grew:
        grew = False
        for f in ctx.prog.all_funcs():
            if f.module is not mod or f.cls is not None or f.outer is not None or len(f.params) != 1 or f.name in out:
                continue
            rets = [n for n in walk_no_nested(strip_docstring(f.node.body)) if isinstance(n, ast.Return)]
            from ..astutil import expand_names as _xn
            vals = [_xn(f.node, r.value) if r.value is not None else None for r in rets]
            if rets and all(isinstance(v, ast.Call) and call_name(v) in out and len(v.args) == 1 and is_name(v.args[0], f.params[0])
                            and not v.keywords for v in vals):
                out.add(f.name)
                f._is_wrapper = True        # the comparison is in the function it delegates to
                grew = True
    ctx._recompute_funcs = out
    return out


def _best_assigns(fn, selfn):
    out = []
    for n in walk_no_nested(strip_docstring(fn.node.body)):
        if isinstance(n, ast.Assign):
            for t in n.targets:
                if is_attr(t, selfn, 'best'):
                    out.append(n)
    return out


def _raw_ops(fn, name=None):
    """Calls super().<name>(...) in fn."""
    out = []
    for c in calls_in(fn.node):
        f = c.func
        if isinstance(f, ast.Attribute) and isinstance(f.value, ast.Call) and is_name(f.value.func, 'super'):
            if name is None or f.attr == name:
                out.append(c)
    return out


def _guarded_update_ok(ctx, fn, assign, cand_texts, selfn):
    """``self.best = CAND`` under ``if self.best is None or CAND(.value) <
    self.best(.value)`` (also <=, flipped spelling; other.best needs its own
    None guard, handled by R13.4).  Returns (ok, message, orientation_ok)."""
    g = cfg_of(fn.node)
    best = '%s.best' % selfn
    cand = src(assign.value)
    if cand not in cand_texts:
        return False, "assigns %s, not the added element (%s)" % (cand, '/'.join(sorted(cand_texts))), True
    doms = [(t, pol, owner) for t, pol, owner in g.edge_dominators(assign)]
    for t, pol, owner in doms:
        # look for a comparison between cand and best inside the (positive form of the) dominating test
        for c in ast.walk(positive_form(t, pol)):
            if isinstance(c, ast.Compare) and len(c.ops) == 1:
                l, r = src(c.left), src(c.comparators[0])
                pair = {l.replace('.value', ''), r.replace('.value', '')}
                if pair == {cand, best}:
                    o = orient(norm_compare(c), l if l.replace('.value', '') == cand else r)
                    # orient so candidate on the left
                    lhs = l if l.replace('.value', '') == cand else r
                    o = orient(norm_compare(c), lhs)
                    if o and o[0] in ('<', '<='):
                        return True, "guarded by %s" % src(t), True
                    return False, "comparison %s is not candidate < incumbent" % src(c), False
    return False, "no dominating comparison of %s with %s" % (cand, best), True


def rules(ctx):
    P = ctx.prog
    from .C14 import no_module_state
    ctx.rule('R13.8', "no function writes module-level state (memo / registry): results independent of earlier calls", floor=1)
    no_module_state(ctx, 'R13.8')
    ctx.rule('R13.9', "to_boolean / to_spin rest on boolean_to_spin / spin_to_boolean converting elements by value (table lookup)", floor=2)
    from .C04 import element_conversion
    element_conversion(ctx, 'R13.9')
    ctx.rule('R13.1', "every membership-changing list operation is overridden by AnnealResults "
                      "(sort/reverse/__imul__ classified harmless with reason)", floor=9)
    ctx.rule('R13.2', "each override maintains `best` on every CFG path", floor=9)
    ctx.rule('R13.3', "every best-update compares candidate < incumbent on .value", floor=2)
    ctx.rule('R13.4', "every dereference / ordering use of the optional `best` is dominated "
                      "by a None test", floor=2)
    ctx.rule('R13.5', "derived collections are constructed as AnnealResults", floor=10)
    ctx.rule('R13.7', "no raw list mutation and no store to `.best` outside the checked mutators "
                      "(unbound list.<op>(obj, ...), super().<op> outside the override of <op>, "
                      "`<other>.best = ...`)", floor=1)
    ctx.rule('R13.6', "AnnealResult conversions keep value/flag/converter pairing; __lt__/__le__ "
                      "compare .value", floor=6)
    ci = P.cls(CLS)
    if [c if isinstance(c, str) else c.name for c in ci.mro][1] != 'list':
        raise AnalysisError("AnnealResults no longer derives directly from list")
    where_cls = (ci.module.relpath, CLS)

    # ---------------------------------------------------------------- R13.1
    present, unknown = _list_mutators()
    for n in sorted(unknown):
        ctx.inst('R13.1', where_cls, 'list.%s' % n, False,
                 "builtin list has an operation %s this checker has never classified" % n)
    for op in sorted(present):
        if op in HARMLESS:
            ctx.inst('R13.1', where_cls, 'list.%s' % op, True, 'harmless: ' + HARMLESS[op],
                     nontrivial=False)
            continue
        m = ci.methods.get(op)
        ctx.inst('R13.1', where_cls, 'list.%s' % op, m is not None,
                 "overridden" if m else
                 "AnnealResults does not override list.%s: the operation changes membership "
                 "without maintaining `best`" % op)

    # ---------------------------------------------------------------- R13.2/3
    for op, kind in MUTATORS.items():
        fn = ci.methods.get(op)
        if fn is None:
            continue
        # the raw list operation of the same name receives the override's own arguments, in order
        for r_ in _raw_ops(fn, op):
            want = fn.params[1:]
            got = [src(a_) for a_ in r_.args]
            if fn.node.args.vararg or fn.node.args.kwarg or r_.keywords or any(isinstance(a_, ast.Starred) for a_ in r_.args):
                continue
            oka = got == want[:len(got)] and len(got) >= len([p_ for p_ in want]) - len(fn.node.args.defaults)
            ctx.inst('R13.2', fn, r_, oka,
                     "raw %s receives (%s)" % (op, ', '.join(got)) if oka else
                     "super().%s is called with (%s) instead of the override's arguments (%s): the element is stored at / removed "
                     "from another position, or the call fails" % (op, ', '.join(got), ', '.join(want)))
        selfn = _self(fn)
        g = cfg_of(fn.node)
        params = fn.params[1:]
        raws = _raw_ops(fn)
        bas = _best_assigns(fn, selfn)
        recomputes = [a for a in bas if _is_recompute(ctx, a.value, fn, selfn)]

        def every_path_passes(nodes, start=ENTRY):
            return g.must_pass_to_exit(start, set(nodes), exits=(EXIT,))

        if kind == 'add':
            cand = set(params)
            ok, msgs = False, []
            # (a) guarded update: the `if` owning the update lies on every path
            for a in bas:
                if a in recomputes:
                    continue
                gok, msg, orient_ok = _guarded_update_ok(ctx, fn, a, cand, selfn)
                ctx.inst('R13.3', fn, a, orient_ok, msg)
                if gok:
                    owners = [o for t, pol, o in g.edge_dominators(a)]      # the whole guard chain (if / elif) of the update
                    if any(every_path_passes([o]) for o in owners):
                        ok = True
                    else:
                        msgs.append("guarded update is bypassed on some path")
                else:
                    msgs.append(msg)
            # (b) recompute after the raw op on every path
            for a in recomputes:
                raw_st = [enclosing_stmt(r) for r in raws]
                if every_path_passes([a]) and all(g.reaches(r, a) for r in raw_st):
                    ok = True
            if not bas:
                msgs.append("no assignment to %s.best" % selfn)
            ctx.inst('R13.2', fn, 'def %s' % op, ok,
                     "best updated on every path" if ok else '; '.join(msgs) or 'no update on some path')
            # the element is really added on every normal path
            raw_same = [r for r in raws if r.func.attr == op]
            ctx.inst('R13.2', fn, 'super().%s' % op,
                     bool(raw_same) and every_path_passes([enclosing_stmt(r) for r in raw_same]),
                     "raw list operation executed on every path")
        elif kind == 'remove':
            ok, msg = False, ''
            raw_st = [enclosing_stmt(r) for r in raws if r.func.attr == op]
            if not raw_st:
                ctx.inst('R13.2', fn, 'def %s' % op, False, "raw super().%s not called" % op)
                continue
            # removed element: parameter (remove) or the value returned by super().pop
            removed = set(params) if op == 'remove' else set()
            for s in raw_st:
                if isinstance(s, ast.Assign):
                    removed |= {src(t) for t in s.targets}
            best = '%s.best' % selfn
            for a in recomputes:
                if not all(g.reaches(s, a) for s in raw_st):
                    continue
                if every_path_passes([a]):
                    ok, msg = True, "unconditional recompute after removal"
                    break
                # guarded: the only way to bypass the recompute is the false
                # edge of a test  removed == self.best / removed is self.best
                owners = [(t, pol, o) for t, pol, o in g.edge_dominators(a)]
                for t, pol, o in owners:
                    c3 = norm_compare(t)
                    if c3 and pol and c3[1] in ('==', 'is') and \
                            ({c3[0], c3[2]} & removed) and best in (c3[0], c3[2]) \
                            and every_path_passes([o]) and all(g.reaches(s, o) for s in raw_st):
                        ok, msg = True, "recompute when the removed element is the incumbent (%s)" % src(t)
                if ok:
                    break
            if not ok:
                msg = "no recompute of best after removal on some path"
            ctx.inst('R13.2', fn, 'def %s' % op, ok, msg)
        elif kind == 'clear':
            ok = False
            for a in bas:
                if (is_const(a.value, None) or a in recomputes) and every_path_passes([a]):
                    ok = True
            ctx.inst('R13.2', fn, 'def %s' % op, ok,
                     "best reset on every path" if ok else "clear does not reset best to None on every path")
            raw_same = [enclosing_stmt(r) for r in raws if r.func.attr == op]
            ctx.inst('R13.2', fn, 'super().%s' % op, bool(raw_same) and every_path_passes(raw_same),
                     "raw clear executed on every path")
        elif kind == 'replace':
            raw_st = [enclosing_stmt(r) for r in raws if r.func.attr == op]
            ok = bool(raw_st) and any(
                every_path_passes([a]) and all(g.reaches(s, a) for s in raw_st) for a in recomputes)
            ctx.inst('R13.2', fn, 'def %s' % op, ok,
                     "recompute after the raw operation on every path" if ok else
                     "best not recomputed after %s on every path" % op)
        elif kind == 'bulk':
            # every path to EXIT must pass one of: (i) raw bulk op preceded by a
            # guarded update with other.best, (ii) element-wise self.append /
            # self.extend / self.insert delegation, (iii) recompute after raw op
            other = params[0] if params else None
            good_nodes = set()
            detail = []
            for r in raws:
                s = enclosing_stmt(r)
                # guarded update dominating-or-preceding this raw op in same branch
                upd = []
                for a in bas:
                    if a in recomputes:
                        if g.reaches(s, a) and g.must_pass_to_exit(s, {a}):
                            good_nodes.add(s)
                            detail.append('recompute after raw op')
                        continue
                    gok, msg, orient_ok = _guarded_update_ok(ctx, fn, a, {'%s.best' % other}, selfn)
                    ctx.inst('R13.3', fn, a, orient_ok, msg)
                    if gok:
                        upd.append(a)
                # the if-statement owning the update must dominate the raw op
                for a in upd:
                    owners = [o for t, pol, o in g.edge_dominators(a)]      # the whole guard chain (if / elif) of the update
                    if any(g.dominates([o], s) and o is not s for o in owners):
                        # and the raw op must be performed with an AnnealResults
                        # operand (whose .best is maintained): isinstance guard
                        facts = [src(positive_form(t, pol)) for t, pol, o in g.edge_dominators(s)]
                        if any('isinstance(%s, AnnealResults)' % other in f for f in facts):
                            good_nodes.add(s)
                            detail.append('guarded update with %s.best before raw op' % other)
                        else:
                            detail.append('raw bulk op not under isinstance(%s, AnnealResults)' % other)
            for c in calls_in(fn.node):
                f = c.func
                if isinstance(f, ast.Attribute) and is_name(f.value, selfn) and \
                        f.attr in ('append', 'extend', 'insert', 'add_state') and f.attr != op:
                    st = enclosing_stmt(c)
                    # element-wise loop: the for statement is the path node
                    p = parent(st)
                    if f.attr == 'append' and isinstance(p, ast.For) and is_name(p.iter, other):
                        good_nodes.add(p)
                        detail.append('element-wise append')
                    elif f.attr == 'extend' and c.args and is_name(c.args[0], other):
                        good_nodes.add(st)
                        detail.append('delegates to extend')
            ok = bool(good_nodes) and every_path_passes(good_nodes)
            ctx.inst('R13.2', fn, 'def %s' % op, ok,
                     ('every path: ' + ', '.join(sorted(set(detail)))) if ok else
                     "some path adds elements without maintaining best (%s)" % ', '.join(sorted(set(detail))))

    # constructor: best initialised, elements added through a checked mutator
    init = ci.methods.get('__init__')
    if init is None:
        raise AnalysisError("AnnealResults.__init__ vanished")
    selfn = _self(init)
    g = cfg_of(init.node)
    bas = _best_assigns(init, selfn)
    none_init = [a for a in bas if is_const(a.value, None)]
    adders = [enclosing_stmt(c) for c in calls_in(init.node)
              if isinstance(c.func, ast.Attribute) and is_name(c.func.value, selfn)
              and c.func.attr in ('append', 'extend')]
    raw_init = [c for c in _raw_ops(init, '__init__')]
    ok = bool(none_init) and all(g.dominates(none_init, a) for a in adders) and bool(adders) \
        and all(not c.args and not c.keywords for c in raw_init)
    ctx.inst('R13.2', init, 'def __init__', ok,
             "best = None dominates element-wise append; raw list.__init__ receives no elements" if ok else
             "constructor may add elements without maintaining best")

    # _recompute_best orientation (R13.3)
    for rname in sorted(recompute_funcs(ctx)):
        rb = P.func('_anneal_results.%s' % rname)
        arg = rb.params[0]
        found = False
        for n in walk_no_nested(strip_docstring(rb.node.body)):
            if isinstance(n, ast.If):
                for c in ast.walk(n.test):
                    if isinstance(c, ast.Compare) and len(c.ops) == 1 and '.value' in src(c):
                        # the assigned name in the body is the incumbent
                        inc = [src(t) for s in n.body if isinstance(s, ast.Assign) for t in s.targets]
                        cand = [src(s.value) for s in n.body if isinstance(s, ast.Assign)]
                        if inc and cand:
                            o = orient(norm_compare(c), cand[0] + '.value')
                            okk = bool(o) and o[0] in ('<', '<=') and o[1] == inc[0] + '.value'
                            ctx.inst('R13.3', rb, c, okk,
                                     "candidate < incumbent" if okk else
                                     "recompute keeps the larger element: %s" % src(c))
                            found = True
            if isinstance(n, ast.Return) and isinstance(n.value, ast.Call) and is_name(n.value.func, 'min'):
                found = True
                ctx.inst('R13.3', rb, n, True, "min()")
            if isinstance(n, ast.Return) and isinstance(n.value, ast.Call) and is_name(n.value.func, 'max'):
                found = True
                ctx.inst('R13.3', rb, n, False, "recompute returns the maximum")
        # the scan is complete and independent of the cached best: no early exit, no read of `.best`
        jumps = [n for n in ast.walk(rb.node) if isinstance(n, (ast.Break, ast.Continue))] + \
                [n for lp_ in ast.walk(rb.node) if isinstance(lp_, ast.For) for n in ast.walk(lp_) if isinstance(n, ast.Return)]
        stale = [n for n in ast.walk(rb.node) if isinstance(n, ast.Attribute) and n.attr == 'best']
        okscan = not jumps and not stale
        ctx.inst('R13.3', rb, 'complete scan in %s' % rname, okscan,
                 "every element is compared; the cached best is not consulted" if okscan else
                 "the recomputation %s: callers recompute exactly because the cached best may be stale, and an element "
                 "added by item assignment can be smaller than it" % ("reads the cached `.best`" if stale else
                                                                      "leaves its scan early (break / continue / return)"))
        if not found and not getattr(rb, '_is_wrapper', False):
            raise AnalysisError("_recompute_best: no recognisable comparison")
        # None on empty: initial value None returned if loop does not run
        rets = [n for n in walk_no_nested(rb.node.body) if isinstance(n, ast.Return)]
        ctx.inst('R13.3', rb, rets[-1] if rets else 'return', bool(rets), "returns the incumbent", nontrivial=False)

    # ---------------------------------------------------------------- R13.4
    for name, fn in sorted(ci.methods.items()):
        selfn = _self(fn) if fn.node.args.args else 'self'
        opts = {'%s.best' % selfn}
        for p in fn.params[1:]:
            opts.add('%s.best' % p)
        for x in sorted(opts):
            for use, what in nullness.optional_uses(fn.node, x):
                ok = nullness.is_guarded(fn.node, use, x)
                ctx.inst('R13.4', fn, enclosing_stmt(use), ok,
                         ("%s of %s guarded by a None test" % (what, x)) if ok else
                         "%s of optional %s is not dominated by a None test (raises on an empty "
                         "collection)" % (what, x))

    # ---------------------------------------------------------------- R13.5
    for name in DERIVED:
        fn = ci.methods.get(name)
        if fn is None:
            ctx.inst('R13.5', where_cls, 'def %s' % name, False, "method vanished")
            continue
        rets = [n for n in walk_no_nested(strip_docstring(fn.node.body)) if isinstance(n, ast.Return)]
        for r in rets:
            ts = ctx.res.infer(r.value, fn, CLS) if r.value is not None else set()
            ok = ts == {CLS}
            msg = "returns a freshly constructed AnnealResults"
            # the returned object must come straight from the constructor (which
            # computes best element-wise) or from another derived-collection
            # method - not from a local that was filled by other means
            v = r.value
            direct = isinstance(v, ast.Call) and (
                is_name(v.func, CLS) or
                (isinstance(v.func, ast.Attribute) and is_name(v.func.value, _self(fn))
                 and v.func.attr in DERIVED))
            if ok and not direct:
                ok, msg = False, ("returned collection is not the direct result of the AnnealResults "
                                  "constructor or of another derived-collection method")
            elif not ok:
                msg = "return value is not constructed as AnnealResults (inferred %s)" % sorted(ts)
            ctx.inst('R13.5', fn, r, ok, msg)
        if name in ('to_boolean', 'to_spin'):
            # every path converts every element with the same-named element method
            for r in rets:
                v = r.value
                good = False
                if isinstance(v, ast.Call) and is_name(v.func, CLS) and len(v.args) == 1:
                    a = v.args[0]
                    if isinstance(a, (ast.GeneratorExp, ast.ListComp)) and len(a.generators) == 1 \
                            and not a.generators[0].ifs and is_name(a.generators[0].iter, _self(fn)) \
                            and isinstance(a.elt, ast.Call) and isinstance(a.elt.func, ast.Attribute) \
                            and a.elt.func.attr == name and src(a.elt.func.value) == src(a.generators[0].target):
                        good = True
                elif isinstance(v, ast.Call) and isinstance(v.func, ast.Attribute) \
                        and v.func.attr == 'apply_function' and v.args and isinstance(v.args[0], ast.Lambda) \
                        and isinstance(v.args[0].body, ast.Call) and call_name(v.args[0].body) == name:
                    good = True
                ctx.inst('R13.6', fn, r, good,
                         "every element converted with %s on this path" % name if good else
                         "%s returns a collection whose elements are not all converted with "
                         "AnnealResult.%s" % (name, name))
    gi = ci.methods.get('__getitem__')
    if gi is not None:
        g = cfg_of(gi.node)
        ok = False
        idx = gi.params[1] if len(gi.params) > 1 else 'index'
        for n in g.stmts():
            if isinstance(n, ast.If) and src(n.test) == 'isinstance(%s, slice)' % idx:
                for s in ast.walk(n):
                    if isinstance(s, ast.Call) and is_name(s.func, CLS) and any(
                            x is s for b in n.body for x in ast.walk(b)):
                        ok = True
        ctx.inst('R13.5', gi, 'slice branch', ok,
                 "slice result wrapped in AnnealResults" if ok else
                 "slicing returns a plain list (no AnnealResults construction under isinstance(index, slice))")

    # ---------------------------------------------------------------- R13.7
    mod = ci.module
    n_sites = 0
    for fn in P.all_funcs():
        if fn.module is not mod:
            continue
        selfn = _self(fn) if (fn.cls is ci and fn.node.args.args) else None
        for n in walk_no_nested(strip_docstring(fn.node.body)):
            if isinstance(n, ast.Call) and isinstance(n.func, ast.Attribute):
                f = n.func
                # unbound raw list op
                if is_name(f.value, 'list') and f.attr in (set(MUTATORS) | {'__init__', '__imul__'}):
                    n_sites += 1
                    ctx.inst('R13.7', fn, n, False,
                             "raw list.%s bypasses the best-maintaining override" % f.attr)
                if isinstance(f.value, ast.Call) and is_name(f.value.func, 'super') and fn.cls is ci \
                        and f.attr in MUTATORS:
                    n_sites += 1
                    ok = f.attr == fn.name
                    ctx.inst('R13.7', fn, n, ok,
                             "raw super().%s inside its own override" % f.attr if ok else
                             "raw super().%s used inside %s bypasses the override that maintains best"
                             % (f.attr, fn.name))
            if isinstance(n, (ast.Assign, ast.AugAssign)):
                tg = n.targets if isinstance(n, ast.Assign) else [n.target]
                for t in tg:
                    for e in ([t] if not isinstance(t, (ast.Tuple, ast.List)) else t.elts):
                        if isinstance(e, ast.Attribute) and e.attr == 'best':
                            n_sites += 1
                            ok = selfn is not None and is_name(e.value, selfn) and (
                                fn.name in MUTATORS or fn.name == '__init__')
                            ctx.inst('R13.7', fn, n, ok,
                                     "best stored by a checked mutator on self" if ok else
                                     "`%s` is stored outside the checked mutators of self; the cached "
                                     "minimum of that object is no longer derived from its elements"
                                     % src(e))

    # ---------------------------------------------------------------- R13.6
    ar = P.cls('AnnealResult')
    table = {'to_boolean': ('spin_to_boolean', False, 'not'), 'to_spin': ('boolean_to_spin', True, 'pos')}
    for name, (conv, flag, pol) in table.items():
        fn = ar.methods.get(name)
        if fn is None:
            ctx.inst('R13.6', (ar.module.relpath, 'AnnealResult'), 'def %s' % name, False, "method vanished")
            continue
        selfn = _self(fn)
        conv_calls = [c for c in calls_in(fn.node, 'AnnealResult')]
        okc = False
        for c in conv_calls:
            if len(c.args) == 3:
                a0, a1, a2 = c.args
                okc = (isinstance(a0, ast.Call) and call_name(a0) == conv and src(a0.args[0]) == selfn + '.state'
                       and src(a1) == selfn + '.value' and is_const(a2, flag))
                ctx.inst('R13.6', fn, c, okc,
                         "converter %s, value kept, flag %s" % (conv, flag) if okc else
                         "conversion does not use %s(self.state), self.value, %s" % (conv, flag))
                # guard polarity: conversion only when self.spin is the opposite
                st = enclosing_stmt(c)
                g = cfg_of(fn.node)
                facts = []
                for t, p_, o in g.edge_dominators(st):
                    facts += compare_atoms(t, p_)
                need = ('truthy', selfn + '.spin') if name == 'to_boolean' else ('falsy', selfn + '.spin')
                ctx.inst('R13.6', fn, 'guard of ' + src(c)[:40], need in facts,
                         "conversion guarded by %s %s" % need if need in facts else
                         "conversion not guarded by the matching polarity of self.spin")
        if not conv_calls:
            ctx.inst('R13.6', fn, 'def %s' % name, False, "no AnnealResult construction found")
    for name, sym in (('__lt__', '<'), ('__le__', '<=')):
        fn = ar.methods.get(name)
        if fn is None:
            ctx.inst('R13.6', (ar.module.relpath, 'AnnealResult'), 'def %s' % name, False,
                     "comparison method vanished (sort would not order by value)")
            continue
        selfn, oth = fn.params[0], fn.params[1]
        rets = [n for n in walk_no_nested(strip_docstring(fn.node.body)) if isinstance(n, ast.Return)]
        ok = len(rets) == 1 and norm_compare(rets[0].value) is not None and \
            orient(norm_compare(rets[0].value), selfn + '.value') == (sym, oth + '.value')
        ctx.inst('R13.6', fn, rets[0] if rets else 'return', ok,
                 "compares .value with %s" % sym if ok else "does not compare self.value %s other.value" % sym)
