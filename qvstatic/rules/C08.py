"""C08 - end-to-end workflow (glue only).  Rules R08.1 - R08.4 (DESIGN 4.8)."""
import ast

from ..pymodel import AnalysisError, FuncInfo
from ..astutil import (src, is_name, is_const, const_num, call_name, walk_no_nested, strip_docstring,
                       calls_in, assignments_to)

EXPLANATION = (
    "C08 is the composition of the penalties (C02/C03/C06), the degree reduction (C01), the solver (C09) and the "
    "decoding; this check therefore evaluates the structural rule sets of those five properties as necessary "
    "conditions of C08 (a broken component clause breaks the end-to-end guarantee) and, in addition, decides the "
    "glue between the pieces whose own structural clauses are decided under C01, "
    "C02, C03, C06 and C09: solve_bruteforce of PCBO/PCSO resolves (MRO) to the matrix "
    "implementation that passes self.is_solution_valid, which resolves to the constraint-aware "
    "predicate rather than the always-true default; the ancilla filter of "
    "remove_ancilla_from_solution agrees with the name format of _next_ancilla (prefix literal and "
    "slice length) and PCSO delegates; convert_solution of both classes resolves to the decode-range "
    "implementations; the reduced forms of PCBO/PCSO resolve to the reduction of C01.")
NOT_DECIDED = ("preservation of the constrained optimum through penalisation, reduction and conversion - the "
               "composition of C01/C02/C03/C06/C09's behavioural remainders; the numeric weight threshold.")
TRUSTED = ["the behavioural remainders of C01, C02, C03, C06, C09 (not decided)"]


def rules(ctx):
    P, R = ctx.prog, ctx.res
    ctx.rule('R08.1', "solve_bruteforce of PCBO/PCSO passes the constraint-aware validity predicate", floor=4)
    ctx.rule('R08.2', "ancilla filter agrees with the ancilla name format; PCSO delegates", floor=3)
    ctx.rule('R08.3', "convert_solution resolves to the decode-range implementations", floor=2)
    ctx.rule('R08.4', "reduced forms of PCBO/PCSO resolve to the degree reduction", floor=4)
    for c, kind, solver in (('PCBO', 'PUBOMatrix', 'solve_pubo_bruteforce'), ('PCSO', 'PUSOMatrix', 'solve_puso_bruteforce')):
        sb = P.lookup_method(c, 'solve_bruteforce')
        ok = isinstance(sb, FuncInfo) and sb.cls.name == kind
        passes = False
        if isinstance(sb, FuncInfo):
            sn = R.self_name(sb)
            for call in calls_in(sb.node, solver):
                passes = len(call.args) == 3 and src(call.args[2]) == '%s.is_solution_valid' % sn
        ctx.inst('R08.1', (P.cls(c).module.relpath, c), '%s.solve_bruteforce' % c, ok and passes,
                 "resolves to %s.solve_bruteforce, which passes self.is_solution_valid to %s" % (kind, solver) if ok and passes else
                 "%s.solve_bruteforce resolves to %s and %s self.is_solution_valid: infeasible assignments can be returned"
                 % (c, getattr(sb, 'qual', sb), 'passes' if passes else 'does not pass'))
        isv = P.lookup_method(c, 'is_solution_valid')
        aware = isinstance(isv, FuncInfo) and isv.cls.name in ('PCBO', 'PCSO')
        if aware and isv.cls.name == 'PCSO':
            aware = any(src(x.func) == 'PCBO.is_solution_valid' for x in calls_in(isv.node))
        ctx.inst('R08.1', (P.cls(c).module.relpath, c), '%s.is_solution_valid' % c, aware,
                 "constraint-aware predicate (%s)" % isv.qual if aware else
                 "%s.is_solution_valid resolves to %s, not to the predicate that evaluates the recorded constraints"
                 % (c, getattr(isv, 'qual', isv)))
    # ---------------------------------------------------------------- R08.2
    na = P.func('PCBO._next_ancilla')
    prefix = None
    for n in ast.walk(na.node):
        if isinstance(n, ast.Constant) and isinstance(n.value, str) and n is not getattr(na.node.body[0], 'value', None):
            prefix = n.value.split('%')[0].split('{')[0]
    rm = P.func('PCBO.remove_ancilla_from_solution')
    ok, why = False, "filter not recognised"
    for n in ast.walk(rm.node):
        if isinstance(n, ast.Compare) and len(n.ops) == 1 and (isinstance(n.comparators[0], ast.Constant) or
                                                                isinstance(n.left, ast.Constant)):
            # == / != are symmetric: take the literal from whichever side it is on
            if isinstance(n.comparators[0], ast.Constant):
                lit, left = n.comparators[0].value, n.left
            else:
                lit, left = n.left.value, n.comparators[0]
            if isinstance(left, ast.Subscript) and isinstance(left.slice, ast.Slice) and left.slice.lower is None:
                ln = const_num(left.slice.upper)
                keep = isinstance(n.ops[0], ast.NotEq)
                ok = lit == prefix and ln == len(prefix or '') and keep and src(left.value).startswith('str(')
                why = "keeps the keys whose str does not start with %r (first %s characters)" % (lit, ln)
                if not ok:
                    why = "filter compares the first %s characters with %r (%s) but ancillas are named %r + number: " \
                          "ancillas leak into / variables vanish from the returned solution" % (ln, lit, 'keeps unequal' if keep else 'keeps equal', prefix)
            elif isinstance(left, ast.Call) and call_name(left) == 'startswith':
                pass
        if isinstance(n, ast.Call) and call_name(n) == 'startswith' and n.args and isinstance(n.args[0], ast.Constant):
            lit = n.args[0].value
            neg = isinstance(getattr(n, '_parent', None), ast.UnaryOp)
            ok = lit == prefix and neg
            why = "keeps the keys that do not start with %r" % lit if ok else "startswith(%r) filter does not match prefix %r / polarity" % (lit, prefix)
    ctx.inst('R08.2', rm, 'ancilla filter', ok, why)
    rets = [n for n in walk_no_nested(strip_docstring(rm.node.body)) if isinstance(n, ast.Return)]
    okr = len(rets) == 1 and isinstance(rets[0].value, ast.DictComp) and src(rets[0].value.generators[0].iter) == '%s.items()' % rm.params[1] \
        and src(rets[0].value.key) == src(rets[0].value.generators[0].target.elts[0]) \
        and src(rets[0].value.value) == src(rets[0].value.generators[0].target.elts[1])
    ctx.inst('R08.2', rm, rets[0] if rets else 'return', okr, "returns the filtered items unchanged" if okr else
             "remove_ancilla_from_solution does not return exactly the filtered items of the solution")
    rs = P.cls('PCSO').methods.get('remove_ancilla_from_solution')
    okd = rs is not None and any(src(c.func) == 'PCBO.remove_ancilla_from_solution' and c.args and is_name(c.args[0], rs.params[1])
                                 for c in calls_in(rs.node))
    ctx.inst('R08.2', rs or ('qubovert/_pcso.py', 'PCSO'), 'PCSO.remove_ancilla_from_solution', okd,
             "delegates to PCBO" if okd else "PCSO.remove_ancilla_from_solution does not delegate to PCBO's filter")
    # ---------------------------------------------------------------- R08.3
    for c, tgt in (('PCBO', 'PUBO'), ('PCSO', 'PUSO')):
        m = P.lookup_method(c, 'convert_solution')
        ok = isinstance(m, FuncInfo) and m.cls.name == tgt
        ctx.inst('R08.3', (P.cls(c).module.relpath, c), '%s.convert_solution' % c, ok,
                 "resolves to %s.convert_solution (decode range checked as R01.8)" % tgt if ok else
                 "%s.convert_solution resolves to %s" % (c, getattr(m, 'qual', m)))
    # ---------------------------------------------------------------- R08.4
    for c, base in (('PCBO', 'PUBO'), ('PCSO', 'PUSO')):
        for m in ('to_qubo', 'to_pubo'):
            t = P.lookup_method(c, m)
            ok = isinstance(t, FuncInfo) and t.cls.name == base
            ctx.inst('R08.4', (P.cls(c).module.relpath, c), '%s.%s' % (c, m), ok,
                     "resolves to %s.%s" % (base, m) if ok else "%s.%s resolves to %s" % (c, m, getattr(t, 'qual', t)))

    # ---------------------------------------------------------------- components
    # The end-to-end guarantee composes the guarantees of C01, C02, C03, C06 and C09; their structural
    # clauses are necessary conditions of C08 and are evaluated here as well (same rule functions).
    from . import C01, C02, C03, C06, C09
    for mod in (C01, C02, C03, C06, C09):
        mod.rules(ctx)
    ctx.rule('R08.5', "copies and arithmetic results keep the bookkeeping: copy() goes through the model's own class", floor=1)
    from .C19 import copy_through_class
    copy_through_class(ctx, 'R08.5')
