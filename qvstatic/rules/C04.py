"""C04 - boolean/spin conversions, enumerations, exports.  Rules R04.1 - R04.8."""
import ast

from ..pymodel import AnalysisError, FuncInfo, parent
from ..astutil import (expand_names, canon, src, is_name, is_const, const_num, call_name, walk_no_nested, strip_docstring,
                       compare_atoms, enclosing_stmt, calls_in, names_in, assignments_to, literal_tuple)
from ..cfg import cfg_of, ENTRY, EXIT

EXPLANATION = (
    "Decides the tables and wiring of the conversions: each A_to_B returns BMatrix exactly when "
    "type(arg) is AMatrix (identity test on the type, not isinstance) and the labelled B otherwise; "
    "the literal 0<->1 / 1<->-1 maps are mutual inverses equal to the documented correspondence and "
    "is_solution_spin answers False on 0 and True on -1; the Conversions defaults chain the matching "
    "pair and no concrete class can recurse through defaults only; convert_solution converts under "
    "the matching polarity with the matching converter and default flag; every store into a result "
    "model inside a loop over source terms accumulates; enumerated forms relabel every label through "
    "self._mapping; to_enumerated's computed method name exists for each labelled class and is the "
    "same-kind unconstrained form; the export properties Q/h/J select terms by key length.")
NOT_DECIDED = "the coefficient algebra of the expansions (x = (1 - z)/2 etc.), matrix export numerics."
TRUSTED = ["DictArithmetic write path (C05)"]

PAIRS = {'pubo_to_puso': ('PUBO', 'PUSO'), 'puso_to_pubo': ('PUSO', 'PUBO'),
         'qubo_to_quso': ('QUBO', 'QUSO'), 'quso_to_qubo': ('QUSO', 'QUBO')}


def conversion_defaults(ctx, rid):
    """The default to_* of the Conversions mix-in are f(self.to_other(*args, **kwargs)) of the matching pair and hand every
    positional and keyword option (deg, lam, pairs) on."""
    P, R = ctx.prog, ctx.res
    conv = P.cls('Conversions')
    dflt = {'to_qubo': ('quso_to_qubo', 'to_quso'), 'to_quso': ('qubo_to_quso', 'to_qubo'),
            'to_pubo': ('puso_to_pubo', 'to_puso'), 'to_puso': ('pubo_to_puso', 'to_pubo')}
    for m, (f, inner) in dflt.items():
        fn = conv.methods.get(m)
        ok = fwd = False
        if fn is not None:
            sn = R.self_name(fn)
            rets = [n for n in walk_no_nested(strip_docstring(fn.node.body)) if isinstance(n, ast.Return)]
            ok = len(rets) == 1 and isinstance(rets[0].value, ast.Call) and is_name(rets[0].value.func, f) and \
                len(rets[0].value.args) == 1 and isinstance(rets[0].value.args[0], ast.Call) and \
                src(rets[0].value.args[0].func) == '%s.%s' % (sn, inner)
            if ok:
                ic = rets[0].value.args[0]
                va = fn.node.args.vararg.arg if fn.node.args.vararg else None
                kw = fn.node.args.kwarg.arg if fn.node.args.kwarg else None
                got_va = any(isinstance(a_, ast.Starred) and is_name(a_.value, va) for a_ in ic.args) if va else True
                got_kw = any(k.arg is None and is_name(k.value, kw) for k in ic.keywords) if kw else True
                named = [x.arg for x in fn.node.args.args[1:] + fn.node.args.kwonlyargs]
                got_named = all(any((k.arg == nm and is_name(k.value, nm)) for k in ic.keywords) or
                                any(is_name(a_, nm) for a_ in ic.args) for nm in named)
                fwd = got_va and got_kw and got_named
        ctx.inst(rid, fn or (conv.module.relpath, 'Conversions'), 'default %s' % m, ok,
                 "%s = %s(self.%s(...))" % (m, f, inner) if ok else
                 "Conversions.%s is not %s(self.%s(*args, **kwargs))" % (m, f, inner))
        if ok:
            ctx.inst(rid, fn, 'options of default %s' % m, fwd,
                     "every positional and keyword option is handed on" if fwd else
                     "Conversions.%s does not hand all of its options on to self.%s: options given by keyword (deg=, lam=, "
                     "pairs=) are silently ignored and the model is converted with the defaults" % (m, inner))


def result_type_dispatch(ctx, rid):
    """R04.1: the conversion functions give the Matrix kind only for the exact Matrix type of the argument."""
    P = ctx.prog
    for name, (A, B) in PAIRS.items():
        fn = P.func('_conversions.%s' % name)
        arg = fn.params[0]
        rets = [n for n in walk_no_nested(strip_docstring(fn.node.body)) if isinstance(n, ast.Return)]
        ok, why = False, "result construction not recognised"
        for r in rets:
            defs = [v for s_, v in assignments_to(fn.node, src(r.value)) if isinstance(v, ast.AST)] if isinstance(r.value, ast.Name) else [r.value]
            for v in defs:
                v = canon(v) if isinstance(v, ast.IfExp) else v
                if isinstance(v, ast.IfExp):
                    t = expand_names(fn.node, v.test)       # `kind = type(Q)` named first
                    okt = False
                    if isinstance(t, ast.Compare) and len(t.ops) == 1 and isinstance(t.ops[0], (ast.Eq, ast.Is)):
                        sides = [src(t.left), src(t.comparators[0])]
                        okt = 'type(%s)' % arg in sides and any(x.split('.')[-1] == A + 'Matrix' for x in sides)
                    okb = isinstance(v.body, ast.Call) and src(v.body.func).split('.')[-1] == B + 'Matrix' and not v.body.args
                    oko = isinstance(v.orelse, ast.Call) and src(v.orelse.func).split('.')[-1] == B and not v.orelse.args
                    ok = okt and okb and oko
                    if not okt:
                        why = "dispatch test `%s` is not `type(%s) == %sMatrix` (an isinstance test also matches the " \
                              "labelled subclasses, which then lose their labels)" % (src(t), arg, A)
                    elif not okb:
                        why = "matrix input does not give %sMatrix()" % B
                    elif not oko:
                        why = "non-matrix input does not give the labelled %s()" % B
        ctx.inst(rid, fn, 'result type of %s' % name, ok,
                 "%sMatrix in -> %sMatrix out, anything else -> %s" % (A, B, B) if ok else why)



def canonical_key_use(ctx, rid):
    """In a term loop that canonicalises its key first (`k = squash_key(kp)`), the raw key is read by that call only:
    a raw key can carry repeated or unsorted labels, so storing or unpacking it addresses a different term."""
    P = ctx.prog
    n = 0
    for f in P.all_funcs():
        if not f.module.name.endswith('._conversions') or f.outer is not None:
            continue
        for lp in [x for x in ast.walk(f.node) if isinstance(x, ast.For) and isinstance(x.target, ast.Tuple) and x.target.elts
                   and isinstance(x.target.elts[0], ast.Name)]:
            raw = x_raw = lp.target.elts[0].id
            def _squashes(v_):
                # squash_key(raw), or `raw if <already canonical> else squash_key(raw)` (either way round)
                if isinstance(v_, ast.Call) and call_name(v_) == 'squash_key' and len(v_.args) == 1 and is_name(v_.args[0], raw):
                    return True
                if isinstance(v_, ast.IfExp):
                    arms = [v_.body, v_.orelse]
                    return any(_squashes(a_) for a_ in arms) and all(_squashes(a_) or is_name(a_, raw) for a_ in arms)
                return False
            canon = [st for st in lp.body if isinstance(st, ast.Assign) and _squashes(st.value)
                     and len(st.targets) == 1 and isinstance(st.targets[0], ast.Name) and st.targets[0].id != raw]
            if not canon:
                continue
            n += 1
            inside = {id(x) for x in ast.walk(canon[0])}
            stale = [x for st in lp.body for x in ast.walk(st) if isinstance(x, ast.Name) and x.id == raw
                     and isinstance(x.ctx, ast.Load) and id(x) not in inside]
            ctx.inst(rid, f, stale[0] if stale else canon[0], not stale,
                     "after `%s` only the canonical key is used" % src(canon[0]) if not stale else
                     "the raw key `%s` is used at line %s after it was canonicalised into `%s`: for a key with repeated / unsorted "
                     "labels the term is stored under (or unpacked from) the wrong key"
                     % (raw, getattr(stale[0], 'lineno', '?'), src(canon[0].targets[0])))
    if not n:
        raise AnalysisError("canonical_key_use: no conversion loop with a canonicalised key found")


def element_conversion(ctx, rid):
    """boolean_to_spin / spin_to_boolean convert the elements of a container by looking them up in the literal table (by
    value: 1, 1.0, numpy.int64(1) and True all find their entry); an element is not sent through a type dispatch again."""
    P = ctx.prog
    for name in ('boolean_to_spin', 'spin_to_boolean'):
        fn = P.func('_conversions.%s' % name)
        tab = None
        for n in walk_no_nested(strip_docstring(fn.node.body)):
            if isinstance(n, ast.Assign) and isinstance(n.value, ast.Dict) and isinstance(n.targets[0], ast.Name):
                tab = n.targets[0].id
        comps = [n for n in ast.walk(fn.node) if isinstance(n, (ast.DictComp, ast.ListComp, ast.GeneratorExp, ast.SetComp))]
        seen = 0
        for c in comps:
            elt = c.value if isinstance(c, ast.DictComp) else c.elt
            tv = {x.id for g_ in c.generators for x in ast.walk(g_.target) if isinstance(x, ast.Name)}
            if not (names_in(elt) & tv):
                continue
            seen += 1
            ok = isinstance(elt, ast.Subscript) and is_name(elt.value, tab) and isinstance(elt.slice, ast.Name) and elt.slice.id in tv
            ctx.inst(rid, fn, c, ok,
                     "elements converted by table lookup %s[...]" % tab if ok else
                     "container elements are converted by `%s`, not by looking them up in the table `%s`: values that equal "
                     "0 / 1 / -1 without being Python ints (numpy integers, ...) are no longer converted" % (src(elt)[:50], tab))
        if not seen:
            loops = [n for n in ast.walk(fn.node) if isinstance(n, ast.For)]
            ok = any(isinstance(x, ast.Subscript) and is_name(x.value, tab) for l in loops for x in ast.walk(l))
            ctx.inst(rid, fn, 'element conversion', ok, "elements converted by table lookup in a loop" if ok else
                     "no table lookup of container elements found in %s" % name)


def rules(ctx):
    P, R = ctx.prog, ctx.res
    from .C14 import no_module_state
    ctx.rule('R04.11', "no function writes module-level state (memo / registry): results independent of earlier calls", floor=1)
    no_module_state(ctx, 'R04.11')
    from .C14 import derived_fields
    ctx.rule('R04.10', "a field of model objects outside the frozen bookkeeping fields that is written together with the terms / a bookkeeping field is written by every other mutator of that state (no stale memo)", floor=1)
    derived_fields(ctx, 'R04.10')
    ctx.rule('R04.1', "result type dispatch: BMatrix iff type(arg) == AMatrix, labelled B otherwise", floor=4)
    ctx.rule('R04.2', "literal correspondence tables are mutual inverses (0<->1, 1<->-1); is_solution_spin polarity; "
                      "decimal helpers compose the matching pair", floor=5)
    ctx.rule('R04.3', "Conversions defaults pair the matching functions; no default-only cycle for any concrete class", floor=20)
    ctx.rule('R04.4', "convert_solution polarity / converter / default flag table", floor=4)
    ctx.rule('R04.5', "stores into result models inside term loops accumulate", floor=14)
    ctx.rule('R04.6', "enumerated forms relabel every label through self._mapping", floor=3)
    ctx.rule('R04.7', "to_enumerated reflection targets", floor=6)
    ctx.rule('R04.8', "export properties select terms by key length", floor=3)
    ctx.rule('R04.9', "premise of the relabelling: the mapping is kept in step with the variable count (registration "
                      "parity), refresh rebuilds it through the model's full constructor, convert_solution decodes "
                      "exactly range(num_binary_variables)", floor=12)

    # ---------------------------------------------------------------- R04.1
    result_type_dispatch(ctx, 'R04.1')

    # ---------------------------------------------------------------- R04.2
    tabs = {}
    for name in ('boolean_to_spin', 'spin_to_boolean'):
        fn = P.func('_conversions.%s' % name)
        d = None
        for n in walk_no_nested(strip_docstring(fn.node.body)):
            if isinstance(n, ast.Assign) and isinstance(n.value, ast.Dict):
                try:
                    d = ast.literal_eval(n.value)
                except Exception:
                    d = None
        tabs[name] = (fn, d)
    b2s, s2b = tabs['boolean_to_spin'][1], tabs['spin_to_boolean'][1]
    ctx.inst('R04.2', tabs['boolean_to_spin'][0], 'convert table', b2s == {0: 1, 1: -1},
             "0 -> 1, 1 -> -1" if b2s == {0: 1, 1: -1} else "boolean_to_spin table is %s, documented {0: 1, 1: -1}" % b2s)
    ctx.inst('R04.2', tabs['spin_to_boolean'][0], 'convert table', s2b == {1: 0, -1: 1},
             "1 -> 0, -1 -> 1" if s2b == {1: 0, -1: 1} else "spin_to_boolean table is %s, documented {1: 0, -1: 1}" % s2b)
    element_conversion(ctx, 'R04.2')
    canonical_key_use(ctx, 'R04.5')
    inv = bool(b2s) and bool(s2b) and {v: k for k, v in b2s.items()} == s2b
    ctx.inst('R04.2', tabs['spin_to_boolean'][0], 'tables are mutual inverses', inv,
             "mutual inverses" if inv else "the two tables are not inverse to each other")
    iss = P.func('_binary_helpers.is_solution_spin')
    g = cfg_of(iss.node)
    rt = {}
    for r in [n for n in g.stmts() if isinstance(n, ast.Return)]:
        facts = []
        for t, pol, o in g.edge_dominators(r):
            facts += compare_atoms(t, pol)
        for f in facts:
            if len(f) == 3 and f[1] == '==' and f[2] in ('0', '-1') and f[0] not in ('0', '-1'):
                rt[f[2]] = src(r.value)
        if not [f for f in facts if len(f) == 3 and f[1] == '==']:
            rt['default'] = src(r.value)
    ok = rt.get('0') == 'False' and rt.get('-1') == 'True' and rt.get('default') == iss.params[1]
    ctx.inst('R04.2', iss, 'polarity of is_solution_spin', ok,
             "0 -> boolean, -1 -> spin, otherwise the default" if ok else
             "is_solution_spin answers %s (expected 0 -> False, -1 -> True, else default)" % rt)
    for name, want in (('decimal_to_spin', 'boolean_to_spin(decimal_to_boolean('), ('spin_to_decimal', 'boolean_to_decimal(spin_to_boolean(')):
        fn = P.func('_conversions.%s' % name)
        rets = [n for n in walk_no_nested(strip_docstring(fn.node.body)) if isinstance(n, ast.Return)]
        ok = len(rets) == 1 and src(rets[0].value).startswith(want)
        ctx.inst('R04.2', fn, rets[0] if rets else 'return', ok, "composes the matching pair" if ok else
                 "%s does not compose %s...))" % (name, want))

    # ---------------------------------------------------------------- R04.3
    conversion_defaults(ctx, 'R04.3')
    ABSTRACT = {'Conversions': "interface only", 'BO': "abstract parent of the labelled models", 'Problem': "abstract parent"}
    for c in P.subclasses_of('Conversions'):
        if c.name in ABSTRACT:
            continue
        for a, b in (('to_qubo', 'to_quso'), ('to_pubo', 'to_puso')):
            da, db = P.definer(c.name, a), P.definer(c.name, b)
            ok = not (da == 'Conversions' and db == 'Conversions')
            ctx.inst('R04.3', (c.module.relpath, c.name), '%s: %s/%s' % (c.name, a, b), ok,
                     "resolved by %s / %s" % (da, db) if ok else
                     "%s defines neither %s nor %s: the defaults call each other forever" % (c.name, a, b))

    # ---------------------------------------------------------------- R04.4
    for cname, conv_fn, spin_default, convert_when_spin in (('QUBO', 'spin_to_boolean', False, True), ('QUSO', 'boolean_to_spin', True, False)):
        fn = P.func('%s.convert_solution' % cname)
        g = cfg_of(fn.node)
        sol, flag = fn.params[1], fn.params[2]
        d = fn.node.args.defaults
        okd = bool(d) and is_const(d[-1], spin_default)
        ctx.inst('R04.4', fn, 'default %s=%s' % (flag, spin_default), okd,
                 "default flag %s" % spin_default if okd else "default of `%s` is not %s" % (flag, spin_default))
        convs = [n for n in g.stmts() if isinstance(n, ast.Assign) and isinstance(n.value, ast.Call) and
                 call_name(n.value) in ('spin_to_boolean', 'boolean_to_spin')]
        ok = len(convs) == 1 and call_name(convs[0].value) == conv_fn and src(convs[0].targets[0]) == sol
        if ok:
            facts = []
            for t, pol, o in g.edge_dominators(convs[0]):
                facts += compare_atoms(t, pol)
            want = ('truthy' if convert_when_spin else 'falsy', 'is_solution_spin(%s, %s)' % (sol, flag))
            ok = want in facts
        ctx.inst('R04.4', fn, convs[0] if convs else 'conversion', ok,
                 "%s applied exactly when the solution %s spin" % (conv_fn, 'is' if convert_when_spin else 'is not') if ok else
                 "%s.convert_solution does not apply %s under the %s polarity of is_solution_spin(solution, %s)"
                 % (cname, conv_fn, 'positive' if convert_when_spin else 'negative', flag))
    for cname, spin_default in (('PUBO', False), ('PUSO', True)):
        fn = P.func('%s.convert_solution' % cname)
        d = fn.node.args.defaults
        okd = bool(d) and is_const(d[-1], spin_default)
        ctx.inst('R04.4', fn, 'default spin=%s' % spin_default, okd, "default flag %s" % spin_default if okd else
                 "default of the spin flag is not %s" % spin_default)

    # ---------------------------------------------------------------- R04.5
    targets = ['_conversions.pubo_to_puso', '_conversions.puso_to_pubo', '_conversions.qubo_to_quso',
               '_conversions.quso_to_qubo', 'QUBO.to_qubo', 'QUSO.to_quso', 'PUSO._to_puso', '_qubomatrix.matrix_to_qubo']
    for q in targets:
        fn = P.func(q)
        rets = [n for n in walk_no_nested(strip_docstring(fn.node.body)) if isinstance(n, ast.Return)]
        res = {src(r.value) for r in rets if isinstance(r.value, ast.Name)}
        n_st = 0
        for lp in [n for n in walk_no_nested(strip_docstring(fn.node.body)) if isinstance(n, ast.For)]:
            for st in ast.walk(lp):
                if isinstance(st, (ast.Assign, ast.AugAssign)):
                    tg = st.targets if isinstance(st, ast.Assign) else [st.target]
                    for t in tg:
                        if isinstance(t, ast.Subscript) and src(t.value) in res:
                            n_st += 1
                            ok = isinstance(st, ast.AugAssign) and isinstance(st.op, (ast.Add, ast.Sub))
                            ctx.inst('R04.5', fn, st, ok,
                                     "accumulates into the result" if ok else
                                     "`%s` overwrites the result's entry: source keys that collapse onto one target key "
                                     "(after squashing / relabelling) lose all but the last coefficient" % src(st))
        if not n_st:
            ctx.inst('R04.5', fn, 'def %s' % fn.name, False, "no store into the result inside a term loop found")

    # ---------------------------------------------------------------- R04.6
    for q in ('QUBO.to_qubo', 'QUSO.to_quso', 'PUSO._to_puso'):
        fn = P.func(q)
        sn = R.self_name(fn)
        ok = False
        for lp in [n for n in walk_no_nested(strip_docstring(fn.node.body)) if isinstance(n, ast.For)]:
            if src(lp.iter) != '%s.items()' % sn:
                continue
            kv = src(lp.target.elts[0])
            slices = [t.slice for st in ast.walk(lp) if isinstance(st, (ast.Assign, ast.AugAssign))
                      for t in (st.targets if isinstance(st, ast.Assign) else [st.target])
                      if isinstance(t, ast.Subscript) and not is_name(t.value, sn)]
            keynames = {x.id for sl in slices for x in ast.walk(sl) if isinstance(x, ast.Name)}
            cands = [(None, sl) for sl in slices] + [x for kn in sorted(keynames) for x in assignments_to(fn.node, kn)]
            for s_, v in cands:
                if isinstance(v, ast.AST):
                    for n in ast.walk(v):
                        if isinstance(n, (ast.GeneratorExp, ast.ListComp)) and len(n.generators) == 1 and \
                                src(n.generators[0].iter) == kv and not n.generators[0].ifs and \
                                src(n.elt) == '%s._mapping[%s]' % (sn, src(n.generators[0].target)):
                            ok = True
        # every return hands back the model filled by that loop (no path that skips the relabelling)
        rets = [n for n in walk_no_nested(strip_docstring(fn.node.body)) if isinstance(n, ast.Return)]
        filled = {src(t.value) for lp_ in walk_no_nested(strip_docstring(fn.node.body)) if isinstance(lp_, ast.For)
                  for st in ast.walk(lp_) if isinstance(st, (ast.Assign, ast.AugAssign))
                  for t in (st.targets if isinstance(st, ast.Assign) else [st.target]) if isinstance(t, ast.Subscript)}
        byp = [r for r in rets if src(r.value) not in filled]
        ctx.inst('R04.6', fn, 'every return is the relabelled model', not byp,
                 "all returns hand back the relabelled model" if not byp else
                 "`%s` returns a model that did not go through the relabelling loop: its labels are not the mapping's "
                 "integers when the shortcut's assumption is stale" % src(byp[0])[:60])
        ctx.inst('R04.6', fn, 'key relabelling', ok,
                 "every label of every key goes through self._mapping" if ok else
                 "%s does not relabel every label of every key through self._mapping" % q)

    # ---------------------------------------------------------------- R04.7
    te = P.func('BO.to_enumerated')
    txt = src(te.node)
    okexpr = "'to_' + self.__class__.__name__.lower().replace('c', 'u')" in txt
    ctx.inst('R04.7', te, 'computed method name', okexpr,
             "name is 'to_' + class name lowered with c -> u" if okexpr else
             "to_enumerated no longer computes 'to_' + lower(class name) with c -> u")
    want = {'QUBO': 'to_qubo', 'QUSO': 'to_quso', 'PUBO': 'to_pubo', 'PUSO': 'to_puso', 'PCBO': 'to_pubo', 'PCSO': 'to_puso'}
    for c, m in want.items():
        comp = 'to_' + c.lower().replace('c', 'u')
        tgt = P.lookup_method(c, comp)
        ok = comp == m and isinstance(tgt, FuncInfo)
        ctx.inst('R04.7', (P.cls(c).module.relpath, c), '%s.to_enumerated -> %s' % (c, comp), ok,
                 "resolves to %s" % getattr(tgt, 'qual', tgt) if ok else "%s.%s does not exist / is not the same-kind form" % (c, comp))

    # ---------------------------------------------------------------- R04.8
    for cname, prop, want_if, want_key in (('QUBOMatrix', 'Q', 'k', None), ('QUSOMatrix', 'h', 'len(k) == 1', 'k[0]'),
                                           ('QUSOMatrix', 'J', 'len(k) == 2', 'k')):
        fn = P.cls(cname).methods.get(prop)
        ok = False
        if fn is not None:
            sn = R.self_name(fn)
            for r in [n for n in walk_no_nested(strip_docstring(fn.node.body)) if isinstance(n, ast.Return)]:
                v = r.value
                if isinstance(v, ast.DictComp) and len(v.generators) == 1 and src(v.generators[0].iter) == '%s.items()' % sn:
                    kname = src(v.generators[0].target.elts[0])
                    ifs = v.generators[0].ifs
                    okif = len(ifs) == 1
                    if okif and want_if == 'k':
                        okif = src(ifs[0]) == kname
                    elif okif:
                        n_ = want_if.split('== ')[1]
                        okif = ('len(%s)' % kname, '==', n_) in compare_atoms(ifs[0], True)
                    ok = okif and (want_key is None or src(v.key) == want_key.replace('k', kname))
        ctx.inst('R04.8', fn or (P.cls(cname).module.relpath, cname), 'property %s' % prop, ok,
                 "selects the terms by key length" if ok else
                 "%s.%s does not select exactly the terms `if %s`" % (cname, prop, want_if))

    # qubo_to_matrix reads a canonical QUBOMatrix (redundant keys of a plain dict accumulate first)
    qm = P.func('_qubomatrix.qubo_to_matrix')
    gq = cfg_of(qm.node)
    qp = qm.params[0]
    canon_assign = [n for n in gq.stmts() if isinstance(n, ast.Assign) and is_name(n.targets[0], qp)
                    and isinstance(n.value, ast.Call) and src(n.value.func).split('.')[-1] == 'QUBOMatrix']
    loops = [n for n in gq.stmts() if isinstance(n, ast.For) and src(n.iter) == '%s.items()' % qp]
    okq = bool(loops)
    for lp in loops:
        # every path to the fill loop either passes the canonicalising copy or knows isinstance(Q, QUBOMatrix)
        for path in gq.paths(ENTRY, (lp,), limit=200):
            nodes = [n for n, lab in path]
            facts = []
            for n, lab in path:
                if lab and lab[0] not in ('iter', 'exc'):
                    facts += compare_atoms(lab[0], lab[1])
            if not (any(c in nodes for c in canon_assign) or ('truthy', 'isinstance(%s, QUBOMatrix)' % qp) in facts):
                okq = False
    ctx.inst('R04.8', qm, loops[0] if loops else 'fill loop', okq,
             "the matrix is filled from a canonical QUBOMatrix" if okq else
             "qubo_to_matrix can fill the matrix from a raw dict: keys naming the same monomial ((0,1)/(1,0), (0,)/(0,0)) "
             "overwrite each other instead of accumulating")

    # a matrix has no place for a constant: a QUBO with a non-zero constant is rejected before the matrix is built
    rz = [n for n in gq.stmts() if isinstance(n, ast.Raise)]
    okc = False
    for n in rz:
        for t, pol, o in gq.edge_dominators(n):
            for a_ in compare_atoms(t, pol):
                if a_ in (('%s[()]' % qp, '!=', '0'), ('truthy', '%s[()]' % qp), ('truthy', '%s.offset' % qp), ('%s.offset' % qp, '!=', '0'),
                          ('truthy', '%s.get((), 0)' % qp), ('%s.get((), 0)' % qp, '!=', '0'), ('()', 'in', qp)):
                    okc = all(gq.reaches(n, lp) is False or True for lp in loops)
    okc = okc and all(any(gq.dominates([o for t, pol, o in gq.edge_dominators(n)], lp) for n in rz) for lp in loops)
    ctx.inst('R04.8', qm, 'constant rejected', okc,
             "a non-zero constant raises before the matrix is filled" if okc else
             "qubo_to_matrix no longer rejects a QUBO with a constant term: the constant is silently dropped (or written into the "
             "matrix), so the exported matrix describes another function")

    # ---------------------------------------------------------------- R04.9
    from .C14 import registration_parity, refresh_order, who_may_write, inverse_pairs, G1
    registration_parity(ctx, 'R04.9')
    from .C14 import coupled_group_instances
    coupled_group_instances(ctx, 'R04.9')
    refresh_order(ctx, 'R04.9')
    who_may_write(ctx, 'R04.9', G1)
    inverse_pairs(ctx, 'R04.9')
    for cname_ in ('QUBO', 'QUSO'):
        f_ = P.func('%s.convert_solution' % cname_)
        sn = R.self_name(f_)
        from .C01 import decode_range_ok
        ok, r = decode_range_ok(f_, sn)
        ctx.inst('R04.9', f_, r if r is not None else 'return', ok, "solution decoded label by label through the reverse mapping" if ok else
                 "convert_solution does not undo the relabelling as {reverse_mapping[i]: solution[i] for i < n}")
