"""C06 - logical constraint methods.  Rules R06.1 - R06.4 (DESIGN 4.6)."""
import ast

from ..pymodel import AnalysisError, FuncInfo
from ..astutil import (src, is_name, call_name, walk_no_nested, strip_docstring, compare_atoms,
                       enclosing_stmt, calls_in, names_in, assignments_to, kwarg, literal_tuple)
from ..cfg import cfg_of, ENTRY, EXIT, RAISE
from ..effects import Effects, root
from ..forwarding import check_forwarding

EXPLANATION = (
    "Decides for the sixteen gate methods: no ancilla can be allocated (call-graph "
    "non-reachability of _next_ancilla, property loads counted as calls, temporaries included); "
    "every path returns through add_constraint_eq_zero (directly or via another gate method) with "
    "the weight forwarded to its namesake and explicit literal bounds, hence exactly one record "
    "under 'eq'; the multi-operand equality gates raise on fewer than two operands; operands are "
    "never mutated (they reach arithmetic only through the copying builders).")
NOT_DECIDED = "the penalty truth tables (0 on satisfying, >= lam on violating assignments) and the soundness of the literal bounds."
TRUSTED = ["add_constraint_eq_zero (C02)", "sat builders copy their operands (C07)"]

GATES = ['AND', 'OR', 'XOR', 'NAND', 'NOR', 'XNOR', 'NOT', 'BUFFER']
ARITY = ['eq_AND', 'eq_NAND', 'eq_OR', 'eq_NOR']


def gate_methods(P):
    out = {}
    for g in GATES:
        for pre in ('', 'eq_'):
            out[pre + g] = P.func('PCBO.add_constraint_%s%s' % (pre, g))
    return out


def rules(ctx):
    P, R = ctx.prog, ctx.res
    ctx.rule('R06.7', "no function writes module-level state (memo / registry): results independent of earlier calls", floor=1)
    from .C14 import no_module_state as _nms
    _nms(ctx, 'R06.7')
    from .C14 import derived_fields as _df
    _df(ctx, 'R06.7')      # ... nor keeps derived state on a model that some mutator forgets (stale memo)
    E = Effects(P, R)
    E.build()
    ctx.rule('R06.1', "_next_ancilla is not reachable from any gate method", floor=16)
    ctx.rule('R06.2', "every path returns self.add_constraint_eq_zero(P, lam, bounds=<literal pair>) or another "
                      "gate method, with lam forwarded", floor=16)
    ctx.rule('R06.3', "multi-operand equality gates raise on fewer than two operands", floor=4)
    ctx.rule('R06.4', "operands are never mutated", floor=16)
    ctx.rule('R06.5', "the penalty reaches the model only through += / -= (also in the AND-shape shortcut of "
                      "add_constraint_eq_zero) and the recorded polynomial is a fresh, unshared copy", floor=6)
    meths = gate_methods(P)
    ctx.rule('R06.8', "finite truth table of the literal gadget polynomial of each gate method (closed expression over the "
                      "operands' atoms): 0 where the gate relation holds, >= 1 elsewhere, within the literal bounds", floor=14)
    from .gate_tables import gate_table_rules
    gate_table_rules(ctx, 'R06.8', {'add_constraint_' + k if not k.startswith('add_constraint_') else k: v for k, v in meths.items()})
    from . import C02
    from .C07 import no_metadata_reads
    ctx.rule('R06.6', "no function reachable from a gate method reads the display metadata `name` of an operand", floor=16)
    no_metadata_reads(ctx, 'R06.6', [(fn, 'PCBO') for fn in meths.values()])
    C02.merge_discipline(ctx, 'R06.5', list(meths.values()) + [P.func('PCBO.add_constraint_eq_zero')] +
                         P.opt_funcs(['_pcbo._special_constraints_eq_zero']))
    C02.recorded_copy_rules(ctx, E, P.func('PCBO.add_constraint_eq_zero'), 'R06.5', 'R06.5', 'PUBO')
    C02.record_not_shared(ctx, 'R06.5')
    C02.record_helpers(ctx, 'R06.5')
    C02.arity_guards(ctx, 'R06.5', P.opt_funcs(['_pcbo._special_constraints_eq_zero']) or [P.func('PCBO.add_constraint_eq_zero')])
    from .C14 import refresh_order
    refresh_order(ctx, 'R06.5')
    C02.copy_ctor_counter(ctx, 'R06.5')
    from .C07 import builders_pure
    builders_pure(ctx, 'R06.4', E)
    from .C07 import no_collapsing_dictcomp, operand_discipline
    no_collapsing_dictcomp(ctx, 'R06.4')
    operand_discipline(ctx, 'R06.4', 'R06.4')      # the gates are built with AND / OR / XOR ...: every operand given takes part
    C02.record_balance(ctx, 'R06.5', P.func('PCBO.add_constraint_eq_zero'), 'eq')
    C02.early_exits(ctx, 'R06.5', P.func('PCBO.add_constraint_eq_zero'))
    C02.lam_zero_rule(ctx, 'R06.5', P.func('PCBO.add_constraint_eq_zero'))
    for name, fn in meths.items():
        selfn = R.self_name(fn)
        g = cfg_of(fn.node)
        # ------------------------------------------------------------ R06.1
        reach = R.reachable_funcs(fn, 'PCBO')
        hit = [v for k, v in reach.items() if k[0].endswith('._next_ancilla')]
        ctx.inst('R06.1', fn, 'def %s' % fn.name, not hit,
                 "cannot reach _next_ancilla (%d functions reachable)" % len(reach) if not hit else
                 "gate method can allocate an ancilla: the penalty is no longer a function of the operands only",
                 path=hit[0] if hit else None)
        # ------------------------------------------------------------ R06.2
        rets = [n for n in g.stmts() if isinstance(n, ast.Return)]
        if not rets:
            ctx.inst('R06.2', fn, 'return', False, "no return")
        # falling off the end is also an exit
        falls = [a for a, lab in g.pred[EXIT] if not isinstance(a, ast.Return)]
        if falls:
            ctx.inst('R06.2', fn, falls[0], False, "a path leaves the method without adding the constraint")
        for r in rets:
            v = r.value
            ok, msg = False, "return value `%s` is not a call of self.add_constraint_eq_zero / a gate method" % src(v)[:60]
            if isinstance(v, ast.Call) and isinstance(v.func, ast.Attribute) and is_name(v.func.value, selfn):
                m = v.func.attr
                tgt = P.lookup_method('PCBO', m)
                if m == 'add_constraint_eq_zero' and isinstance(tgt, FuncInfo):
                    b = kwarg(v, 'bounds', 2)
                    lamarg = kwarg(v, 'lam', 1)
                    bvals = []
                    if isinstance(b, ast.Name):
                        for s, val in assignments_to(fn.node, b.id):
                            bvals.append(val)
                    elif b is not None:
                        bvals = [b]
                    lit = bool(bvals) and all(isinstance(x, ast.AST) and isinstance(literal_tuple(x), tuple)
                                              and len(literal_tuple(x)) == 2 for x in bvals)
                    if not lit:
                        msg = "add_constraint_eq_zero is called without explicit literal bounds"
                    elif lamarg is None or not is_name(lamarg, 'lam'):
                        msg = "the weight `lam` is not forwarded to add_constraint_eq_zero"
                    else:
                        ok, msg = True, "routes to add_constraint_eq_zero with bounds %s" % [src(x) for x in bvals]
                    check_forwarding(ctx, 'R06.2', fn, v, tgt, 'method')
                elif m.startswith('add_constraint_') and m[len('add_constraint_'):] in meths and isinstance(tgt, FuncInfo):
                    lamarg = kwarg(v, 'lam')
                    if lamarg is not None and is_name(lamarg, 'lam'):
                        ok, msg = True, "routes through gate method %s" % m
                    else:
                        msg = "the weight `lam` is not forwarded to %s" % m
                    check_forwarding(ctx, 'R06.2', fn, v, tgt, 'method')
                else:
                    msg = "gate method routes to %s, which may record under another relation or allocate ancillas" % m
            ctx.inst('R06.2', fn, r, ok, msg)
            if ok and isinstance(v, ast.Call):
                # the encoded polynomial / operands must not depend on the weight
                dep = {'lam'}
                changed = True
                while changed:
                    changed = False
                    for n_ in ast.walk(fn.node):
                        if isinstance(n_, (ast.Assign, ast.AugAssign)) and names_in(n_.value) & dep:
                            for t_ in (n_.targets if isinstance(n_, ast.Assign) else [n_.target]):
                                for nm in names_in(t_) - dep:
                                    dep.add(nm)
                                    changed = True
                others = [a for a in v.args if not is_name(a, 'lam')] + \
                         [k.value for k in v.keywords if k.arg != 'lam']
                bad_ = [a for a in others if names_in(a) & dep]
                ctx.inst('R06.2', fn, 'weight-free polynomial in %s' % fn.name, not bad_,
                         "the polynomial and bounds handed on do not depend on lam" if not bad_ else
                         "`%s` depends on the weight lam: the recorded constraint and the squared penalty are scaled a "
                         "second time (satisfying assignments are penalised for lam != 1)" % src(bad_[0])[:60])
        # ------------------------------------------------------------ R06.3
        if name in ARITY:
            vparam = fn.node.args.vararg.arg if fn.node.args.vararg else None
            raises = [n for n in g.stmts() if isinstance(n, ast.Raise)]
            ok = False
            for rz in raises:
                facts = []
                for t, pol, o in g.edge_dominators(rz):
                    facts += compare_atoms(t, pol)
                    # guard owner must dominate every return
                for f in facts:
                    if len(f) == 3 and ((f[2] == '2' and f[1] == '<') or (f[2] == '1' and f[1] == '<=')):
                        lhs = f[0]
                        is_len = lhs == 'len(%s)' % vparam or any(
                            isinstance(v, ast.AST) and src(v) == 'len(%s)' % vparam
                            for s, v in assignments_to(fn.node, lhs))
                        owners = [o for t, pol, o in g.edge_dominators(rz)]
                        if is_len and all(any(g.dominates([o], r) for o in owners) for r in rets):
                            ok = True
            ctx.inst('R06.3', fn, raises[0] if raises else 'arity guard', ok,
                     "raises on fewer than two operands before anything else" if ok else
                     "no `len(variables) < 2 -> raise` guard dominating the method: a degenerate gate is "
                     "silently encoded")
        # ------------------------------------------------------------ R06.4
        fe = E.effects(fn)
        bad = []
        for n, os_, how in fe.mutations:
            for o in os_:
                r_ = root(o)
                if r_.startswith('param:') and r_[6:] != selfn:
                    bad.append((n, o, how))
        ctx.inst('R06.4', fn, 'def %s' % fn.name, not bad,
                 "no operand-origin object is mutated" if not bad else
                 "operand `%s` may be mutated: %s (line %s)" % (bad[0][1], bad[0][2], getattr(bad[0][0], 'lineno', '?')))
