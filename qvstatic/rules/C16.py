"""C16 - symbolic weights commute with substitution.  Rules R16.1, R16.2."""
import ast

from ..pymodel import AnalysisError, FuncInfo, parent
from ..astutil import (src, is_name, is_const, call_name, walk_no_nested, strip_docstring,
                       compare_atoms, enclosing_stmt, calls_in, names_in, bind_args)
from ..cfg import cfg_of, ENTRY, EXIT
from ..effects import Effects, root

EXPLANATION = (
    "Decides the necessary condition for `build with symbol, then subs` == `build with number`: "
    "a (possibly symbolic) weight lam never steers control flow or is coerced - interprocedural "
    "taint analysis from every `lam` parameter of the constraint / reduction code to the sinks "
    "{comparison operand, truth test, and/or operand, abs/int/float/round/bool/max/min/len/range/"
    "pow/divmod/hash argument, subscript index, loop bound}, with the allow-list {`lam is None`, "
    "callable(lam), `not lam` whose true branch returns self}; and subs is complete and pure: it "
    "builds a fresh object of the model's class, stores a value for every key on every path, never "
    "writes self, PCBO.subs substitutes every recorded constraint with the same arguments, PCSO "
    "delegates.")
NOT_DECIDED = "that sympy's own arithmetic commutes with substitution (trusted); numeric equality of coefficients."
TRUSTED = ["sympy expression arithmetic and its structural zero test used by DictArithmetic.__setitem__"]

MODULES = ['qubovert._pcbo', 'qubovert._pcso', 'qubovert._pubo', 'qubovert._puso']
SINK_FUNCS = {'abs', 'int', 'float', 'round', 'bool', 'max', 'min', 'len', 'range', 'pow', 'divmod',
              'hash', 'sorted', 'sum'}


class Taint:
    def __init__(self, ctx):
        self.ctx = ctx
        self.P, self.R = ctx.prog, ctx.res
        self.done = {}      # (id(fn)) -> set of tainted params already analysed
        self.work = []
        self.sinks = []     # (fn, node, what, ok)
        self.sources = 0
        self._rt = {}

    def add(self, fn, param):
        k = id(fn)
        if param in self.done.setdefault(k, set()):
            return
        self.done[k].add(param)
        self.work.append((fn, param))

    def run(self):
        while self.work:
            fn, param = self.work.pop()
            self.analyse(fn, self.done[id(fn)])

    def tainted_expr(self, e, tainted, fn, recv):
        """Does the value of e depend on a tainted name without having been
        absorbed into a model?"""
        if e is None:
            return False
        if isinstance(e, ast.Name):
            return e.id in tainted
        if isinstance(e, ast.Constant):
            return False
        if isinstance(e, ast.Lambda):
            return self.tainted_expr(e.body, tainted, fn, recv)
        if isinstance(e, ast.Call):
            # a call of a local closure that returns a tainted value
            if isinstance(e.func, ast.Name) and e.func.id in tainted:
                return True
            ts = self.R.infer(e, fn, recv)
            if any(self.R.is_model_class(t) for t in ts):
                return False       # absorbed into a model's coefficients
            nm = call_name(e)
            if nm in ('callable', 'isinstance', 'type', 'str', 'repr'):
                return False
            anyarg = any(self.tainted_expr(a, tainted, fn, recv) for a in e.args) or \
                any(self.tainted_expr(k.value, tainted, fn, recv) for k in e.keywords)
            if not anyarg:
                return False
            try:
                tg = [t for t in self.R.resolve_call(e, fn, recv) if isinstance(t[0], FuncInfo)]
            except Exception:
                tg = []
            if not tg:
                return True
            for t, tr, how in tg:
                b = bind_args(e, t, skip_self=(bool(t.cls) and not t.is_static and how != 'unbound'))
                tp = {pn for pn, a in b.items() if isinstance(a, ast.AST) and not pn.startswith(('*', '!'))
                      and self.tainted_expr(a, tainted, fn, recv)}
                if self.returns_tainted(t, frozenset(tp), tr):
                    return True
            return False
        if isinstance(e, (ast.BinOp,)):
            ts = self.R.infer(e, fn, recv)
            if any(self.R.is_model_class(t) for t in ts):
                return False
            return self.tainted_expr(e.left, tainted, fn, recv) or self.tainted_expr(e.right, tainted, fn, recv)
        if isinstance(e, ast.UnaryOp):
            return self.tainted_expr(e.operand, tainted, fn, recv)
        if isinstance(e, ast.Compare):
            return False   # the comparison itself is the sink; its boolean result carries no weight
        if isinstance(e, ast.BoolOp):
            return any(self.tainted_expr(v, tainted, fn, recv) for v in e.values)
        if isinstance(e, ast.IfExp):
            return self.tainted_expr(e.body, tainted, fn, recv) or self.tainted_expr(e.orelse, tainted, fn, recv)
        if isinstance(e, (ast.Tuple, ast.List, ast.Set)):
            return any(self.tainted_expr(x, tainted, fn, recv) for x in e.elts)
        if isinstance(e, ast.Subscript):
            return self.tainted_expr(e.value, tainted, fn, recv)
        if isinstance(e, ast.Attribute):
            return False
        if isinstance(e, ast.Starred):
            return self.tainted_expr(e.value, tainted, fn, recv)
        return False

    def returns_tainted(self, t, tparams, recv):
        key = (id(t), tparams)
        if key in self._rt:
            return self._rt[key]
        self._rt[key] = False          # recursion guard (optimistic)
        tainted = self.local_taint(t, set(tparams), recv or (t.cls.name if t.cls else None))
        out = False
        for r in walk_no_nested(strip_docstring(t.node.body)):
            if isinstance(r, ast.Return) and r.value is not None and \
                    self.tainted_expr(r.value, tainted, t, recv or (t.cls.name if t.cls else None)):
                out = True
        self._rt[key] = out
        return out

    def local_taint(self, fn, tainted, recv):
        changed, it = True, 0
        while changed and it < 10:
            changed = False
            it += 1
            for n in ast.walk(fn.node):
                if isinstance(n, ast.Assign) and self.tainted_expr(n.value, tainted, fn, recv):
                    ts = self.R.infer(n.value, fn, recv)
                    if any(self.R.is_model_class(x) for x in ts):
                        continue
                    for t in n.targets:
                        for nm in ast.walk(t):
                            if isinstance(nm, ast.Name) and isinstance(nm.ctx, ast.Store) and nm.id not in tainted:
                                tainted.add(nm.id)
                                changed = True
                elif isinstance(n, ast.FunctionDef) and n is not fn.node and n.name not in tainted:
                    rets = [r for r in ast.walk(n) if isinstance(r, ast.Return)]
                    if any(self.tainted_expr(r.value, tainted, fn, recv) for r in rets):
                        tainted.add(n.name)
                        changed = True
        return tainted

    def analyse(self, fn, params):
        recv = fn.cls.name if fn.cls else None
        body = strip_docstring(fn.node.body)
        tainted = self.local_taint(fn, set(params), recv)
        # sinks
        for n in ast.walk(fn.node):
            if isinstance(n, ast.Compare):
                ops = [n.left] + list(n.comparators)
                for i, op in enumerate(n.ops):
                    for o in (ops[i], ops[i + 1]):
                        if self.tainted_expr(o, tainted, fn, recv):
                            ident = isinstance(op, (ast.Is, ast.IsNot)) and (
                                is_const(ops[i], None) or is_const(ops[i + 1], None))
                            self.sinks.append((fn, n, 'comparison `%s`' % src(n), ident,
                                               'identity test against None' if ident else ''))
            elif isinstance(n, (ast.If, ast.While, ast.IfExp, ast.Assert)):
                self._test(fn, n, n.test, tainted, recv)
            elif isinstance(n, ast.BoolOp):
                # operands of and/or are truth-tested (the last one only if the whole is tested)
                for v in n.values[:-1]:
                    if self.tainted_expr(v, tainted, fn, recv) and not isinstance(v, ast.Compare):
                        self.sinks.append((fn, n, 'and/or operand `%s`' % src(v), False, ''))
            elif isinstance(n, ast.Call):
                nm = call_name(n)
                if isinstance(n.func, ast.Name) and nm in SINK_FUNCS:
                    for a in n.args:
                        if self.tainted_expr(a, tainted, fn, recv):
                            self.sinks.append((fn, n, 'argument of %s(): `%s`' % (nm, src(n)), False, ''))
                self._bind(fn, n, tainted, recv)
            elif isinstance(n, (ast.BinOp, ast.AugAssign)) and isinstance(n.op, (ast.FloorDiv, ast.Mod, ast.BitAnd, ast.BitOr,
                                                                             ast.BitXor, ast.LShift, ast.RShift)):
                operands = [n.left, n.right] if isinstance(n, ast.BinOp) else [n.target, n.value]
                if any(isinstance(m, ast.Name) and m.id in tainted for o in operands for m in ast.walk(o)):
                    self.sinks.append((fn, n, 'value-sensitive operator %s in `%s` (floor division / modulo of a quantity '
                                              'scaled by the weight)' % (type(n.op).__name__, src(n)[:60]), False, ''))
            elif isinstance(n, ast.Subscript):
                if self.tainted_expr(n.slice, tainted, fn, recv):
                    self.sinks.append((fn, n, 'subscript index `%s`' % src(n), False, ''))
            elif isinstance(n, (ast.For, ast.comprehension)):
                if self.tainted_expr(n.iter, tainted, fn, recv):
                    self.sinks.append((fn, n.iter, 'loop bound `%s`' % src(n.iter), False, ''))

    def _test(self, fn, owner, test, tainted, recv):
        t, neg = test, False
        while isinstance(t, ast.UnaryOp) and isinstance(t.op, ast.Not):
            t, neg = t.operand, not neg
        if isinstance(t, (ast.Compare,)):
            return      # handled as comparison
        if isinstance(t, ast.BoolOp):
            for v in t.values:
                self._test(fn, owner, v, tainted, recv)
            return
        if isinstance(t, ast.Call) and call_name(t) in ('callable', 'isinstance', 'hasattr'):
            if any(self.tainted_expr(a, tainted, fn, recv) or (isinstance(a, ast.Name) and a.id in tainted) for a in t.args):
                self.sinks.append((fn, owner, 'type test `%s`' % src(t), True, 'type/identity test, not a value test'))
            return
        if self.tainted_expr(t, tainted, fn, recv):
            # allowed: `if not lam: return self`
            ok = False
            if isinstance(owner, ast.If) and neg and isinstance(t, ast.Name) and len(owner.body) == 1 \
                    and isinstance(owner.body[0], ast.Return):
                sn = self.R.self_name(fn)
                ok = src(owner.body[0].value) == sn
            self.sinks.append((fn, owner, 'truth test `%s`' % src(test), ok,
                               "documented `not lam` -> record only" if ok else ''))

    def _bind(self, fn, call, tainted, recv):
        try:
            tg = self.R.resolve_call(call, fn, recv)
        except Exception:
            tg = []
        for t, tr, how in tg:
            if not isinstance(t, FuncInfo):
                continue
            b = bind_args(call, t, skip_self=(bool(t.cls) and not t.is_static and how != 'unbound'))
            for pname, a in b.items():
                if isinstance(a, ast.AST) and not pname.startswith(('*', '!')):
                    if self.tainted_expr(a, tainted, fn, recv):
                        self.add(t, pname)


def weight_linearity(ctx, rid, modules=('qubovert._pcbo',)):
    """The weight enters penalties only linearly (products, true division, sums): no floor division / modulo /
    comparison / coercion of anything scaled by lam.  Subset of R16.1 usable as a premise of F >= lam."""
    P = ctx.prog
    T = Taint(ctx)
    for f in P.all_funcs():
        if f.module.name in modules and 'lam' in f.all_params:
            T.add(f, 'lam')
    T.run()
    seen = set()
    n = 0
    for fn, node, what, ok, why in T.sinks:
        k = (fn.qual, what)
        if k in seen:
            continue
        seen.add(k)
        n += 1
        ctx.inst(rid, fn, enclosing_stmt(node) if not isinstance(node, ast.stmt) else node, ok,
                 ("allowed use of the weight: %s" % what) if ok else
                 "the weight reaches a %s: the added penalty is not lam times a fixed non-negative function, so "
                 "`>= lam on violating assignments` fails for some weights" % what)
    return n


def rules(ctx):
    P, R = ctx.prog, ctx.res
    ctx.rule('R16.4', "no function writes module-level state (memo / registry): results independent of earlier calls", floor=1)
    from .C14 import no_module_state as _nms
    _nms(ctx, 'R16.4')
    from .C14 import derived_fields as _df
    _df(ctx, 'R16.4')      # ... nor keeps derived state on a model that some mutator forgets (stale memo)
    ctx.rule('R16.1', "a weight `lam` reaches only arithmetic, lam= arguments and the allow-listed tests", floor=40)
    ctx.rule('R16.2', "subs builds a fresh object, stores every key on every path, never writes self; "
                      "PCBO.subs substitutes every recorded constraint; PCSO delegates", floor=6)
    ctx.rule('R16.3', "the conversion chain to_pubo / to_qubo / to_puso / to_quso / to_enumerated hands the converted model on "
                      "without rounding or numeric coercion (round() drops every coefficient it cannot round, i.e. every "
                      "symbolic one)", floor=10)
    conv = [f for f in P.all_funcs() if f.outer is None and (
        (f.cls is not None and f.name.startswith('to_')) or f.module.name.endswith('._conversions'))]
    for f in conv:
        bad = [c for c in calls_in(f.node) if (isinstance(c.func, ast.Name) and c.func.id in ('round', 'int', 'float', 'abs'))
               or (isinstance(c.func, ast.Attribute) and c.func.attr in ('__round__', 'normalize'))]
        # numeric helpers on plain numbers (e.g. int(...) of a bit count) are not model coercions: only calls whose
        # argument is model-typed or a conversion call count
        hits = []
        for c in bad:
            a = c.args[0] if c.args else (c.func.value if isinstance(c.func, ast.Attribute) else None)
            if a is None:
                continue
            ts = R.infer(a, f, None)
            if any(R.is_model_class(t) for t in ts) or (isinstance(a, ast.Call) and (call_name(a) or '').startswith(('to_', 'qubo_to', 'pubo_to', 'quso_to', 'puso_to'))):
                hits.append(c)
        ctx.inst('R16.3', f, hits[0] if hits else 'def %s' % f.name, not hits,
                 "converted model handed on unchanged" if not hits else
                 "`%s` rounds / coerces the converted model: coefficients that contain a symbol are dropped, so converting with "
                 "a symbolic weight and substituting differs from converting with the number" % src(hits[0])[:70])
    from .C14 import record_and_counter_together
    record_and_counter_together(ctx, 'R16.2')
    T = Taint(ctx)
    nsrc = 0
    for f in P.all_funcs():
        if f.module.name in MODULES and 'lam' in f.all_params:
            T.add(f, 'lam')
            nsrc += 1
            ctx.inst('R16.1', f, 'source: parameter lam of %s' % f.qual, True, "taint source", nontrivial=False)
    # the default penalty of the degree reduction is computed from a coefficient of the model, which carries the symbols
    dl = P.func('PUBO.default_lam')
    T.add(dl, dl.all_params[-1])
    ctx.inst('R16.1', dl, 'source: coefficient parameter of %s' % dl.qual, True, "taint source", nontrivial=False)
    T.run()
    seen = set()
    for fn, node, what, ok, why in T.sinks:
        k = (fn.qual, what)
        if k in seen:
            continue
        seen.add(k)
        if fn is dl and not ok and what.startswith('argument of abs('):
            # abs of a symbolic coefficient is sympy's Abs(..), which commutes with substitution
            ctx.inst('R16.1', fn, enclosing_stmt(node), True, "abs() of the coefficient stays symbolic (Abs)", nontrivial=False)
            continue
        ctx.inst('R16.1', fn, enclosing_stmt(node) if not isinstance(node, ast.stmt) else node, ok,
                 ("allowed use of the weight: %s (%s)" % (what, why)) if ok else
                 "the weight `lam` (possibly a sympy symbol) reaches a %s: the result depends on the symbol's "
                 "value / raises for symbols, so building with a symbol and substituting differs from building "
                 "with the number" % what)
    ctx.note("R16.1: %d source parameters, %d functions reached by propagation" % (nsrc, len(T.done)))

    # ---------------------------------------------------------------- R16.2
    E = Effects(P, R)
    E.build()
    ds = P.func('DictArithmetic.subs')
    sn = R.self_name(ds)
    g = cfg_of(ds.node)
    s = E.summary(ds)
    alias = sorted(o for o in s['ret'] if root(o).startswith('param:'))
    ctx.inst('R16.2', ds, 'result of subs', not alias,
             "subs returns a fresh object" if not alias else
             "subs can return (part of) the model itself (%s): substituting then modifies / equals the original" % alias)
    ctx.inst('R16.2', ds, 'self unchanged by subs', sn not in s['mut'],
             "subs never writes self" if sn not in s['mut'] else "subs mutates the model it is called on")
    rets = [n for n in g.stmts() if isinstance(n, ast.Return)]
    for r in rets:
        ts = R.infer(r.value, ds, 'PCBO')
        okc = False
        if isinstance(r.value, ast.Name):
            from ..astutil import assignments_to
            for s_, v in assignments_to(ds.node, r.value.id):
                if isinstance(v, ast.Call) and src(v.func) in ('%s.__class__' % sn, 'type(%s)' % sn) and not v.args:
                    okc = True
        ctx.inst('R16.2', ds, r, okc,
                 "result constructed empty by the model's own class" if okc else
                 "result of subs is not constructed as self.__class__(): type / bookkeeping of the result differ")
    for c in calls_in(ds.node):
        if is_name(c.func, 'float', 'int', 'round', 'complex') and c.args:
            a0 = c.args[0]
            okf = isinstance(a0, ast.Call) and call_name(a0) == 'subs'
            ctx.inst('R16.2', ds, c, okf,
                     "numeric conversion applied only to the result of a substitution" if okf else
                     "`%s` converts a value that may be an untouched coefficient: coefficients the substitution does not "
                     "concern (exact integers, other symbols) are altered, so subs(...) differs from building with the number"
                     % src(c))
    loops = [n for n in g.stmts() if isinstance(n, ast.For)]
    okl = False
    for lp in loops:
        if src(lp.iter) == '%s.items()' % sn and isinstance(lp.target, ast.Tuple):
            kv = src(lp.target.elts[0])
            paths = g.iteration_paths(lp)
            allstore = bool(paths)
            for path in paths:
                st = [n for n, lab in path if isinstance(n, ast.Assign) and any(
                    isinstance(t, ast.Subscript) and src(t.slice) == kv and not is_name(t.value, sn) for t in n.targets)]
                # paths that leave through an exception edge into a handler are continued; only
                # complete iterations (back to the loop head) are required to store
                ends_at_head = path[-1][0] is lp
                if ends_at_head and not st:
                    allstore = False
            # ... and the substitution is attempted on every coefficient: each path contains v.subs(*args, **kwargs) with
            # the caller's arguments passed on whole (a pre-filter such as `v.has(...)` decides by its own reading of the
            # arguments which coefficients are substituted: the call forms of sympy's subs it does not anticipate leave
            # the symbol in place)
            vv = src(lp.target.elts[1])
            va = ds.node.args.vararg.arg if ds.node.args.vararg else None
            kw = ds.node.args.kwarg.arg if ds.node.args.kwarg else None

            def attempts(n_):
                if not isinstance(n_, ast.AST):
                    return False
                for e_ in ([n_.test] if isinstance(n_, (ast.If, ast.While)) else [n_.iter] if isinstance(n_, ast.For) else
                           [] if isinstance(n_, (ast.Try, ast.ExceptHandler, ast.With, ast.FunctionDef)) else [n_]):
                    for c_ in ast.walk(e_):
                        if isinstance(c_, ast.Call) and isinstance(c_.func, ast.Attribute) and c_.func.attr == 'subs' and src(c_.func.value) == vv \
                                and len(c_.args) == 1 and isinstance(c_.args[0], ast.Starred) and is_name(c_.args[0].value, va or '') \
                                and len(c_.keywords) == 1 and c_.keywords[0].arg is None and is_name(c_.keywords[0].value, kw or ''):
                            return True
                return False
            unatt = [path for path in paths if path[-1][0] is lp and not any(attempts(n_) for n_, lab in path)]
            ctx.inst('R16.2', ds, lp, not unatt,
                     "the substitution is attempted on every coefficient with the caller's arguments" if not unatt else
                     "some path through the loop stores a coefficient without calling %s.subs(*%s, **%s) on it: which coefficients "
                     "are substituted then depends on a pre-filter's reading of the arguments, and a symbol can be left in place"
                     % (vv, va, kw))
            okl = allstore
            ctx.inst('R16.2', ds, lp, okl,
                     "every key of self gets a value on every path of the loop body (%d paths)" % len(paths) if okl else
                     "some path through the substitution loop stores no value for the key: terms are dropped")
    if not loops:
        raise AnalysisError("DictArithmetic.subs: loop over self.items() not found")
    # PCBO.subs
    ps = P.func('PCBO.subs')
    sn2 = R.self_name(ps)
    comp_ok = False
    for n in walk_no_nested(strip_docstring(ps.node.body)):
        if isinstance(n, ast.Assign) and any(isinstance(t, ast.Attribute) and t.attr == '_constraints' for t in n.targets):
            from ..astutil import expand_names as _xn
            v = _xn(ps.node, n.value)
            if isinstance(v, ast.DictComp) and len(v.generators) == 1 and not v.generators[0].ifs \
                    and src(v.generators[0].iter) == '%s._constraints.items()' % sn2 \
                    and isinstance(v.value, ast.ListComp) and len(v.value.generators) == 1 \
                    and not v.value.generators[0].ifs \
                    and isinstance(v.value.elt, ast.Call) and call_name(v.value.elt) == 'subs' \
                    and src(v.value.elt.func.value) == src(v.value.generators[0].target):
                va = ps.node.args.vararg.arg if ps.node.args.vararg else None
                kw = ps.node.args.kwarg.arg if ps.node.args.kwarg else None
                args_ok = [src(a) for a in v.value.elt.args] == ['*%s' % va] and \
                    [(k.arg, src(k.value)) for k in v.value.elt.keywords] == [(None, kw)]
                comp_ok = args_ok
            ctx.inst('R16.2', ps, n, comp_ok,
                     "every recorded constraint is substituted with the same arguments, none filtered" if comp_ok else
                     "the constraints of the substituted model are not `P.subs(*args, **kwargs)` of every recorded "
                     "constraint (filtered, copied unsubstituted or different arguments)")
    n_assign = sum(1 for n in walk_no_nested(strip_docstring(ps.node.body))
                   if isinstance(n, ast.Assign) and any(isinstance(t, ast.Attribute) and t.attr == '_constraints'
                                                        for t in n.targets))
    if not n_assign:
        # loop form: for k, v in self._constraints.items(): for P in v: d._append_constraint(k, P.subs(..))
        gps = cfg_of(ps.node)
        okloop = False
        for lp in [n for n in gps.stmts() if isinstance(n, ast.For) and src(n.iter) == '%s._constraints.items()' % sn2]:
            inner = [n for n in lp.body if isinstance(n, ast.For)]
            for il in inner:
                paths = gps.iteration_paths(il)
                okloop = bool(paths) and all(
                    any(isinstance(n, ast.Expr) and isinstance(n.value, ast.Call) and call_name(n.value) == '_append_constraint'
                        for n, lab in path) for path in paths if path[-1][0] is il)
        ctx.inst('R16.2', ps, 'constraints of the substituted model', okloop,
                 "every recorded constraint is substituted and re-recorded on every path" if okloop else
                 "PCBO.subs does not give the substituted model a substituted copy of every recorded constraint "
                 "(some are filtered out or none are copied)")
    sup = [c for c in calls_in(ps.node, 'subs') if isinstance(c.func.value, ast.Call) and is_name(c.func.value.func, 'super')]
    ctx.inst('R16.2', ps, sup[0] if sup else 'super().subs', bool(sup),
             "terms substituted by the inherited subs" if sup else "PCBO.subs does not call the inherited subs")
    fe = E.effects(ps)
    badm = [(n, o, h) for n, os_, h in fe.mutations for o in os_ if root(o) == 'param:' + sn2]
    ctx.inst('R16.2', ps, 'self unchanged by PCBO.subs', not badm,
             "PCBO.subs never writes self" if not badm else
             "PCBO.subs writes the model it is called on (%s, line %s)" % (badm[0][2], getattr(badm[0][0], 'lineno', '?')))
    # PCSO delegates
    cs = P.cls('PCSO').methods.get('subs')
    okd = cs is not None and any(src(c.func) == 'PCBO.subs' and c.args and is_name(c.args[0], R.self_name(cs))
                                 and [src(a) for a in c.args[1:]] == ['*' + cs.node.args.vararg.arg]
                                 for c in calls_in(cs.node))
    ctx.inst('R16.2', cs or ('qubovert/_pcso.py', 'PCSO'), 'def subs', okd,
             "PCSO.subs delegates to PCBO.subs" if okd else
             "PCSO.subs does not delegate to PCBO.subs(self, *args, **kwargs): recorded spin constraints are not substituted")
