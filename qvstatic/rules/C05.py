"""C05 - model arithmetic and evaluation.  Rules R05.1 - R05.5 (DESIGN 4.5)."""
import ast

from ..pymodel import AnalysisError, FuncInfo, parent
from ..astutil import (expand_names, norm_compare, src, is_name, is_const, call_name, walk_no_nested, strip_docstring,
                       compare_atoms, enclosing_stmt, calls_in, names_in, assignments_to)
from ..cfg import cfg_of, ENTRY, EXIT, RAISE
from ..effects import Effects, root

EXPLANATION = (
    "Decides the operand / canonical-storage clauses: the non-in-place operators mutate neither "
    "operand and return a fresh object of the model's class (effect analysis, all receiver "
    "classes share these definitions); the in-place operators write only self, never `other`, "
    "return self, iterate snapshots while writing, and the model-by-model product empties self "
    "on every path before rebuilding it from snapshots taken before; every store into a model "
    "goes through one write path (class squash_key -> zero-drop -> dict) with no bypass, "
    "__getitem__ canonicalises too; the four quadratic classes reject keys with more than two "
    "labels after their own kind's canonicalisation; value/solve_bruteforce dispatch to the "
    "functions of their own kind with the documented argument order.")
NOT_DECIDED = ("the ring identities (a+b)(x)=a(x)+b(x) etc., idempotence/parity algebra of squash_key, "
               "the four value functions' arithmetic.")
TRUSTED = ["dict semantics", "squash_key's sort/parity algorithm (not a structural property)"]

PURE = ['__add__', '__radd__', '__sub__', '__rsub__', '__mul__', '__rmul__', '__pow__', '__truediv__',
        '__floordiv__', '__pos__', '__neg__', '__round__', 'copy', 'subs', 'subgraph', 'subvalue']
INPLACE = ['__iadd__', '__isub__', '__imul__', '__ipow__', '__itruediv__', '__ifloordiv__']
MODELS = ['QUBO', 'QUSO', 'PUBO', 'PUSO', 'PCBO', 'PCSO', 'QUBOMatrix', 'QUSOMatrix', 'PUBOMatrix', 'PUSOMatrix']
KIND = {'PUBOMatrix': 'pubo', 'PUSOMatrix': 'puso', 'QUBOMatrix': 'qubo', 'QUSOMatrix': 'quso'}


def _is_snapshot(e):
    return isinstance(e, ast.Call) and is_name(e.func, 'tuple', 'list', 'sorted', 'set', 'frozenset') and e.args


def rules(ctx):
    P, R = ctx.prog, ctx.res
    ctx.rule('R05.9', "squash_key sorts labels with ordering_key on every path (one canonical key per term for every mix of label types)", floor=2)
    canonical_order(ctx, 'R05.9')
    ctx.rule('R05.10', "the in-place power validates its exponent itself", floor=1)
    inplace_validation(ctx, 'R05.10')
    from .C14 import no_module_state
    ctx.rule('R05.8', "no function writes module-level state (memo / registry): results independent of earlier calls", floor=1)
    no_module_state(ctx, 'R05.8')
    from .C14 import derived_fields
    ctx.rule('R05.7', "a field of model objects outside the frozen bookkeeping fields that is written together with the terms / a bookkeeping field is written by every other mutator of that state (no stale memo)", floor=1)
    derived_fields(ctx, 'R05.7')
    E = Effects(P, R)
    E.build()
    ctx.rule('R05.1', "non-in-place operators mutate neither operand and return a fresh object", floor=28)
    ctx.rule('R05.2', "in-place operators write only self, return self, iterate snapshots; the product "
                      "empties self on every path before rebuilding", floor=14)
    ctx.rule('R05.3', "single canonical write path: squash_key -> zero-drop -> dict; no bypass", floor=14)
    ctx.rule('R05.4', "quadratic classes reject keys with more than two labels of their own kind", floor=4)
    ctx.rule('R05.6', "equality of models is dict equality of their canonical terms (no __eq__/__ne__/__hash__ override "
                      "in the model hierarchy)", floor=1)
    ctx.rule('R05.5', "value / solve_bruteforce dispatch to the functions of the class's own kind", floor=8)
    da = P.cls('DictArithmetic')

    # ---------------------------------------------------------------- R05.1
    for name in PURE:
        defs = [c.methods[name] for c in P.subclasses_of('DictArithmetic') if name in c.methods]
        if not defs:
            ctx.inst('R05.1', (da.module.relpath, 'DictArithmetic'), 'def %s' % name, False, "operator vanished")
            continue
        for fn in defs:
            s = E.summary(fn)
            sn = R.self_name(fn)
            mutp = sorted(s['mut'])
            ctx.inst('R05.1', fn, '%s leaves operands unchanged' % fn.qual, not mutp,
                     "no operand is mutated" if not mutp else
                     "%s may mutate %s: a non-in-place operator changes its operand" % (fn.qual, mutp))
            alias = sorted(o for o in s['ret'] if root(o).startswith('param:') and not o.startswith('elem:'))
            ctx.inst('R05.1', fn, '%s returns a fresh object' % fn.qual, not alias,
                     "result is a fresh object" if not alias else
                     "%s can return an operand itself (%s)" % (fn.qual, alias))
    derived_from_copy(ctx, 'R05.1')

    # ---------------------------------------------------------------- R05.2
    for name in INPLACE:
        fn = da.methods.get(name)
        if fn is None:
            ctx.inst('R05.2', (da.module.relpath, 'DictArithmetic'), 'def %s' % name, False, "in-place operator vanished "
                     "(Python falls back to the non-in-place form and rebinding)")
            continue
        s = E.summary(fn)
        sn = R.self_name(fn)
        others = sorted(p for p in s['mut'] if p != sn)
        ctx.inst('R05.2', fn, '%s: other operand unchanged' % name, not others,
                 "only self is written" if not others else "%s may mutate its right operand %s" % (name, others))
        g = cfg_of(fn.node)
        rets = [n for n in g.stmts() if isinstance(n, ast.Return)]
        okr = bool(rets) and all(src(r.value) == sn for r in rets) and not [a for a, l in g.pred[EXIT] if not isinstance(a, ast.Return)]
        ctx.inst('R05.2', fn, '%s returns self' % name, okr,
                 "returns self on every path" if okr else
                 "%s does not return self on every path: `a op= b` rebinds a to something else / None" % name)
        # sum and difference merge term by term: every store into self accumulates onto the coefficient already there
        # (two keys of a plain dict can denote one monomial - (0, 1) and (1, 0) - and an existing term is kept)
        if name in ('__iadd__', '__isub__'):
            want = ast.Add if name == '__iadd__' else ast.Sub
            for m in walk_no_nested(strip_docstring(fn.node.body)):
                tg = m.targets if isinstance(m, ast.Assign) else [m.target] if isinstance(m, ast.AugAssign) else []
                for t in tg:
                    if not (isinstance(t, ast.Subscript) and is_name(t.value, sn)):
                        continue
                    if isinstance(m, ast.AugAssign):
                        oka = isinstance(m.op, want)
                    else:
                        v_ = m.value
                        oka = isinstance(v_, ast.BinOp) and isinstance(v_.op, want) and src(v_.left) == src(t)
                    ctx.inst('R05.2', fn, m, oka,
                             "accumulates onto the stored coefficient" if oka else
                             "`%s` in %s does not accumulate (%s=) onto the coefficient already stored under that key: terms of "
                             "the operand that denote one monomial, or a term self already has, are overwritten instead of summed"
                             % (src(m)[:60], name, '+' if want is ast.Add else '-'))
        # loops that write self must iterate a snapshot
        for lp in [n for n in g.stmts() if isinstance(n, ast.For)]:
            writes_self = any(isinstance(m, (ast.Assign, ast.AugAssign)) and any(
                isinstance(t, ast.Subscript) and is_name(t.value, sn)
                for t in (m.targets if isinstance(m, ast.Assign) else [m.target])) for m in ast.walk(lp))
            if not writes_self:
                continue
            it = lp.iter
            live_self = is_name(it, sn) or (isinstance(it, ast.Call) and isinstance(it.func, ast.Attribute)
                                            and is_name(it.func.value, sn) and it.func.attr in ('keys', 'items', 'values'))
            if live_self:
                ctx.inst('R05.2', fn, lp, False,
                         "%s iterates the live view `%s` of self while writing self: a coefficient reaching zero "
                         "deletes a key during iteration" % (name, src(it)))
            elif isinstance(it, ast.Name):
                defs = [v for s_, v in assignments_to(fn.node, it.id) if isinstance(v, ast.AST)]
                snap = bool(defs) and all(_is_snapshot(v) for v in defs)
                ctx.inst('R05.2', fn, lp, snap,
                         "iterates a snapshot `%s`" % it.id if snap else
                         "loop iterable `%s` is bound to `%s`, a live view rather than a snapshot: if the operand "
                         "is self (a op= a) it changes while being iterated" % (it.id, [src(v) for v in defs]))
            elif _is_snapshot(it):
                ctx.inst('R05.2', fn, lp, True, "iterates a snapshot")
            else:
                # iterating other.items() while writing self: only unsafe when the loop deletes; accepted for += / -=
                ctx.inst('R05.2', fn, lp, name in ('__iadd__', '__isub__'),
                         "iterates the other operand's items (read-modify-write of existing keys)" if name in ('__iadd__', '__isub__')
                         else "%s iterates `%s` while writing self" % (name, src(it)), nontrivial=False)
    ip = da.methods.get('__ipow__')
    if ip is not None:
        sn = R.self_name(ip)
        fe = E.effects(ip)
        for n in walk_no_nested(strip_docstring(ip.node.body)):
            if isinstance(n, ast.AugAssign) and is_name(n.target, sn) and isinstance(n.op, ast.Mult):
                st = fe.state_at.get(n, {})
                o = E.origins(n.value, st, ip, 'DictArithmetic', None)
                ok = bool(o) and all(x.startswith('fresh@') for x in o)
                ctx.inst('R05.2', ip, n, ok,
                         "the repeated factor is a copy taken before the loop" if ok else
                         "`%s` multiplies self by an object that may be self itself (%s): after the first "
                         "multiplication the factor is no longer the original base" % (src(n), sorted(o)))
    imul_rules(ctx, 'R05.2')

    # ---------------------------------------------------------------- R05.3
    ds = P.func('DictArithmetic.__setitem__')
    sn = R.self_name(ds)
    g = cfg_of(ds.node)
    keyp, valp = ds.params[1], ds.params[2]
    stores = [n for n in g.stmts() if isinstance(n, (ast.Expr, ast.Assign, ast.Return)) and any(call_name(c) == '__setitem__' and isinstance(c.func.value, ast.Call)
                                          and is_name(c.func.value.func, 'super') for c in calls_in(n))]
    pops = [n for n in g.stmts() if (isinstance(n, (ast.Expr, ast.Assign, ast.Return)) and
                                     any(call_name(c) in ('pop', '__delitem__') for c in calls_in(n)))
            or isinstance(n, ast.Delete)]
    ok = bool(stores) and bool(pops)
    for st in stores:
        facts = []
        for t, pol, o in g.edge_dominators(st):
            facts += compare_atoms(t, pol)
        ok = ok and ('truthy', valp) in facts
    for st in pops:
        facts = []
        for t, pol, o in g.edge_dominators(st):
            facts += compare_atoms(t, pol)
        ok = ok and ('falsy', valp) in facts
    falsy_region = set()
    for n in g.stmts():
        fs = []
        for t, pol, o in g.edge_dominators(n):
            fs += compare_atoms(t, pol)
        if ('falsy', valp) in fs:
            falsy_region.add(n)
    ok = ok and g.must_pass_to_exit(ENTRY, set(stores) | falsy_region)
    ctx.inst('R05.3', ds, 'zero-drop', ok,
             "truthy values stored, falsy values removed, on every path" if ok else
             "DictArithmetic.__setitem__ does not store exactly the truthy values and remove the key for falsy "
             "ones: zero coefficients can be stored (models denoting the same function compare unequal)")
    pm = P.func('PUBOMatrix.__setitem__')
    psn = R.self_name(pm)
    sup = [c for c in calls_in(pm.node, '__setitem__') if isinstance(c.func.value, ast.Call) and is_name(c.func.value.func, 'super')]
    oks = False
    for c in sup:
        a0 = c.args[0] if c.args else None
        if isinstance(a0, ast.Name):
            oks = any(isinstance(v, ast.Call) and call_name(v) == 'squash_key' and
                      src(v.func.value) in ('%s.__class__' % psn, 'type(%s)' % psn, psn)
                      for s_, v in assignments_to(pm.node, a0.id) if isinstance(v, ast.AST))
        elif isinstance(a0, ast.Call) and call_name(a0) == 'squash_key':
            oks = True
    gpm = cfg_of(pm.node)
    oks = oks and bool(sup) and gpm.must_pass_to_exit(ENTRY, {enclosing_stmt(c) for c in sup})
    ctx.inst('R05.3', pm, 'squash before store', oks,
             "the key is canonicalised by the class's squash_key before delegating" if oks else
             "PUBOMatrix.__setitem__ does not delegate the class-squashed key on every path: keys are stored "
             "uncanonicalised")
    gi = P.func('PUBOMatrix.__getitem__')
    okg = any(call_name(c) == 'squash_key' for c in calls_in(gi.node))
    ctx.inst('R05.3', gi, 'squash before lookup', okg,
             "__getitem__ canonicalises the key" if okg else "__getitem__ looks up the raw key")
    dg = P.func('DictArithmetic.__getitem__')
    okd = any(call_name(c) == 'get' and len(c.args) == 2 and const_zero(c.args[1]) for c in calls_in(dg.node))
    ctx.inst('R05.3', dg, 'missing key reads 0', okd, "absent keys read as 0" if okd else
             "DictArithmetic.__getitem__ does not default to 0: `self[k] += v` fails on new keys")
    for c in MODELS:
        chain = []
        after = None
        for _ in range(5):
            m = P.lookup_method(c, '__setitem__', after=after)
            if not isinstance(m, FuncInfo):
                chain.append(m[1] if m else None)
                break
            chain.append(m.qual)
            after = m.cls.name
        want = (['BO.__setitem__'] if 'BO' in P.mro_names(c) else []) + \
            ['PUBOMatrix.__setitem__', 'DictArithmetic.__setitem__', 'dict.__setitem__']
        ctx.inst('R05.3', (P.cls(c).module.relpath, c), '%s.__setitem__ chain' % c, chain == want,
                 ' -> '.join(str(x) for x in chain) if chain == want else
                 "write path of %s is %s, expected %s" % (c, chain, want))
        sk = P.lookup_method(c, 'squash_key')
        kind_spin = c in P.class_kinds()[1]
        want_sk = 'PUSOMatrix.squash_key' if kind_spin else 'PUBOMatrix.squash_key'
        ctx.inst('R05.3', (P.cls(c).module.relpath, c), '%s.squash_key' % c,
                 isinstance(sk, FuncInfo) and sk.qual == want_sk,
                 "canonicalises with %s" % want_sk if isinstance(sk, FuncInfo) and sk.qual == want_sk else
                 "%s canonicalises keys with %s, not the %s form" % (c, getattr(sk, 'qual', sk), 'spin' if kind_spin else 'boolean'))
    # bypasses
    nby = 0
    for fn in P.all_funcs():
        for c in calls_in(fn.node):
            f = c.func
            if not isinstance(f, ast.Attribute):
                continue
            by = None
            if is_name(f.value, 'dict') and f.attr in ('__setitem__', 'update', 'setdefault', '__delitem__', 'pop', '__ior__'):
                by = 'dict.%s' % f.attr
            elif isinstance(f.value, ast.Call) and is_name(f.value.func, 'super') and f.attr in ('__setitem__', 'update', 'setdefault') \
                    and fn.cls is not None and R.is_model_class(fn.cls.name) and fn.name != f.attr:
                by = 'super().%s inside %s' % (f.attr, fn.name)
            elif f.attr == 'setdefault' and fn.cls is not None and R.is_model_class(fn.cls.name) and is_name(f.value, R.self_name(fn) or ''):
                by = 'self.setdefault'
            if by:
                nby += 1
                ctx.inst('R05.3', fn, c, False, "%s stores into a model's dict without canonicalisation / zero-drop" % by)
    ctx.inst('R05.3', ('qubovert', ''), 'no bypass of the write path', nby == 0,
             "no dict.__setitem__ / setdefault / super().__setitem__ outside the overrides", nontrivial=False)

    # ---------------------------------------------------------------- R05.6
    ov = []
    for c in P.subclasses_of('DictArithmetic'):
        for nm in ('__eq__', '__ne__', '__hash__', '__lt__', '__le__', '__gt__', '__ge__'):
            if nm in c.methods:
                ov.append(c.methods[nm])
    for m in ov:
        ctx.inst('R05.6', m, 'def %s' % m.name, False,
                 "%s overrides %s: models with identical canonical terms need no longer compare equal (caches such as "
                 "num_binary_variables are only upper bounds)" % (m.cls.name, m.name))
    ctx.inst('R05.6', (da.module.relpath, 'DictArithmetic'), 'comparison dunders', not ov,
             "comparison is inherited from dict", nontrivial=False)

    # ---------------------------------------------------------------- R05.4
    for c, spin in (('QUBO', False), ('QUSO', True), ('QUBOMatrix', False), ('QUSOMatrix', True)):
        fn = P.cls(c).methods.get('_check_key_valid')
        if fn is None:
            ctx.inst('R05.4', (P.cls(c).module.relpath, c), 'def _check_key_valid', False,
                     "%s no longer checks its keys: terms of degree > 2 are accepted" % c)
            continue
        g = cfg_of(fn.node)
        raises = [n for n in g.stmts() if isinstance(n, ast.Raise) and 'KeyError' in src(n)]
        keyp = fn.all_params[-1]
        ok, why = False, "no KeyError on more than two labels"
        # collect the expression compared with 2
        def _count_of(e):
            """text of what a counting expression counts: len(X) or sum(1 for .. in X if ..); names are followed"""
            e = expand_names(fn.node, e)
            if isinstance(e, ast.Call) and is_name(e.func, 'len') and len(e.args) == 1:
                return src(expand_names(fn.node, e.args[0]))
            if isinstance(e, ast.Call) and is_name(e.func, 'sum') and len(e.args) == 1 and \
                    isinstance(e.args[0], (ast.GeneratorExp, ast.ListComp)) and is_const(e.args[0].elt, 1):
                return src(e.args[0])
            if isinstance(e, ast.Call) and is_name(e.func, 'sum') and len(e.args) == 1 and \
                    isinstance(e.args[0], (ast.GeneratorExp, ast.ListComp)) and not e.args[0].generators[0].ifs and \
                    isinstance(e.args[0].elt, ast.BinOp) and isinstance(e.args[0].elt.op, ast.Mod) and is_const(e.args[0].elt.right, 2) \
                    and '.count(' in src(e.args[0].elt.left):
                return src(e.args[0])          # sum of the parities: the number of labels that occur an odd number of times
            return None
        for n in ast.walk(fn.node):
            text = None
            if isinstance(n, ast.Compare) and len(n.ops) == 1:
                opn = {ast.Gt: '>', ast.GtE: '>=', ast.Lt: '<', ast.LtE: '<='}.get(type(n.ops[0]))
                for lhs_, op_, rhs_ in ((n.left, opn, n.comparators[0]), (n.comparators[0], _SW.get(opn), n.left)):
                    if not op_ or not isinstance(rhs_, ast.Constant):
                        continue
                    t_ = _count_of(lhs_)
                    if t_ is None:
                        continue
                    if (op_, rhs_.value) in (('>', 2), ('>=', 3)):
                        text = t_
                    elif (op_, rhs_.value) in (('<=', 2), ('<', 3)):
                        # the accepting spelling: `if len(..) <= 2: return` with the raise on the other path
                        owner = enclosing_stmt(n)
                        if isinstance(owner, ast.If) and any(isinstance(x, ast.Return) for x in owner.body) \
                                and not any(isinstance(x, ast.Raise) for b_ in owner.body for x in ast.walk(b_)):
                            text = t_
            if text is not None:
                if spin:
                    okk = ('.count(' in text and '% 2' in text) or 'PUSOMatrix.squash_key' in text or 'QUSOMatrix.squash_key' in text
                    why = "counts the labels that survive spin parity" if okk else \
                        "the spin class %s counts `%s`: labels that cancel (z*z = 1) are counted, so valid " \
                        "quadratic spin products are rejected" % (c, text)
                else:
                    okk = 'set(%s)' % keyp in text or 'PUBOMatrix.squash_key' in text or 'QUBOMatrix.squash_key' in text
                    why = "counts distinct labels" if okk else "the boolean class %s counts `%s`" % (c, text)
                ok = okk and bool(raises)
        ctx.inst('R05.4', fn, raises[0] if raises else 'raise KeyError', ok, why)

    # ---------------------------------------------------------------- R05.5
    for c, kind in KIND.items():
        for meth, callee, shape in (('value', '%s_value' % kind, 'value'),
                                    ('solve_bruteforce', 'solve_%s_bruteforce' % kind, 'solve')):
            fn = P.cls(c).methods.get(meth)
            if fn is None:
                ctx.inst('R05.5', (P.cls(c).module.relpath, c), 'def %s' % meth, False,
                         "%s.%s vanished: the inherited method evaluates with another kind's function" % (c, meth))
                continue
            sn = R.self_name(fn)
            cs = [x for x in calls_in(fn.node) if isinstance(x.func, ast.Name) and
                  (x.func.id.endswith('_value') or x.func.id.endswith('_bruteforce'))]
            ok = len(cs) == 1 and cs[0].func.id == callee
            if ok and shape == 'value':
                ok = len(cs[0].args) == 2 and is_name(cs[0].args[0], fn.params[1]) and is_name(cs[0].args[1], sn)
            if ok and shape == 'solve':
                a = cs[0].args
                ok = len(a) == 3 and is_name(a[0], sn) and is_name(a[1], fn.params[1]) and \
                    src(a[2]) == '%s.is_solution_valid' % sn
                rets = [n for n in walk_no_nested(strip_docstring(fn.node.body)) if isinstance(n, ast.Return)]
                ok = ok and any(isinstance(r.value, ast.Subscript) and r.value.value is cs[0] and is_const(r.value.slice, 1) for r in rets)
            ctx.inst('R05.5', fn, cs[0] if cs else 'def %s' % meth, ok,
                     "%s.%s -> %s with the documented arguments" % (c, meth, callee) if ok else
                     "%s.%s does not call %s(%s): wrong kind, argument order, validity predicate or result component"
                     % (c, meth, callee, 'x, self' if shape == 'value' else 'self, all_solutions, self.is_solution_valid)[1]'))


def const_zero(e):
    return isinstance(e, ast.Constant) and e.value == 0 and not isinstance(e.value, bool)


def thorough_rules(ctx):
    """R05.1 / R05.2 re-evaluated with every concrete model class as the
    receiver (copy constructors, __setitem__ chains and clear() differ per
    class)."""
    P, R = ctx.prog, ctx.res
    ctx.rule('R05.1c', "R05.1/R05.2 in every receiver context (10 model classes)", floor=100)
    da = P.cls('DictArithmetic')
    for c in MODELS:
        E = Effects(P, R, context=c)
        E.build()
        for name in PURE + INPLACE:
            m = P.lookup_method(c, name)
            if not hasattr(m, 'node'):
                continue
            s_ = E.summary(m)
            sn = R.self_name(m)
            if name in PURE:
                bad = sorted(s_['mut'])
                alias = sorted(o for o in s_['ret'] if root(o).startswith('param:') and not o.startswith('elem:'))
                ctx.inst('R05.1c', m, '%s.%s' % (c, name), not bad and not alias,
                         "operands unchanged, fresh result" if not bad and not alias else
                         "with receiver %s, %s %s" % (c, m.qual, ('may mutate %s' % bad) if bad else ('can return %s' % alias)))
            else:
                others = sorted(p_ for p_ in s_['mut'] if p_ != sn)
                ctx.inst('R05.1c', m, '%s.%s' % (c, name), not others,
                         "only self is written" if not others else "with receiver %s, %s may mutate %s" % (c, m.qual, others))


def canonical_order(ctx, rid):
    """Keys are stored in one canonical order for every mix of label types: each sort of labels inside a squash_key
    implementation uses key=ordering_key (plain comparison orders 1 < 2.5 but fails - or is skipped - once a str joins)."""
    P = ctx.prog
    n = 0
    for c in P.subclasses_of('DictArithmetic'):
        m = c.methods.get('squash_key')
        if m is None:
            continue
        calls = [x for x in calls_in(m.node) if is_name(x.func, 'sorted') or (isinstance(x.func, ast.Attribute) and x.func.attr == 'sort')]
        for x in calls:
            n += 1
            k = [kw.value for kw in x.keywords if kw.arg == 'key']
            ok = bool(k) and is_name(k[0], 'ordering_key')
            ctx.inst(rid, m, x, ok,
                     "labels sorted with ordering_key" if ok else
                     "`%s` sorts labels without key=ordering_key: the stored order of a key then depends on which other label "
                     "types it contains, so equal terms are stored under different keys (and partial keys stop matching)"
                     % src(x)[:60])
    if not n:
        raise AnalysisError("canonical_order: no sort found in any squash_key")
    # no path hands the key back as it was given (a "this key is already sorted" shortcut decides by the labels' own `<`, which
    # is not the canonical order for labels of different but comparable types, and keeps what the spin parity would cancel)
    for c in P.subclasses_of('DictArithmetic'):
        m = c.methods.get('squash_key')
        if m is None:
            continue
        kp = m.all_params[-1]
        raw = [r for r in ast.walk(m.node) if isinstance(r, ast.Return) and r.value is not None and is_name(expand_names(m.node, r.value), kp)]
        ctx.inst(rid, m, raw[0] if raw else 'returns of %s.squash_key' % c.name, not raw,
                 "every return is the canonicalised key" if not raw else
                 "`%s` returns the key as it was given: equal terms written with labels in another order (or of comparable but "
                 "different types) are stored under different keys" % src(raw[0])[:60])
    # the key itself: (something of the label's type only, the label itself) - labels of one type keep their natural order
    ok_fn = P.func('_ordering_key.ordering_key')
    x = ok_fn.params[0]
    rets = [r for r in walk_no_nested(strip_docstring(ok_fn.node.body)) if isinstance(r, ast.Return)]
    ok = bool(rets)
    why = ''
    for r in rets:
        v = expand_names(ok_fn.node, r.value) if r.value is not None else None
        if not (isinstance(v, ast.Tuple) and len(v.elts) >= 2 and is_name(v.elts[-1], x)):
            ok, why = False, "`%s` does not end in the label itself" % (src(v) if v is not None else None)
            continue
        for e in v.elts[:-1]:
            typed = set()
            for par in ast.walk(e):
                if isinstance(par, ast.Call) and is_name(par.func, 'type') and len(par.args) == 1 and is_name(par.args[0], x):
                    typed.add(id(par.args[0]))
                if isinstance(par, ast.Attribute) and par.attr == '__class__' and is_name(par.value, x):
                    typed.add(id(par.value))
            if any(isinstance(nm, ast.Name) and nm.id == x and id(nm) not in typed for nm in ast.walk(e)):
                ok, why = False, "leading component `%s` depends on the label's value" % src(e)
    ctx.inst(rid, ok_fn, rets[0] if rets else 'def ordering_key', ok,
             "ordering_key(x) = (type of x, x): labels of one type sort in their natural order" if ok else
             "ordering_key is not (a function of type(x), x): %s - labels of one type are no longer stored in their natural "
             "sorted order (e.g. 10 before 2 by text), so results are not the canonical sorted dict" % why)


def inplace_validation(ctx, rid):
    """The in-place power is an entry point of its own (`a **= k`): it rejects exponents that are not positive integers
    itself - the non-in-place form only copies and delegates to it."""
    P, R = ctx.prog, ctx.res
    fn = P.func('DictArithmetic.__ipow__')
    ex = fn.params[1]
    g = cfg_of(fn.node)
    good = []
    for n in g.stmts():
        if not isinstance(n, ast.Raise):
            continue
        for t, pol, o in g.edge_dominators(n):
            if not pol:
                continue
            parts = t.values if isinstance(t, ast.BoolOp) and isinstance(t.op, ast.Or) else [t]
            for pt in parts:
                atoms = compare_atoms(pt, True)
                if (ex, '<=', '0') in atoms or (ex, '<', '1') in atoms:
                    good.append(n)
    rets = [n for n in g.stmts() if isinstance(n, ast.Return)]
    ok = bool(good) and bool(rets)
    ctx.inst(rid, fn, good[0] if good else 'def __ipow__', ok,
             "__ipow__ raises for exponents <= 0 itself" if ok else
             "__ipow__ does not reject non-positive exponents itself: `a **= 0` (or a negative / fractional exponent) silently "
             "returns a unchanged instead of raising, while a ** 0 raises")


_SW = {'<': '>', '>': '<', '<=': '>=', '>=': '<=', '==': '==', '!=': '!='}


def imul_rules(ctx, rid):
    """Structure of the model-by-model product in DictArithmetic.__imul__ (also a premise of the sat builders)."""
    P, R = ctx.prog, ctx.res
    da = P.cls('DictArithmetic')
    im = da.methods.get('__imul__')
    if im is not None:
        sn = R.self_name(im)
        g = cfg_of(im.node)
        clears = [n for n in g.stmts() if isinstance(n, ast.Expr) and isinstance(n.value, ast.Call)
                  and call_name(n.value) == 'clear']
        # the dict branch: statements dominated by isinstance(other, dict) true edge
        oth = im.params[1]
        # the operand is the operand throughout: rebinding it (other than to a copy / snapshot of itself) decides the product
        # from a reading of its own (e.g. "a dict with only a constant is that scalar" - and what is the empty dict?)
        reb = [n for n in ast.walk(im.node) if isinstance(n, ast.Assign) and any(is_name(t, oth) for t in n.targets)]
        okreb = True
        for n in reb:
            v = n.value
            copyish = (isinstance(v, ast.Call) and ((isinstance(v.func, ast.Attribute) and v.func.attr == 'copy' and is_name(v.func.value, oth)) or
                                                    (len(v.args) == 1 and is_name(v.args[0], oth) and not v.keywords and
                                                     src(v.func).split('.')[-1] in ('dict', 'type(%s)' % oth, '__class__'))))
            if not copyish:
                okreb = False
        ctx.inst(rid, im, reb[0] if reb else 'operand of __imul__', okreb,
                 "the right operand is used as given" if okreb else
                 "`%s` replaces the right operand of the product by a value derived from it: the shortcut's reading of degenerate "
                 "operands (an empty dict is the zero polynomial, not 1) then decides the product" % src([n for n in reb][0])[:70])
        dict_loops = []
        for lp in [n for n in g.stmts() if isinstance(n, ast.For)]:
            facts = []
            for t, pol, o in g.edge_dominators(lp):
                facts += compare_atoms(t, pol)
            if ('truthy', 'isinstance(%s, dict)' % oth) in facts and parent(lp) is not None and \
                    not isinstance(parent(lp), ast.For):
                dict_loops.append(lp)
        if not dict_loops:
            raise AnalysisError("__imul__: product loop under isinstance(other, dict) not found")
        for lp in dict_loops:
            ok = bool(clears) and g.dominates(clears, lp)
            ctx.inst(rid, im, 'clear before product', ok,
                     "self is emptied on every path into the product loop" if ok else
                     "the product loop can be reached without self having been emptied (or self is never emptied): "
                     "old terms survive in the product")
            # snapshots taken before the clear
            names = {n.id for n in ast.walk(lp) if isinstance(n, ast.Name)} & \
                {it.id for it in [l.iter for l in ast.walk(lp) if isinstance(l, ast.For)] if isinstance(it, ast.Name)}
            for nm in sorted(names):
                for s_, v in assignments_to(im.node, nm):
                    if not isinstance(v, ast.AST):
                        continue
                    okb = all(g.dominates([s_], c) and not g.reaches(c, s_) for c in clears) if clears else False
                    ctx.inst(rid, im, '%s snapshot before clear' % nm, okb and _is_snapshot(v),
                             "snapshot `%s` taken before self is emptied" % nm if okb and _is_snapshot(v) else
                             "`%s = %s` is not a snapshot taken before self is emptied: with other is self the "
                             "product is computed from an already emptied operand" % (nm, src(v)))
        # product terms accumulate: distinct factor pairs collapse onto one canonical key (x*x = x, key order), so every
        # store of a product term into self is `+=`
        stores = []
        for n in g.stmts():
            if isinstance(n, (ast.Assign, ast.AugAssign)):
                for t in (n.targets if isinstance(n, ast.Assign) else [n.target]):
                    if isinstance(t, ast.Subscript) and is_name(t.value, sn):
                        facts = []
                        for t_, pol, o in g.edge_dominators(n):
                            facts += compare_atoms(t_, pol)
                        if ('truthy', 'isinstance(%s, dict)' % oth) in facts:
                            stores.append(n)
            if isinstance(n, ast.Expr) and isinstance(n.value, ast.Call) and isinstance(n.value.func, ast.Attribute) \
                    and n.value.func.attr in ('__setitem__', 'update', 'setdefault') and (
                        is_name(n.value.func.value, sn) or src(n.value.func.value).startswith('super(')):
                facts = []
                for t_, pol, o in g.edge_dominators(n):
                    facts += compare_atoms(t_, pol)
                if ('truthy', 'isinstance(%s, dict)' % oth) in facts:
                    stores.append(n)
        for n in stores:
            ok = isinstance(n, ast.AugAssign) and isinstance(n.op, (ast.Add, ast.Sub))
            ctx.inst(rid, im, n, ok,
                     "product term accumulated with %s" % ('+=' if ok and isinstance(n.op, ast.Add) else '-=') if ok else
                     "`%s` stores a product term without accumulating: two factor pairs whose keys collapse onto the same "
                     "canonical key (x*x = x, reordered labels) overwrite each other" % src(n)[:60])
        if not stores:
            ctx.inst(rid, im, 'product stores', False, "no store of product terms into self found in the model-operand branch")
        # every path of the dict branch passes the clear: no early return between the isinstance test and clear
        for t, pol, o in [(t, pol, o) for lp in dict_loops[:1] for t, pol, o in g.edge_dominators(lp)]:
            if pol and src(t) == 'isinstance(%s, dict)' % oth:
                body_first = o.body[0]
                ok = g.must_pass_to_exit(body_first, set(clears)) if clears else False
                ctx.inst(rid, im, 'dict branch always clears', ok,
                         "every path through the model-operand branch empties self before returning" if ok else
                         "a path through the model-operand branch returns without emptying self: multiplying by "
                         "an empty model leaves self unchanged instead of zero")



def derived_from_copy(ctx, rid):
    """The non-in-place binary operators build their result from self.copy() on every path (type of the model
    operand; for PCBO/PCSO the copy constructor carries the ancilla counter and the recorded constraints over)."""
    P, R = ctx.prog, ctx.res
    da = P.cls('DictArithmetic')
    for name in ('__add__', '__sub__', '__mul__', '__pow__', '__truediv__', '__floordiv__'):
        fn = da.methods.get(name)
        if fn is None:
            continue
        sn = R.self_name(fn)
        rets = [n for n in walk_no_nested(strip_docstring(fn.node.body)) if isinstance(n, ast.Return)]
        ok = bool(rets)
        why = ''
        for r in rets:
            if isinstance(r.value, ast.Name):
                defs = [v for s_, v in assignments_to(fn.node, r.value.id)]
                plain = [v for v in defs if isinstance(v, ast.AST)]
                good = [v for v in plain if isinstance(v, ast.Call) and src(v) in (
                    '%s.copy()' % sn, '%s.__class__(%s)' % (sn, sn), 'type(%s)(%s)' % (sn, sn))]
                if not plain or len(good) != len(plain):
                    ok = False
                    why = [src(v) for v in plain if v not in good][:1]
            elif isinstance(r.value, ast.BinOp) or isinstance(r.value, ast.Call):
                # delegating forms such as `return self + other` / `return -1 * self + other` are built from operators
                # that are themselves checked here
                continue
            else:
                ok = False
                why = [src(r.value)]
        ctx.inst(rid, fn, 'def %s' % name, ok,
                 "result is built from self.copy() on every path" if ok else
                 "%s builds its result from %s instead of self.copy(): the result of arithmetic on a PCBO/PCSO loses the "
                 "ancilla counter and the recorded constraints (and the type guarantee rests on copy())" % (name, why))
        # the in-place operator is applied to the copy on every path that returns it (a shortcut that returns the bare
        # copy is only neutral for + and - with a falsy operand)
        g = cfg_of(fn.node)
        OPS = {'__add__': ast.Add, '__sub__': ast.Sub, '__mul__': ast.Mult, '__pow__': ast.Pow, '__truediv__': ast.Div,
               '__floordiv__': ast.FloorDiv}
        oth = fn.params[1] if len(fn.params) > 1 else None
        for r in [x for x in g.stmts() if isinstance(x, ast.Return) and isinstance(x.value, ast.Name)]:
            applied = [n for n in g.stmts() if isinstance(n, ast.AugAssign) and is_name(n.target, r.value.id)
                       and isinstance(n.op, OPS[name]) and is_name(n.value, oth)]
            if not applied:
                continue
            okp = g.dominates(applied, r)
            if not okp and name in ('__add__', '__sub__'):
                facts = []
                for t_, pol_, o_ in g.edge_dominators(r):
                    facts += compare_atoms(t_, pol_)
                okp = ('falsy', oth) in facts
            ctx.inst(rid, fn, r, okp,
                     "the copy is returned after `%s`" % src(applied[0]) if okp else
                     "%s can return the bare copy of self without applying `%s`: for that operand the result is self instead of "
                     "the %s" % (name, src(applied[0]), {'__mul__': 'product (an empty model is the constant 0)'}.get(name, 'result')))
