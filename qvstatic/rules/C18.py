"""C18 - substitution and scaling utilities.  Rules R18.1 - R18.6 (DESIGN 4.18)."""
import ast

from ..pymodel import AnalysisError, FuncInfo, parent
from ..astutil import (expand_names, src, is_name, is_const, const_num, call_name, walk_no_nested, strip_docstring,
                       compare_atoms, enclosing_stmt, calls_in, names_in, assignments_to)
from ..cfg import cfg_of, ENTRY, EXIT
from ..effects import Effects, root

EXPLANATION = (
    "Decides for subgraph, subvalue and normalize (functions and methods): the result is created "
    "by the argument's own type; kept and folded labels are selected by one predicate and its "
    "negation over the same key; the folded coefficient is accumulated onto the result's previous "
    "value at the reduced key (distinct source keys may collapse); only subgraph skips the "
    "constant and absent connections default to the literal 0; normalize multiplies every "
    "coefficient by one loop-invariant factor value / max(abs(.)); the methods delegate with self; "
    "arguments are never modified.")
NOT_DECIDED = "numerical equality of the folded coefficients / of the scaled maximum."
TRUSTED = ["numpy.prod of the fixed labels' values"]


def _filters(fn, loop, keyvar):
    """(kept filter, folded filter) lambdas: filter(lambda x: PRED, k)"""
    out = []
    for n in ast.walk(loop):
        if isinstance(n, ast.Call) and is_name(n.func, 'filter') and len(n.args) == 2 and \
                isinstance(n.args[0], ast.Lambda) and src(n.args[1]) == keyvar:
            lam = n.args[0]
            out.append((n, lam.args.args[0].arg, lam.body))
        if isinstance(n, (ast.GeneratorExp, ast.ListComp)) and len(n.generators) == 1 and \
                src(n.generators[0].iter) == keyvar and len(n.generators[0].ifs) == 1 and \
                src(n.generators[0].target) in {x.id for x in ast.walk(n.elt) if isinstance(x, ast.Name)}:
            out.append((n, src(n.generators[0].target), n.generators[0].ifs[0]))
    return out


def rules(ctx):
    P, R = ctx.prog, ctx.res
    from .C14 import no_module_state
    ctx.rule('R18.7', "no function writes module-level state (memo / registry): results independent of earlier calls", floor=1)
    no_module_state(ctx, 'R18.7')
    from .C14 import derived_fields as _df
    _df(ctx, 'R18.7')      # ... nor keeps derived state on a model that some mutator forgets (stale memo)
    ctx.rule('R18.8', "squash_key sorts labels with ordering_key on every path: subgraph / subvalue look partial keys up by their canonical form", floor=2)
    from .C05 import canonical_order
    canonical_order(ctx, 'R18.8')
    E = Effects(P, R)
    E.build()
    ctx.rule('R18.1', "results are created by type(arg)(); methods delegate with self", floor=5)
    ctx.rule('R18.2', "kept and folded labels: one predicate and its negation over the same key", floor=2)
    ctx.rule('R18.3', "the stored value includes the result's previous value at the reduced key", floor=2)
    ctx.rule('R18.4', "only subgraph skips the constant; absent connections default to 0", floor=3)
    ctx.rule('R18.5', "normalize: one loop-invariant factor value / max(abs(.)), every coefficient factor * v", floor=4)
    ctx.rule('R18.6', "arguments are not modified", floor=3)
    sg = P.func('_subgraph.subgraph')
    sv = P.func('_subgraph.subvalue')
    nz = P.func('_normalize.normalize')
    for fn, gname in ((sg, sg.params[0]), (sv, sv.params[1]), (nz, nz.params[0])):
        rets = [n for n in walk_no_nested(strip_docstring(fn.node.body)) if isinstance(n, ast.Return)]
        ok = bool(rets)
        for r in rets:
            rv = src(r.value)
            defs = [v for s_, v in assignments_to(fn.node, rv) if isinstance(v, ast.AST)]
            ok = ok and bool(defs) and all(src(v) in ('type(%s)()' % gname, '%s.__class__()' % gname) for v in defs)
        ctx.inst('R18.1', fn, rets[0] if rets else 'return', ok,
                 "result constructed as type(%s)()" % gname if ok else
                 "%s does not create its result with type(%s)(): the result type differs from the argument's" % (fn.name, gname))
        s = E.summary(fn)
        ctx.inst('R18.6', fn, 'arguments of %s' % fn.name, not s['mut'],
                 "no argument is mutated" if not s['mut'] else "%s may mutate %s" % (fn.name, sorted(s['mut'])))
    da = P.cls('DictArithmetic')
    for mname, target, order in (('subgraph', 'subgraph', ['self', 1, 2]), ('subvalue', 'subvalue', [1, 'self'])):
        m = da.methods.get(mname)
        ok = False
        if m is not None:
            sn = R.self_name(m)
            for c in calls_in(m.node, target):
                want = [sn if o == 'self' else m.params[o] for o in order]
                ok = [src(a) for a in c.args] == want and isinstance(c.func, ast.Name)
        ctx.inst('R18.1', m or (da.module.relpath, 'DictArithmetic'), 'def %s' % mname, ok,
                 "method delegates to the function with self" if ok else
                 "DictArithmetic.%s does not delegate to %s with self in the model position" % (mname, target))

    # subgraph / subvalue loops
    for fn, gname, fixed_src, is_sub in ((sg, sg.params[0], sg.params[2], True), (sv, sv.params[1], sv.params[0], False)):
        g = cfg_of(fn.node)
        loops = [n for n in g.stmts() if isinstance(n, ast.For) and src(n.iter) == '%s.items()' % gname]
        if not loops:
            raise AnalysisError("%s: loop over %s.items() not found" % (fn.name, gname))
        lp = loops[0]
        kv, vv = [src(e) for e in lp.target.elts]
        fl = _filters(fn, lp, kv)
        res = None
        for r in [n for n in g.stmts() if isinstance(n, ast.Return)]:
            res = src(r.value)
        # R18.2
        if len(fl) != 2:
            ctx.inst('R18.2', fn, lp, False, "expected one filter for the kept and one for the folded labels, found %d" % len(fl))
        else:
            (n1, a1, p1), (n2, a2, p2) = fl
            f1 = compare_atoms(p1, True)
            f2neg = compare_atoms(p2, False)
            ren = lambda fs, a: sorted((f[0].replace(a, '_'), f[1], f[2]) if len(f) == 3 else f for f in fs)
            ok = ren(f1, a1) == ren(f2neg, a2) and bool(f1)
            # and the kept one builds the key, the other feeds the product
            ctx.inst('R18.2', fn, n2, ok,
                     "complementary predicates %s / %s" % (src(p1), src(p2)) if ok else
                     "the predicates selecting kept labels (`%s`) and folded labels (`%s`) are not complements: a "
                     "label is both kept and folded, or neither" % (src(p1), src(p2)))
        # R18.3: value includes D.get(key, 0) / D[key]
        stores = [n for n in ast.walk(lp) if isinstance(n, (ast.Assign, ast.AugAssign)) and any(
            isinstance(t, ast.Subscript) and is_name(t.value, res or '') for t in (n.targets if isinstance(n, ast.Assign) else [n.target]))]
        if not stores:
            ctx.inst('R18.3', fn, lp, False, "no store into the result")
        for st in stores:
            t = st.targets[0] if isinstance(st, ast.Assign) else st.target
            key = src(t.slice)
            ok = isinstance(st, ast.AugAssign) and isinstance(st.op, ast.Add)
            if isinstance(st, ast.Assign):
                vname = src(st.value)
                texts = [vname] + [src(v) if isinstance(v, ast.AST) else src(v[2]) if isinstance(v, tuple) and len(v) == 3 else ''
                                   for s_, v in assignments_to(fn.node, vname)] if isinstance(st.value, ast.Name) else [vname]
                ok = any(('%s.get(%s, 0)' % (res, key)) in t_ or ('%s[%s]' % (res, key)) in t_ for t_ in texts)
            ctx.inst('R18.3', fn, st, ok,
                     "read-modify-write of the reduced key" if ok else
                     "the store under the reduced key `%s` overwrites the previous value: source terms that collapse "
                     "onto one key are lost" % key)
        # the accumulation must be unconditional: it dominates every store / removal of the reduced key
        accs = [n for n in ast.walk(lp) if isinstance(n, (ast.AugAssign, ast.Assign)) and
                ('%s.get(' % res in src(n) or '%s[' % res in src(getattr(n, 'value', n)))
                and not any(isinstance(t, ast.Subscript) and is_name(t.value, res or '')
                            for t in (n.targets if isinstance(n, ast.Assign) else [n.target]))]
        sinks = stores + [n for n in ast.walk(lp) if isinstance(n, ast.Expr) and isinstance(n.value, ast.Call)
                          and call_name(n.value) == 'pop' and is_name(n.value.func.value, res or '')]
        if accs and sinks:
            okd = all(any(g.dominates([a], k_) for a in accs) for k_ in sinks)
            ctx.inst('R18.3', fn, accs[0], okd,
                     "the previous value is added before the store/removal decision on every path" if okd else
                     "the previous value of the reduced key is added only on some paths (`%s` is conditional): on the "
                     "other paths the store/removal discards what was accumulated before" % src(accs[0]))
        # every complete iteration either stores the reduced key or removes it (zero-drop of the accumulated value)
        for path in g.iteration_paths(lp):
            if path[-1][0] is not lp:
                continue
            facts = []
            touched = False
            for node, lab in path:
                if lab and lab[0] not in ('iter', 'exc'):
                    facts += compare_atoms(lab[0], lab[1])
                if node in stores:
                    touched = True
                if isinstance(node, ast.Expr) and isinstance(node.value, ast.Call) and call_name(node.value) in ('pop', '__delitem__') \
                        and is_name(node.value.func.value, res or ''):
                    # the removal must address the same (reduced) key the stores use
                    skeys = {src((st.targets[0] if isinstance(st, ast.Assign) else st.target).slice) for st in stores}
                    if node.value.args and src(node.value.args[0]) in skeys:
                        touched = True
                if isinstance(node, ast.Delete):
                    skeys = {src((st.targets[0] if isinstance(st, ast.Assign) else st.target).slice) for st in stores}
                    if any(isinstance(t_, ast.Subscript) and src(t_.slice) in skeys for t_ in node.targets):
                        touched = True
            if ('falsy', kv) in facts and is_sub:
                continue          # the constant term skipped by subgraph
            if not touched:
                ctx.inst('R18.3', fn, 'iteration path under %s' % [f for f in facts if f[0] in ('truthy', 'falsy')][-2:], False,
                         "an iteration ends without storing or removing the reduced key: a value accumulated earlier under "
                         "that key stays although the terms now cancel")
                break
        else:
            ctx.inst('R18.3', fn, 'every iteration stores or removes the reduced key', True, "store / removal on every path")
        # R18.4 constant handling
        skips = [n for n in ast.walk(lp) if isinstance(n, ast.Continue)]
        sk = False
        for c in skips:
            facts = []
            for t, pol, o in g.edge_dominators(c):
                facts += compare_atoms(t, pol)
            if ('falsy', kv) in facts:
                sk = True
        if is_sub:
            ctx.inst('R18.4', fn, skips[0] if skips else 'constant skipped', sk,
                     "subgraph skips the constant term" if sk else "subgraph keeps the constant term (documented: without constant)")
            gets = [c for c in calls_in(lp, 'get') if is_name(c.func.value, fixed_src)]
            okd = bool(gets) and all(len(c.args) == 2 and const_num(c.args[1]) == 0 for c in gets)
            ctx.inst('R18.4', fn, gets[0] if gets else 'connections.get(i, 0)', okd,
                     "absent connections default to 0" if okd else
                     "labels outside `nodes` without a connection do not default to 0")
        else:
            ctx.inst('R18.4', fn, skips[0] if skips else 'constant kept', not sk,
                     "subvalue keeps the constant term" if not sk else "subvalue drops the constant term")
    # normalize
    for fn, tgt in ((nz, None), (da.methods.get('normalize'), 'self')):
        if fn is None:
            ctx.inst('R18.5', (da.module.relpath, 'DictArithmetic'), 'def normalize', False, "method vanished")
            continue
        g = cfg_of(fn.node)
        src_name = nz.params[0] if tgt is None else R.self_name(fn)
        valp = fn.params[1]
        loops = [n for n in g.stmts() if isinstance(n, ast.For)]
        facs = [(n_, expand_names(fn.node, n_.value)) for n_ in walk_no_nested(strip_docstring(fn.node.body)) if isinstance(n_, ast.Assign)
                and len(n_.targets) == 1 and isinstance(n_.targets[0], ast.Name) and isinstance(n_.value, ast.BinOp)
                and isinstance(n_.value.op, ast.Div) and 'max(' in src(expand_names(fn.node, n_.value.right))]
        if not facs:
            # the divisor is a name built up in several steps (m = max(..); if c: m = max(m, ..)): decide it by its definitions
            cand = [n_ for n_ in walk_no_nested(strip_docstring(fn.node.body)) if isinstance(n_, ast.Assign) and len(n_.targets) == 1
                    and isinstance(n_.targets[0], ast.Name) and isinstance(n_.value, ast.BinOp) and isinstance(n_.value.op, ast.Div)
                    and src(n_.value.left) == valp and isinstance(n_.value.right, ast.Name)]
            if cand and loops:
                dn = cand[0].value.right.id
                defs = [v_ for s2, v_ in assignments_to(fn.node, dn) if isinstance(v_, ast.AST)]
                bad = []
                full = False
                for v_ in defs:
                    if not (isinstance(v_, ast.Call) and is_name(v_.func, 'max')):
                        bad.append("`%s = %s` is not a max(..)" % (dn, src(v_)[:50]))
                        continue
                    inabs = {id(x) for a_ in ast.walk(v_) if isinstance(a_, ast.Call) and is_name(a_.func, 'abs') for x in ast.walk(a_)}
                    coefvars = set()
                    for ge in ast.walk(v_):
                        if isinstance(ge, (ast.GeneratorExp, ast.ListComp)):
                            for gen in ge.generators:
                                it = src(gen.iter)
                                if it == '%s.values()' % src_name and isinstance(gen.target, ast.Name):
                                    coefvars.add(gen.target.id)
                                    full = full or not gen.ifs
                                elif it == '%s.items()' % src_name and isinstance(gen.target, ast.Tuple) and len(gen.target.elts) == 2:
                                    coefvars.add(src(gen.target.elts[1]))
                                    full = full or not gen.ifs
                    for x in ast.walk(v_):
                        raw = (isinstance(x, ast.Name) and x.id in coefvars and isinstance(x.ctx, ast.Load)) or \
                              (isinstance(x, ast.Call) and isinstance(x.func, ast.Attribute) and x.func.attr == 'get' and is_name(x.func.value, src_name)) or \
                              (isinstance(x, ast.Subscript) and is_name(x.value, src_name))
                        if raw and id(x) not in inabs:
                            bad.append("`%s` enters the maximum without abs()" % src(x)[:40])
                if not bad and not full:
                    const_sep = any('abs(' in src(v_) and ('%s.get(()' % src_name in src(v_) or '%s[()]' % src_name in src(v_)) for v_ in defs)
                    # guards that hold for the default value of an optional parameter (a new option left at its default)
                    a_ = fn.node.args
                    pos = a_.posonlyargs + a_.args
                    dflt = {p_.arg: d_ for p_, d_ in zip(pos[len(pos) - len(a_.defaults):], a_.defaults)}
                    dflt.update({p_.arg: d_ for p_, d_ in zip(a_.kwonlyargs, a_.kw_defaults) if d_ is not None})

                    def by_default(t, pol):
                        neg = False
                        while isinstance(t, ast.UnaryOp) and isinstance(t.op, ast.Not):
                            t, neg = t.operand, not neg
                        if isinstance(t, ast.Name) and t.id in dflt and isinstance(dflt[t.id], ast.Constant):
                            return bool(dflt[t.id].value) == (pol != neg)
                        return False
                    uncond = all(all(by_default(t, pol) for t, pol, o in g.edge_dominators(s2))
                                 for s2, v_ in assignments_to(fn.node, dn) if isinstance(v_, ast.AST))
                    if not (const_sep and uncond):
                        bad.append("not every coefficient takes part in the maximum on every path")
                ctx.inst('R18.5', fn, cand[0], not bad,
                         "factor = value / (maximum of abs over all coefficients, built in steps)" if not bad else
                         "scaling factor `%s`: %s - the largest magnitude of the result need not equal the requested value"
                         % (src(cand[0].value), '; '.join(bad[:2])))
                if bad:
                    continue
                facs = [(cand[0], ast.BinOp(left=cand[0].value.left, op=ast.Div(), right=ast.parse('max(abs(v) for v in %s.values())' % src_name, mode='eval').body))]
        if (not facs or not loops) and tgt == 'self':
            # the method may delegate to the module-level function: then the requested value must be handed on
            dcalls = [c for c in calls_in(fn.node, 'normalize') if isinstance(c.func, ast.Name) and c.args and is_name(c.args[0], src_name)]
            if dcalls:
                from ..astutil import bind_args
                b = bind_args(dcalls[0], nz)
                okf = nz.params[1] in b and is_name(b[nz.params[1]], valp)
                ctx.inst('R18.5', fn, dcalls[0], okf,
                         "delegates to normalize(self, value)" if okf else
                         "the method delegates to normalize() without its `%s` argument: the model is always scaled to the "
                         "function's default" % valp)
                continue
        if not facs or not loops:
            raise AnalysisError("normalize (%s): factor / loop not recognised" % fn.qual)
        s_, v = facs[0]
        fname = src(s_.targets[0])
        okf = src(v.left) == valp and isinstance(v.right, ast.Call) and is_name(v.right.func, 'max') and \
            'abs(' in src(v.right) and ('%s.values()' % src_name in src(v.right) or '%s.items()' % src_name in src(v.right)
                                         or src_name in names_in(v.right))
        # every coefficient takes part in the maximum: the generator is not filtered
        if okf and any(gen.ifs for ge in ast.walk(v.right) if isinstance(ge, (ast.GeneratorExp, ast.ListComp, ast.SetComp)) for gen in ge.generators):
            okf = False
        inloop = any(x is s_ for l in loops for x in ast.walk(l))
        ctx.inst('R18.5', fn, s_, okf and not inloop,
                 "factor = value / max(abs(coefficient)) computed once outside the loop" if okf and not inloop else
                 "scaling factor `%s` is not value / max(abs(v) for all coefficients) computed once before the loop" % src(v))
        lp = loops[0]
        # every path of a non-empty model passes the scaling loop
        bypass = []
        for path in g.paths(ENTRY, (EXIT,), limit=500):
            nodes = [n for n, lab in path]
            if lp in nodes:
                continue
            facts = []
            for n, lab in path:
                if lab and lab[0] not in ('iter', 'exc'):
                    facts += compare_atoms(lab[0], lab[1])
            if ('falsy', src_name) not in facts:
                bypass.append(facts)
        ctx.inst('R18.5', fn, 'scaling is unconditional', not bypass,
                 "every path of a non-empty model rescales all coefficients" if not bypass else
                 "a path under %s returns without rescaling a non-empty model: the largest magnitude need not equal "
                 "the requested value" % [f for f in bypass[0] if f][:3])
        st = [n for n in ast.walk(lp) if isinstance(n, (ast.Assign, ast.AugAssign))]
        oks = False
        for n in st:
            if isinstance(n, ast.AugAssign) and isinstance(n.op, ast.Mult) and src(n.value) == fname:
                oks = True
            if isinstance(n, ast.Assign) and isinstance(n.value, ast.BinOp) and isinstance(n.value.op, ast.Mult) and \
                    fname in (src(n.value.left), src(n.value.right)):
                oks = True
        ctx.inst('R18.5', fn, st[0] if st else lp, oks,
                 "every coefficient is multiplied by the common factor" if oks else
                 "coefficients are not all multiplied by the one common factor `%s`" % fname)
