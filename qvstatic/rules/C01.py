"""C01 - degree reduction.  Rules R01.1 - R01.11 (DESIGN 4.1)."""
import ast

from ..pymodel import AnalysisError, FuncInfo, parent
from ..astutil import (src, is_name, is_attr, is_const, const_num, call_name, walk_no_nested,
                       strip_docstring, compare_atoms, enclosing_stmt, calls_in, names_in,
                       assignments_to, norm_compare, orient, kwarg)
from ..cfg import cfg_of, ENTRY, EXIT, RAISE
from ..forwarding import check_forwarding

EXPLANATION = (
    "Decides the structural clauses of degree reduction for every model: the degree guard and the "
    "loop-exit condition dominate every store into the output (degree bound), the ancilla counter "
    "starts at a bound of every mapped label and is advanced after each take (fresh labels >= n), "
    "the gadget is bound to (ancilla, pair) and merged on every path that substitutes, the penalty "
    "is lam(v) of the very coefficient that is stored, default_lam(v) >= |v| in a magnitude "
    "lattice, the key rebuild keeps every other label, output keys come from the mapping, spin "
    "models reach the reduction only through _create_pubo (which hands over the coupled caches), "
    "shortcut returns are taken only under a guard implying the degree bound, convert_solution "
    "reads only labels < n, and (deg, lam, pairs) are forwarded to their namesakes.")
NOT_DECIDED = ("the numerical identity D(s) = M(x) on consistent ancillas, the inequality "
               "D >= M o convert_solution, equality of minima, the AND-gadget's coefficients.")
TRUSTED = ["registration parity of mapping and variable count (decided under C14, R14.4/R14.5)",
           "PCBO.add_constraint_eq_AND produces a penalty of degree <= 2 in its three scalar operands"]

ACCEPT_BASE = ('num_binary_variables', '_num_binary_variables', '_next_label')


def next_label_sound(prog):
    """`_next_label` bounds every mapped label only if whoever replaces the mapping of an object wholesale also sets that
    object's `_next_label` (on the reference tree set_mapping / set_reverse_mapping and PUSO._create_pubo do not)."""
    if getattr(prog, '_next_label_sound', None) is None:
        from ..fields import field_writes
        ok = True
        for fn in prog.all_funcs():
            if fn.name == '__init__':
                continue
            ws = field_writes(fn.node, {'_mapping', '_next_label'})
            objs = {w[1] for w in ws if w[2] == '_mapping' and w[3] == 'assign'}
            for o in objs:
                if not any(w[1] == o and w[2] == '_next_label' for w in ws):
                    ok = False
        prog._next_label_sound = ok
    return prog._next_label_sound


def _base_ok(e, selfn, prog=None):
    """Is expression e a bound of every mapped label (given C14 parity)?"""
    if isinstance(e, ast.Attribute) and is_name(e.value, selfn) and e.attr in ACCEPT_BASE:
        if e.attr == '_next_label' and prog is not None and not next_label_sound(prog):
            return False
        return True
    if isinstance(e, ast.Call) and is_name(e.func, 'len') and len(e.args) == 1 and \
            src(e.args[0]) in ('%s._mapping' % selfn, '%s._reverse_mapping' % selfn):
        return True
    if isinstance(e, ast.Call) and is_name(e.func, 'max') and e.args:
        return any(_base_ok(a, selfn, prog) for a in e.args)
    if isinstance(e, ast.BinOp) and isinstance(e.op, ast.Add):
        for a, b in ((e.left, e.right), (e.right, e.left)):
            c = const_num(b)
            if c is not None and c >= 0 and _base_ok(a, selfn, prog):
                return True
    return False


def _find_reduction(ctx):
    P = ctx.prog
    fn = P.func('PUBO._reduce_degree')
    body = strip_docstring(fn.node.body)
    whiles = [n for n in walk_no_nested(body) if isinstance(n, ast.While)]
    loops = [w for w in whiles if 'len(' in src(w.test)]
    if not loops:
        raise AnalysisError("PUBO._reduce_degree: no `while len(key) ...` reduction loop (unrecognised shape)")
    return fn, loops[0]


def _counter_names(fn, W):
    """Names incremented by a positive constant inside the reduction loop."""
    out = {}
    for n in ast.walk(W):
        if isinstance(n, ast.AugAssign) and isinstance(n.target, ast.Name) and isinstance(n.op, ast.Add):
            c = const_num(n.value)
            if c is not None and c > 0:
                out.setdefault(n.target.id, []).append(n)
    return out


def ancilla_base_instances(ctx, rid):
    """R01.3 / R14.9: the reduction's ancilla counter starts at an expression
    that bounds every mapped label."""
    fn, W = _find_reduction(ctx)
    selfn = ctx.res.self_name(fn)
    counters = _counter_names(fn, W)
    # the counter is the one whose value is used as a label (assigned to a
    # name that is the first operand of the gadget / stored in a table)
    cands = []
    for name in counters:
        outside = [(s, v) for s, v in assignments_to(fn.node, name)
                   if isinstance(s, ast.Assign) and not any(x is s for x in ast.walk(W))]
        if outside:
            cands.append((name, outside))
    if not cands:
        ctx.inst(rid, fn, W, False, "no ancilla counter (name initialised before the loop and incremented "
                                    "in it) found: fresh labels cannot be guaranteed")
        return None
    name, outside = cands[0]
    for s, v in outside:
        ok = isinstance(v, ast.AST) and _base_ok(v, selfn, ctx.prog)
        ctx.inst(rid, fn, s, ok,
                 "ancilla labels start at %s, a bound of every mapped label" % src(v) if ok else
                 "ancilla labels start at `%s`, which is not a bound of every label in the mapping "
                 "(accepted: self.num_binary_variables, len(self._mapping), max/+c of these; self._next_label only if every "
                 "wholesale writer of the mapping also sets it - set_mapping and the hand-over to the temporary PUBO of a "
                 "spin model do not): an ancilla can collide with a mapped variable"
                 % (src(v) if isinstance(v, ast.AST) else v))
    return name


def rules(ctx):
    P, R = ctx.prog, ctx.res
    ctx.rule('R01.12', "no function writes module-level state (memo / registry): results independent of earlier calls", floor=1)
    from .C14 import no_module_state as _nms
    _nms(ctx, 'R01.12')
    from .C14 import derived_fields as _df
    _df(ctx, 'R01.12')      # ... nor keeps derived state on a model that some mutator forgets (stale memo)
    ctx.rule('R01.1', "deg < 2 raises before the reduction; deg None replaced by self.degree", floor=2)
    ctx.rule('R01.2', "every store into the output is dominated by the loop exit len(K) <= deg for its "
                      "own key, or merges a 3-operand AND gadget", floor=2)
    ctx.rule('R01.3', "ancilla counter starts at a bound of every mapped label and is advanced after "
                      "each take", floor=2)
    ctx.rule('R01.4', "gadget bound to (ancilla, pair); key rebuild drops exactly the pair and keeps "
                      "every other label", floor=4)
    ctx.rule('R01.5', "penalty is F(v) of the stored coefficient, F chosen only by `lam is None` / "
                      "callable(lam); default_lam(v) >= |v|", floor=4)
    ctx.rule('R01.6', "output keys and pairs are built from self._mapping", floor=2)
    ctx.rule('R01.7', "spin models reach the boolean reduction only through _create_pubo", floor=4)
    ctx.rule('R01.8', "convert_solution reads exactly the labels 0..n-1 through the reverse mapping", floor=4)
    ctx.rule('R01.9', "(deg, lam, pairs) are forwarded to their namesakes", floor=8)
    ctx.rule('R01.10', "every substitution of a pair by an ancilla is accompanied by the gadget penalty", floor=1)
    from .C04 import conversion_defaults
    conversion_defaults(ctx, 'R01.9')
    ctx.rule('R01.11', "non-reducing shortcuts are taken only under a guard implying the degree bound", floor=2)

    fn, W = _find_reduction(ctx)
    g = cfg_of(fn.node)
    selfn = R.self_name(fn)
    params = fn.params
    if len(params) < 5:
        raise AnalysisError("_reduce_degree signature changed: %s" % params)
    Dp, degp, lamp, pairsp = params[1:5]

    # ---------------------------------------------------------------- R01.1
    raises = [n for n in g.stmts() if isinstance(n, ast.Raise)]
    okg = False
    for r in raises:
        facts = []
        for t, pol, o in g.edge_dominators(r):
            facts += compare_atoms(t, pol)
        if (degp, '<', '2') in facts or ('2', '>', degp) in facts or (degp, '<=', '1') in facts:
            if not g.reaches(ENTRY, W, avoid=()) or True:
                # the raise's guard must dominate the loop: the If owning it is on every path to W
                owners = [o for t, pol, o in g.edge_dominators(r)]
                if any(g.dominates([o], W) for o in owners):
                    okg = True
    ctx.inst('R01.1', fn, 'deg < 2 guard', okg,
             "raise under deg < 2 dominates the reduction loop" if okg else
             "no `deg < 2 -> raise` guard dominating the reduction loop: a requested degree below 2 "
             "would loop forever or return degree > deg")
    dassign = [(s, v) for s, v in assignments_to(fn.node, degp)]
    okd = False
    for s, v in dassign:
        if isinstance(v, ast.AST) and src(v) in ('%s.degree' % selfn, '%s._degree' % selfn):
            facts = []
            for t, pol, o in g.edge_dominators(s):
                facts += compare_atoms(t, pol)
            if (degp, 'is', 'None') in facts:
                okd = True
                ctx.inst('R01.1', fn, s, True, "deg None replaced by the model's degree")
            else:
                ctx.inst('R01.1', fn, s, False, "deg overwritten by self.degree without `deg is None` guard")
        else:
            ctx.inst('R01.1', fn, s, False, "requested degree is modified: %s" % src(s))
    if not okd and not dassign:
        ctx.inst('R01.1', fn, 'deg = self.degree', False, "deg None is never replaced by the model's degree")

    # ---------------------------------------------------------------- R01.2
    c3 = norm_compare(W.test)
    K = None
    okw = False
    if c3:
        for lhs in (c3[0], c3[2]):
            if lhs.startswith('len(') and lhs.endswith(')'):
                K = lhs[4:-1]
                o = orient(c3, lhs)
                if o and ((o[0] == '>' and o[1] == degp) or (o[0] == '>=' and o[1] in ('%s + 1' % degp, '1 + %s' % degp))):
                    okw = True
    ctx.inst('R01.2', fn, W, okw,
             "loop runs while len(%s) > %s" % (K, degp) if okw else
             "reduction loop test `%s` does not normalise to len(K) > %s: keys longer than the requested "
             "degree can leave the loop" % (src(W.test), degp))
    stores = []
    for n in g.stmts():
        if isinstance(n, (ast.Assign, ast.AugAssign)):
            tg = n.targets if isinstance(n, ast.Assign) else [n.target]
            for t in tg:
                if isinstance(t, ast.Subscript) and is_name(t.value, Dp):
                    stores.append((n, 'item', t.slice))
                elif is_name(t, Dp):
                    stores.append((n, 'whole', None))
        elif isinstance(n, ast.Expr) and isinstance(n.value, ast.Call) and isinstance(n.value.func, ast.Attribute) \
                and is_name(n.value.func.value, Dp):
            stores.append((n, 'call', n.value))
    if not stores:
        raise AnalysisError("_reduce_degree: no store into the output parameter found")
    gadget_stmts = []
    for n, kind, k in stores:
        if kind == 'item':
            in_loop = any(x is n for x in ast.walk(W))
            exits_dom = (not in_loop) and g.dominates([W], n) and src(k) == K and okw
            # K not re-assigned between loop exit and the store
            killed = False
            if exits_dom:
                for m in g.stmts():
                    if m is n or any(x is m for x in ast.walk(W)):
                        continue
                    if K in {src(t) for t in ast.walk(m) if isinstance(t, ast.Name) and isinstance(t.ctx, ast.Store)} \
                            and g.reaches(W, m) and g.reaches(m, n) and not isinstance(m, ast.For):
                        killed = True
            ok = exits_dom and not killed
            acc = isinstance(n, ast.AugAssign) and isinstance(n.op, ast.Add)
            ctx.inst('R01.2', fn, 'accumulating store ' + src(n)[:40], acc,
                     "the reduced term is accumulated onto the output (gadget terms may already occupy the key)" if acc else
                     "`%s` overwrites the output entry: a gadget term or another reduced term already stored under "
                     "the same key is lost" % src(n))
            ctx.inst('R01.2', fn, n, ok,
                     "store under key %s after the loop exit len(%s) <= %s" % (src(k), K, degp) if ok else
                     "store into the output under key `%s` is not dominated by the exit of the loop that "
                     "bounds that key's length" % src(k))
        elif kind == 'whole' and isinstance(n, ast.AugAssign) and isinstance(n.op, ast.Add):
            calls = [c for c in calls_in(n.value) if call_name(c) == 'add_constraint_eq_AND']
            ok = len(calls) == 1 and len(calls[0].args) == 3 and \
                all(isinstance(a, ast.Name) for a in calls[0].args)
            if ok:
                gadget_stmts.append((n, calls[0]))
            ctx.inst('R01.2', fn, n, ok,
                     "merges an AND gadget over three scalar labels (degree <= 2)" if ok else
                     "`%s` merges something other than a three-label AND gadget into the output" % src(n)[:80])
        else:
            ctx.inst('R01.2', fn, n, False, "unrecognised store into the output: %s" % src(n)[:80])

    # ---------------------------------------------------------------- R01.3
    cname = ancilla_base_instances(ctx, 'R01.3')
    from .C14 import registration_parity
    registration_parity(ctx, 'R01.3')      # premise: the variable count bounds every mapped label
    from .C14 import refresh_order, who_may_write, G1
    refresh_order(ctx, 'R01.3')            # ... also after refresh (the count and the mapping are rebuilt together)
    who_may_write(ctx, 'R01.3', G1)        # ... and no other function resets one without the other
    if cname:
        incs = _counter_names(fn, W)[cname]
        takes = []
        for n in ast.walk(W):
            if isinstance(n, ast.Assign) and cname in names_in(n.value):
                takes.append(n)
        for t in takes:
            ok = W not in g.reachable(t, avoid=set(incs)) or False
            # reachable() includes t itself; W reachable from t avoiding increments => reuse possible
            ok = W not in (g.reachable(t, avoid=set(incs)) - {t})
            ctx.inst('R01.3', fn, t, ok,
                     "take of the counter is followed by its increment before the next iteration" if ok else
                     "ancilla label taken from `%s` can reach the next iteration without the counter "
                     "being advanced: two pairs share an ancilla" % cname)
        for s, v in assignments_to(fn.node, cname):
            if any(x is s for x in ast.walk(W)) and isinstance(s, ast.Assign):
                ctx.inst('R01.3', fn, s, False, "ancilla counter re-assigned inside the reduction loop")
        if not takes:
            ctx.inst('R01.3', fn, W, False, "counter `%s` is never used as a label" % cname)

    # ---------------------------------------------------------------- R01.4
    if not gadget_stmts:
        ctx.inst('R01.4', fn, W, False, "no AND gadget is merged in the reduction loop")
    for gs, call in gadget_stmts:
        z, x, y = [a.id for a in call.args]
        # z defined from the counter or from a table lookup keyed by (x, y)
        zdefs = [(s, v) for s, v in assignments_to(fn.node, z) if any(q is s for q in ast.walk(W))]
        tables = set()
        okz = bool(zdefs)
        for s, v in zdefs:
            if isinstance(v, ast.Name) and cname and v.id == cname:
                continue
            if isinstance(v, ast.Subscript) and src(v.slice) in ('(%s, %s)' % (x, y),):
                tables.add(src(v.value))
                continue
            okz = False
        ctx.inst('R01.4', fn, gs, okz,
                 "gadget ancilla %s comes from the counter or from the table entry of (%s, %s)" % (z, x, y) if okz else
                 "first gadget operand `%s` is not the ancilla of the pair (%s, %s)" % (z, x, y))
        # table store keyed by the same pair with the same ancilla
        tstores = [n for n in ast.walk(W) if isinstance(n, ast.Assign) and
                   any(isinstance(t, ast.Subscript) and src(t.value) in tables | {'reductions'} for t in n.targets)]
        for n in tstores:
            t = n.targets[0]
            ok = src(t.slice) == '(%s, %s)' % (x, y) and src(n.value) == z
            ctx.inst('R01.4', fn, n, ok,
                     "table records (%s, %s) -> %s" % (x, y, z) if ok else
                     "reduction table entry %s does not record the gadget's pair/ancilla" % src(n))
        # key rebuild: inline in the loop body, or extracted into a helper `K = helper(K, x, y, z)`
        site = None
        # the accumulator is K itself or a local copied out by a later `K = A` (an inlined helper's result)
        accs = [K] + [src(n.value) for n in W.body if isinstance(n, ast.Assign) and len(n.targets) == 1
                      and src(n.targets[0]) == K and isinstance(n.value, ast.Name)]
        for n in W.body:
            for A in accs:
                if isinstance(n, ast.For) and A and site is None and any(
                        isinstance(m, ast.AugAssign) and src(m.target) == A for m in ast.walk(n)):
                    site = ('inline', fn, W.body, A, x, y, z)
        if site is None:
            for n in W.body:
                if isinstance(n, ast.Assign) and len(n.targets) == 1 and src(n.targets[0]) == K and isinstance(n.value, ast.Call):
                    tg = [t for t, r_, h in R.resolve_call(n.value, fn, 'PUBO') if isinstance(t, FuncInfo)]
                    if len(tg) == 1:
                        h = tg[0]
                        from ..astutil import bind_args
                        b_ = bind_args(n.value, h, skip_self=bool(h.cls) and not h.is_static)
                        inv = {src(v_): p_ for p_, v_ in b_.items() if isinstance(v_, ast.AST)}
                        if all(q in inv for q in (K, x, y, z)):
                            rets = [r_ for r_ in walk_no_nested(strip_docstring(h.node.body)) if isinstance(r_, ast.Return)]
                            if len(rets) == 1 and isinstance(rets[0].value, ast.Name):
                                site = ('helper', h, strip_docstring(h.node.body), rets[0].value.id, inv[x], inv[y], inv[z])
                                ctx.inst('R01.4', fn, n, True, "key rebuilt by helper %s(%s)" % (h.qual, ', '.join(src(a) for a in n.value.args)))
        if site is None:
            raise AnalysisError("_reduce_degree: key rebuild not recognised (neither an inline `for ... key += ...` loop "
                                "nor `key = helper(key, x, y, z)`)")
        rebuild_rules(ctx, *site[1:])

    # ---------------------------------------------------------------- R01.10
    for gs, call in gadget_stmts[:1]:
        first = W.body[0]
        ok = W not in (g.reachable(first, avoid={gs}) - {first}) if first is not gs else True
        # also: gadget must be inside W
        ok = ok and any(x_ is gs for x_ in ast.walk(W))
        ctx.inst('R01.10', fn, gs, ok,
                 "every iteration (substitution) merges the gadget penalty" if ok else
                 "a path through the reduction loop substitutes a pair by an ancilla without merging the "
                 "AND-gadget penalty (e.g. when the pair was reduced before): the penalty no longer covers "
                 "every term that relies on the ancilla")
    if not gadget_stmts:
        ctx.inst('R01.10', fn, W, False, "no gadget merged")

    # ---------------------------------------------------------------- R01.5
    outer = None
    p_ = parent(W)
    while p_ is not None and p_ is not fn.node:
        if isinstance(p_, ast.For):
            outer = p_
            break
        p_ = parent(p_)
    if outer is None:
        raise AnalysisError("_reduce_degree: outer term loop not found")
    coef = None
    if isinstance(outer.target, ast.Tuple) and len(outer.target.elts) == 2:
        coef = src(outer.target.elts[1])
    for gs, call in gadget_stmts:
        lam_arg = kwarg(call, 'lam')
        ok = isinstance(lam_arg, ast.Call) and len(lam_arg.args) == 1 and src(lam_arg.args[0]) == coef
        fname = src(lam_arg.func) if isinstance(lam_arg, ast.Call) else None
        ctx.inst('R01.5', fn, gs, ok,
                 "penalty weight is %s(%s) of the term's coefficient" % (fname, coef) if ok else
                 "gadget weight `%s` is not F(%s) of the coefficient of the term being reduced"
                 % (src(lam_arg) if lam_arg is not None else 'default lam=1', coef))
        # the same coefficient is what is stored for the final key
        for n, kind, k in stores:
            if kind == 'item':
                v = n.value
                okv = src(v) == coef or (isinstance(n, ast.Assign) and coef in names_in(v))
                ctx.inst('R01.5', fn, n, okv,
                         "stored coefficient is the loop's %s" % coef if okv else
                         "value stored for the reduced key is `%s`, not the coefficient %s" % (src(v), coef))
        if ok and isinstance(lam_arg.func, ast.Name):
            F = lam_arg.func.id
            defs = assignments_to(fn.node, F)
            if not defs:
                ctx.inst('R01.5', fn, gs, False, "penalty function %s is not defined in the function" % F)
            def check_site(host, hg, s, v, lp_):
                facts = []
                for t, pol, o in hg.edge_dominators(s):
                    facts += compare_atoms(t, pol)
                if isinstance(v, tuple) and v[0] == 'def':
                    d = v[1]
                    rets = [r for r in ast.walk(d) if isinstance(r, ast.Return)]
                    okf = len(rets) == 1 and src(rets[0].value) == lp_ and \
                        (lp_, 'is not', 'None') in facts and ('falsy', 'callable(%s)' % lp_) in facts
                    ctx.inst('R01.5', host, s, okf,
                             "constant closure over lam for a non-callable weight" if okf else
                             "local %s does not return `%s` under (lam is not None, not callable(lam))" % (F, lp_))
                elif isinstance(v, ast.AST) and src(v) == lp_:
                    okf = ('truthy', 'callable(%s)' % lp_) in facts
                    ctx.inst('R01.5', host, s, okf,
                             "callable lam used as given" if okf else "lam used as a function without callable(lam) guard")
                elif isinstance(v, ast.AST) and src(v).endswith('default_lam'):
                    okf = (lp_, 'is', 'None') in facts
                    ctx.inst('R01.5', host, s, okf,
                             "default penalty when lam is None" if okf else "default_lam selected without `lam is None` guard")
                elif isinstance(v, ast.Call) and len(v.args) == 1 and is_name(v.args[0], lp_) and not v.keywords:
                    # the selection lives in a helper that receives lam: decide it on the helper's returns
                    try:
                        tg = [t for t, r_, h in R.resolve_call(v, host, 'PUBO') if isinstance(t, FuncInfo)]
                    except Exception:
                        tg = []
                    if len(tg) != 1 or len(tg[0].params) < 1:
                        ctx.inst('R01.5', host, s, False, "penalty function bound to `%s`" % src(v))
                        return
                    h = tg[0]
                    hp = h.params[-1]
                    hg2 = cfg_of(h.node)
                    nested = {n.name: n for n in h.node.body if isinstance(n, ast.FunctionDef)}
                    rets = [r for r in hg2.stmts() if isinstance(r, ast.Return)]
                    if not rets:
                        ctx.inst('R01.5', h, 'return', False, "%s returns nothing" % h.qual)
                    for r in rets:
                        rv = r.value
                        if isinstance(rv, ast.Name) and rv.id in nested:
                            check_site(h, hg2, r, ('def', nested[rv.id]), hp)
                        elif isinstance(rv, ast.Lambda):
                            fake = ast.FunctionDef(name='<lambda>', args=rv.args, body=[ast.Return(value=rv.body)], decorator_list=[])
                            check_site(h, hg2, r, ('def', fake), hp)
                        else:
                            check_site(h, hg2, r, rv, hp)
                else:
                    ctx.inst('R01.5', host, s, False, "penalty function bound to `%s`" % (src(v) if isinstance(v, ast.AST) else v))
            for s, v in defs:
                check_site(fn, g, s, v, lamp)
    dl = P.func('PUBO.default_lam')
    vparam = dl.all_params[-1]
    rets = [r for r in walk_no_nested(strip_docstring(dl.node.body)) if isinstance(r, ast.Return)]
    for r in rets:
        ctx.inst('R01.5', dl, r, _ge_abs(r.value, vparam),
                 "default penalty >= |v| in the magnitude lattice" if _ge_abs(r.value, vparam) else
                 "default_lam returns `%s`, not provably >= |%s| (accepted: c + abs(v) with c >= 0, c*abs(v) "
                 "with c >= 1, max(abs(v), ...))" % (src(r.value), vparam))
    if not rets:
        raise AnalysisError("PUBO.default_lam has no return")

    # ---------------------------------------------------------------- R01.6
    if not (isinstance(outer.iter, ast.Call) and isinstance(outer.iter.func, ast.Attribute) and outer.iter.func.attr == 'items'):
        raise AnalysisError("_reduce_degree: outer loop does not iterate X.items()")
    table = src(outer.iter.func.value)
    tstores = []
    for n in walk_no_nested(strip_docstring(fn.node.body)):
        if isinstance(n, (ast.Assign, ast.AugAssign)):
            tg = n.targets if isinstance(n, ast.Assign) else [n.target]
            for t in tg:
                if isinstance(t, ast.Subscript) and src(t.value) == table:
                    tstores.append((n, t.slice))
    if table == selfn:
        ctx.inst('R01.6', fn, outer, False, "reduction iterates the unmapped model: output labels are not mapping integers")
    for n, k in tstores:
        ok = False
        if isinstance(k, ast.Name):
            for s, v in assignments_to(fn.node, k.id):
                if isinstance(v, ast.AST) and _mapped_key_expr(v, selfn):
                    ok = True
        else:
            ok = _mapped_key_expr(k, selfn)
        ctx.inst('R01.6', fn, n, ok,
                 "term keys are relabelled through self._mapping" if ok else
                 "keys entering the reduction are not built from self._mapping[...]")
    if not tstores and table != selfn:
        raise AnalysisError("_reduce_degree: mapped term table %s is never filled" % table)
    pa = [(s, v) for s, v in assignments_to(fn.node, pairsp) if isinstance(v, ast.AST)]
    for s, v in pa:
        ok = '%s._mapping[' % selfn in src(v)
        ctx.inst('R01.6', fn, s, ok, "pairs relabelled through the mapping" if ok else "pairs are not relabelled through self._mapping")
    if not pa:
        # the relabelled pairs may live in their own local, filled in a loop over the parameter
        filled = {}
        for lp_ in [n for n in walk_no_nested(strip_docstring(fn.node.body)) if isinstance(n, ast.For) and pairsp in names_in(n.iter)]:
            for c in calls_in(lp_, 'add'):
                if isinstance(c.func.value, ast.Name):
                    filled.setdefault(c.func.value.id, []).append(c)
        used = {src(c.comparators[0]) for c in ast.walk(fn.node) if isinstance(c, ast.Compare) and len(c.ops) == 1
                and isinstance(c.ops[0], (ast.In, ast.NotIn)) and isinstance(c.comparators[0], ast.Name)}
        for nm, adds in filled.items():
            for c in adds:
                ok = bool(c.args) and ('%s._mapping[' % selfn in src(c.args[0]) or src(c.args[0]) == '()')
                ctx.inst('R01.6', fn, c, ok, "pairs relabelled through the mapping" if ok else
                         "pairs are not relabelled through self._mapping")
        raw = pairsp in used
        ctx.inst('R01.6', fn, 'membership tests of the preferred pairs', bool(filled) and not raw,
                 "pairs are looked up in their relabelled form" if filled and not raw else
                 "the user's pairs are looked up without being relabelled through self._mapping")

    # ---------------------------------------------------------------- R01.7
    for recv in ('PUSO', 'PCSO'):
        for m in ('to_pubo', 'to_qubo', 'to_puso', 'to_quso'):
            f_ = P.lookup_method(recv, m)
            if not isinstance(f_, FuncInfo) or f_.cls.name != 'PUSO':
                ctx.inst('R01.7', (P.cls(recv).module.relpath, recv), '%s.%s' % (recv, m),
                         isinstance(f_, FuncInfo), "resolves to %s" % getattr(f_, 'qual', f_), nontrivial=False)
                continue
            if recv != 'PUSO':
                continue
            sn = R.self_name(f_)
            for r in [x for x in walk_no_nested(strip_docstring(f_.node.body)) if isinstance(x, ast.Return)]:
                v = r.value
                txt = src(v)
                ok = False
                why = ''
                if isinstance(v, ast.Call) and isinstance(v.func, ast.Attribute) and v.func.attr.startswith('to_') \
                        and isinstance(v.func.value, ast.Call):
                    inner = v.func.value
                    if isinstance(inner.func, ast.Attribute) and is_name(inner.func.value, sn) and inner.func.attr == '_create_pubo':
                        ok, why = True, "boolean conversion on the object returned by _create_pubo"
                    elif isinstance(inner.func, ast.Call) and is_name(inner.func.func, 'super'):
                        ok, why = True, "delegates to the default conversion"
                if not ok and '_to_puso()' in txt and 'puso_to_pubo' not in txt:
                    ok, why = True, "non-reducing relabelling through _to_puso"
                if not ok and isinstance(v, ast.Call) and isinstance(v.func, ast.Attribute) and \
                        isinstance(v.func.value, ast.Call) and is_name(v.func.value.func, 'super'):
                    ok, why = True, "delegates to the default conversion chain (reaches to_qubo -> _create_pubo)"
                ctx.inst('R01.7', f_, r, ok, why or
                         "spin model is converted without going through _create_pubo (mapping hand-over): `%s`" % txt[:80])
    cp = P.func('PUSO._create_pubo')
    rets = [x for x in walk_no_nested(strip_docstring(cp.node.body)) if isinstance(x, ast.Return)]
    sn = R.self_name(cp)
    for r in rets:
        nm = src(r.value)
        defs = [v for s, v in assignments_to(cp.node, nm) if isinstance(v, ast.AST)] if isinstance(r.value, ast.Name) else [r.value]
        ok = any(isinstance(v, ast.Call) and call_name(v) == 'puso_to_pubo' and v.args and is_name(v.args[0], sn) for v in defs)
        ctx.inst('R01.7', cp, r, ok, "returns puso_to_pubo(self) with the hand-over applied" if ok else
                 "_create_pubo does not return the boolean form of self")
    from .C14 import coupled_group_instances
    coupled_group_instances(ctx, 'R01.7', only={'PUSO._create_pubo'})

    # ---------------------------------------------------------------- R01.8
    for cname_, conv in (('QUBO', 'QUBO'), ('QUSO', 'QUSO')):
        f_ = P.func('%s.convert_solution' % cname_)
        sn = R.self_name(f_)
        sol = f_.params[1]
        ok, r = decode_range_ok(f_, sn)
        if r is None:
            raise AnalysisError("%s.convert_solution has no return" % cname_)
        ctx.inst('R01.8', f_, r, ok,
                 "decodes labels 0..n-1 through the reverse mapping; ancilla labels >= n are never read" if ok else
                 "convert_solution does not decode exactly range(num_binary_variables) through the reverse "
                 "mapping: `%s`" % src(r.value)[:100])
    for cname_, tgt in (('PUBO', 'QUBO'), ('PUSO', 'QUSO'), ('PCBO', 'QUBO'), ('PCSO', 'QUSO')):
        f_ = P.lookup_method(cname_, 'convert_solution')
        ok = False
        if isinstance(f_, FuncInfo):
            if f_.cls.name in ('QUBO', 'QUSO'):
                ok = f_.cls.name == tgt
            else:
                for c in calls_in(f_.node, 'convert_solution'):
                    if src(c.func) == '%s.convert_solution' % tgt and c.args and is_name(c.args[0], R.self_name(f_)):
                        ok = True
                        check_forwarding(ctx, 'R01.9', f_, c, P.func('%s.convert_solution' % tgt), skip_self=False)
                if not ok:
                    # written out instead of delegating: the same statements as the target's own method (self renamed)
                    tf = P.func('%s.convert_solution' % tgt)
                    import re as _re
                    def _txt(fn_):
                        sn_ = R.self_name(fn_)
                        from ..astutil import alpha_src
                        return [_re.sub(r'\b%s\b' % _re.escape(sn_), 'self', alpha_src(x)) for x in strip_docstring(fn_.node.body)]
                    same = _txt(f_) == _txt(tf)
                    same = same and f_.all_params[1:] == tf.all_params[1:]
                    if same and decode_range_ok(f_, R.self_name(f_))[0]:
                        ok = True
        ctx.inst('R01.8', (P.cls(cname_).module.relpath, cname_), '%s.convert_solution' % cname_, ok,
                 "delegates to %s.convert_solution" % tgt if ok else "does not delegate to %s.convert_solution" % tgt)

    # ---------------------------------------------------------------- R01.9
    sites = [('PUBO.to_pubo', 'PUBO'), ('PUBO.to_qubo', 'PUBO'), ('PUSO.to_pubo', 'PUSO'),
             ('PUSO.to_puso', 'PUSO'), ('PUSO.to_qubo', 'PUSO'), ('PUSO.to_quso', 'PUSO')]
    for q, recv in sites:
        f_ = P.func(q)
        for c in calls_in(f_.node):
            nm = call_name(c)
            if nm in ('_reduce_degree', 'to_pubo', 'to_puso', 'to_qubo', 'to_quso'):
                tg = R.resolve_call(c, f_, recv)
                for t, tr, how in tg:
                    if isinstance(t, FuncInfo):
                        check_forwarding(ctx, 'R01.9', f_, c, t, how)
                if not tg:
                    ctx.note("R01.9: unresolved forwarding call %s in %s" % (src(c)[:60], q))
    tq = P.func('PUBO.to_qubo')
    for c in calls_in(tq.node, '_reduce_degree'):
        d0 = c.args[0] if c.args else None
        deg_arg = c.args[1] if len(c.args) > 1 else kwarg(c, degp)
        d_ok = False
        if isinstance(d0, ast.Name):
            d_ok = any(isinstance(v, ast.Call) and src(v.func).endswith('QUBOMatrix')
                       for s, v in assignments_to(tq.node, d0.id) if isinstance(v, ast.AST))
        ok = d_ok and const_num(deg_arg) == 2
        ctx.inst('R01.9', tq, c, ok, "to_qubo reduces to the literal degree 2 into a QUBOMatrix" if ok else
                 "to_qubo does not request degree 2 into a QUBOMatrix: %s" % src(c))

    # ---------------------------------------------------------------- R01.11
    _shortcut(ctx, P.func('PUSO.to_puso'), '_to_puso',
              lambda sn, p: {('%s' % p[1], 'is', 'None'), (p[1], '>=', '%s.degree' % sn), (p[1], '>', '%s.degree' % sn),
                             (p[1], '==', '%s.degree' % sn)},
              "deg is None or deg >= self.degree")
    _shortcut(ctx, P.func('PUSO.to_quso'), '_to_puso',
              lambda sn, p: {('%s.degree' % sn, '<=', '2'), ('%s.degree' % sn, '<', '3'), ('%s.degree' % sn, '<', '2'),
                             ('%s.degree' % sn, '<=', '1'), ('%s.degree' % sn, '==', '2')},
              "self.degree <= 2")


def decode_range_ok(fn, selfn):
    """convert_solution returns {reverse_mapping[i]: solution[i] for i in range(n)} - as a dict comprehension or as
    an explicit loop filling a fresh dict that is returned."""
    sol = fn.params[1]
    ranges = ('range(%s.num_binary_variables)' % selfn, 'range(%s._num_binary_variables)' % selfn,
              'range(len(%s._reverse_mapping))' % selfn, 'range(len(%s._mapping))' % selfn)
    rets = [x for x in walk_no_nested(strip_docstring(fn.node.body)) if isinstance(x, ast.Return)]
    if not rets:
        return False, None
    for r in rets:
        v = r.value
        ok = False
        if isinstance(v, ast.DictComp) and len(v.generators) == 1 and not v.generators[0].ifs:
            gen = v.generators[0]
            i = src(gen.target)
            ok = src(gen.iter) in ranges and src(v.key) == '%s._reverse_mapping[%s]' % (selfn, i) and \
                src(v.value) == '%s[%s]' % (sol, i)
        elif isinstance(v, ast.Name):
            inits = [x for s_, x in assignments_to(fn.node, v.id) if isinstance(x, ast.AST)]
            loops = [n for n in walk_no_nested(strip_docstring(fn.node.body)) if isinstance(n, ast.For) and src(n.iter) in ranges]
            if len(inits) == 1 and src(inits[0]) in ('{}', 'dict()') and len(loops) == 1:
                lp = loops[0]
                i = src(lp.target)
                body = [b for b in lp.body if not isinstance(b, ast.Expr) or not isinstance(b.value, ast.Constant)]
                # allow a named temporary for the label: lab = self._reverse_mapping[i]; res[lab] = solution[i]
                from ..astutil import expand_names
                st = [b for b in body if isinstance(b, ast.Assign) and isinstance(b.targets[0], ast.Subscript)
                      and is_name(b.targets[0].value, v.id)]
                if len(st) == 1 and not any(isinstance(b, (ast.If, ast.Break, ast.Continue)) for b in ast.walk(lp)):
                    key = src(expand_names(fn.node, st[0].targets[0].slice))
                    val = src(expand_names(fn.node, st[0].value))
                    ok = key == '%s._reverse_mapping[%s]' % (selfn, i) and val == '%s[%s]' % (sol, i)
        if not ok:
            return False, r
    return True, rets[0]


def _flipf(f):
    flip = {'<': '>', '>': '<', '<=': '>=', '>=': '<=', '==': '==', '!=': '!=', 'is': 'is', 'is not': 'is not'}
    return (f[2], flip[f[1]], f[0]) if len(f) == 3 and f[1] in flip else f


def _shortcut(ctx, f_, marker, allowed_fn, desc):
    R = ctx.res
    sn = R.self_name(f_)
    allowed = allowed_fn(sn, f_.params)
    allowed |= {_flipf(a) for a in allowed}
    g = cfg_of(f_.node)
    rets = [x for x in walk_no_nested(strip_docstring(f_.node.body)) if isinstance(x, ast.Return)
            and marker in src(x.value)]
    for r in rets:
        ok = False
        for t, pol, o in g.edge_dominators(r):
            ds = None
            if pol and isinstance(t, ast.BoolOp) and isinstance(t.op, ast.Or):
                ds = [compare_atoms(v, True) for v in t.values]
            elif (not pol) and isinstance(t, ast.BoolOp) and isinstance(t.op, ast.And):
                ds = [compare_atoms(v, False) for v in t.values]
            elif not isinstance(t, ast.BoolOp):
                ds = [compare_atoms(t, pol)]
            if ds and all(len(d) >= 1 and any(f in allowed for f in d) for d in ds):
                ok = True
        ctx.inst('R01.11', f_, r, ok,
                 "non-reducing return only under %s" % desc if ok else
                 "non-reducing shortcut `%s` is not guarded by a condition implying the degree bound (%s): "
                 "the result can exceed the requested degree" % (src(r)[:60], desc))
    if not rets:
        ctx.inst('R01.11', f_, 'shortcut', True, "no non-reducing shortcut present", nontrivial=False)


def _ge_abs(e, v):
    """Expression provably >= |v| : magnitude lattice."""
    a = 'abs(%s)' % v
    if src(e) == a:
        return True
    if isinstance(e, ast.BinOp) and isinstance(e.op, ast.Add):
        for x, y in ((e.left, e.right), (e.right, e.left)):
            if _ge_abs(x, v) and (const_num(y) is not None and const_num(y) >= 0 or _nonneg(y, v)):
                return True
    if isinstance(e, ast.BinOp) and isinstance(e.op, ast.Mult):
        for x, y in ((e.left, e.right), (e.right, e.left)):
            c = const_num(y)
            if c is not None and c >= 1 and _ge_abs(x, v):
                return True
    if isinstance(e, ast.Call) and is_name(e.func, 'max'):
        return any(_ge_abs(x, v) for x in e.args)
    return False


def _nonneg(e, v):
    return src(e) == 'abs(%s)' % v or (const_num(e) is not None and const_num(e) >= 0)


def _mapped_key_expr(e, selfn):
    for n in ast.walk(e):
        if isinstance(n, (ast.GeneratorExp, ast.ListComp)) and len(n.generators) == 1:
            t = src(n.generators[0].target)
            if src(n.elt) == '%s._mapping[%s]' % (selfn, t) and not n.generators[0].ifs:
                return True
    return False


def rebuild_rules(ctx, fn, stmts, K, x, y, z):
    """R01.4 for the key rebuild: `stmts` hold the reset of the accumulator K, the loop over the old key and the
    final insertion; (x, y) is the reduced pair and z the ancilla (names valid inside `stmts`)."""
    g = cfg_of(fn.node)

    class _W:           # adapter so that the original code can say W.body
        body = stmts
    W = _W
    rebuild = None
    for n in W.body:
        if isinstance(n, ast.For) and K and any(
                isinstance(m, ast.AugAssign) and src(m.target) == K for m in ast.walk(n)):
            rebuild = n
    if rebuild is None:
        raise AnalysisError("_reduce_degree: key rebuild loop not recognised (for i in old_key ... key += ...)")
    # the pair removed by the rebuild is read from its membership test
    rp = None
    for m in ast.walk(rebuild):
        if isinstance(m, ast.Compare) and len(m.ops) == 1 and isinstance(m.ops[0], (ast.In, ast.NotIn)) \
                and src(m.left) == src(rebuild.target) and isinstance(m.comparators[0], (ast.Tuple, ast.Set, ast.List)):
            rp = [src(e) for e in m.comparators[0].elts]
    okpair = rp is not None and sorted(rp) == sorted([x, y])
    ctx.inst('R01.4', fn, rebuild, okpair,
             "rebuild removes exactly the gadget's pair (%s, %s)" % (x, y) if okpair else
             "key rebuild removes %s but the gadget constrains the ancilla to the pair (%s, %s)" % (rp, x, y))
    if rp is not None and len(rp) == 2:
        x, y = rp
    it = src(rebuild.target)
    # old key variable must be the loop key before reset
    gb = g
    paths = g.iteration_paths(rebuild)
    n_paths = 0
    for path in paths:
        n_paths += 1
        facts, adds = [], []
        for node, lab in path:
            if lab and lab[0] != 'iter' and lab[0] != 'exc':
                facts += compare_atoms(lab[0], lab[1])
            if isinstance(node, ast.AugAssign) and src(node.target) == K and isinstance(node.op, ast.Add):
                adds.append(node)
        is_pair = (it, 'in', '(%s, %s)' % (x, y)) in facts or (it, 'in', '(%s, %s)' % (y, x)) in facts
        not_pair = (it, 'not in', '(%s, %s)' % (x, y)) in facts or (it, 'not in', '(%s, %s)' % (y, x)) in facts
        elts = []
        for a in adds:
            if isinstance(a.value, ast.Tuple):
                elts += [src(e) for e in a.value.elts]
            else:
                elts.append('?' + src(a.value))
        if is_pair:
            ok = it not in elts
            ctx.inst('R01.4', fn, 'rebuild path [%s in pair] adds %s' % (it, elts), ok,
                     "a label of the reduced pair is dropped from the key" if ok else
                     "a label of the reduced pair is kept in the key")
        elif not_pair:
            ok = elts.count(it) == 1 and all(e in (it, z) for e in elts)
            ctx.inst('R01.4', fn, 'rebuild path [%s not in pair] adds %s' % (it, elts), ok,
                     "every other label is kept exactly once" if ok else
                     "on a path where `%s` is not in the reduced pair the rebuilt key gets %s: the label "
                     "is lost or foreign labels enter" % (it, elts))
        else:
            ctx.inst('R01.4', fn, 'rebuild path adds %s' % elts, False,
                     "rebuild path not decided by membership of `%s` in the pair" % it)
    if not n_paths:
        raise AnalysisError("_reduce_degree: no paths through the key rebuild loop")
    # z inserted after the loop if not inserted inside
    post = [n for n in W.body if isinstance(n, ast.If) and any(
        isinstance(m, ast.AugAssign) and src(m.target) == K and src(m.value) == '(%s,)' % z for m in n.body)]
    flags = [f for f in compare_atoms(post[0].test, True)] if post else []
    okp = bool(post) and len(flags) == 1 and flags[0][0] == 'falsy'
    flag = flags[0][1] if okp else None
    if okp:
        # inside the loop: every add of z sets the flag in the same block and is guarded by `not flag`
        for m in ast.walk(rebuild):
            if isinstance(m, ast.AugAssign) and src(m.target) == K and isinstance(m.value, ast.Tuple) \
                    and z in [src(e) for e in m.value.elts]:
                blk = parent(m)
                sets = [q for q in getattr(blk, 'body', []) + getattr(blk, 'orelse', [])
                        if isinstance(q, ast.Assign) and src(q.targets[0]) == flag and is_const(q.value, True)]
                fcts = []
                for t, pol, o in cfg_of(fn.node).edge_dominators(m):
                    fcts += compare_atoms(t, pol)
                okp = okp and bool(sets) and ('falsy', flag) in fcts
    ctx.inst('R01.4', fn, post[0] if post else 'append of the ancilla', okp,
             "ancilla inserted exactly once (flag %s)" % flag if okp else
             "the ancilla is not inserted exactly once into the rebuilt key")
    # key reset: key = () and old key saved before
    resets = [n for n in W.body if isinstance(n, ast.Assign) and K in
              {src(t) for tt in n.targets for t in (tt.elts if isinstance(tt, ast.Tuple) else [tt])}]
    ctx.inst('R01.4', fn, resets[0] if resets else 'key reset', bool(resets) and src(rebuild.iter) != K,
             "rebuild iterates the saved old key")

