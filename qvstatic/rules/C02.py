"""C02 - PCBO comparison constraints.  Rules R02.1 - R02.11 (DESIGN 4.2)."""
import ast
import re

from ..pymodel import AnalysisError, FuncInfo, parent
from ..astutil import (positive_form, expand_names, canon, canon_src, src, is_name, is_attr, is_const, const_num, call_name, walk_no_nested,
                       strip_docstring, compare_atoms, enclosing_stmt, calls_in, names_in,
                       assignments_to, norm_compare, orient, kwarg)
from ..cfg import cfg_of, ENTRY, EXIT, RAISE
from ..effects import Effects, root
from ..forwarding import check_forwarding

EXPLANATION = (
    "Decides what is recorded and how it is compared, and the structural soundness of the penalty "
    "construction: each add_constraint_R_zero has net effect {R: +1} on the constraint record on "
    "every path (R02.1); is_solution_valid reads exactly the written keys with the comparator the "
    "key names (R02.2); ancilla names come only from the monotone counter of the object that "
    "receives the penalty and the counter is never reset on a live model (R02.3); the recorded "
    "polynomial is a fresh copy that is never mutated after it was recorded (R02.4, R02.5); with "
    "lam == 0 nothing but the record happens (R02.6); the slack weights follow the log_trick flag "
    "given to num_bits (R02.7); bounds are negated/swapped, shifted or passed unchanged together "
    "with the polynomial (R02.8); _get_bounds fills exactly the missing component from the boolean "
    "enclosure (R02.9); unseeded temporaries whose terms are merged cannot allocate ancillas "
    "(R02.10); a linear penalty +lam*P / -lam*P is added only under a guard forcing its sign "
    "(R02.11).")
NOT_DECIDED = ("min_a F = 0 <=> P R 0, F >= lam on violating assignments, F >= 0 of the special "
               "shortcut forms (_special_constraints_*), sufficiency of the number of slack bits.")
TRUSTED = ["approximate_pubo_extrema is a sound enclosure (decided structurally under C15)",
           "arithmetic of DictArithmetic (C05)"]

RELS = ['eq', 'ne', 'lt', 'le', 'gt', 'ge']
REL_OP = {'eq': '==', 'ne': '!=', 'lt': '<', 'le': '<=', 'gt': '>', 'ge': '>='}
NEG = {'==': '!=', '!=': '==', '<': '>=', '<=': '>', '>': '<=', '>=': '<'}
FLIP = {'<': '>', '>': '<', '<=': '>=', '>=': '<=', '==': '==', '!=': '!='}


def pow2_exponent(e):
    """Exponent node of pow(2, E) / 2 ** E / 1 << E, else None."""
    if isinstance(e, ast.Call) and call_name(e) == 'pow' and len(e.args) == 2 and const_num(e.args[0]) == 2:
        return e.args[1]
    if isinstance(e, ast.BinOp) and isinstance(e.op, ast.Pow) and const_num(e.left) == 2:
        return e.right
    if isinstance(e, ast.BinOp) and isinstance(e.op, ast.LShift) and const_num(e.left) == 1:
        return e.right
    return None


def bounds_names(fn):
    """(min name, max name, the statement that calls _get_bounds) - the pair may be unpacked in the same statement
    (`lo, hi = _get_bounds(..)`, `b = lo, hi = _get_bounds(..)`) or from the name the result was bound to
    (`b = _get_bounds(..)` ; `lo, hi = b`)."""
    mn = mx = st = None
    for n in walk_no_nested(strip_docstring(fn.node.body)):
        if isinstance(n, ast.Assign) and isinstance(n.value, ast.Call) and call_name(n.value) == '_get_bounds':
            st = n
            whole = None
            for t in n.targets:
                if isinstance(t, ast.Tuple) and len(t.elts) == 2 and all(isinstance(e, ast.Name) for e in t.elts):
                    mn, mx = t.elts[0].id, t.elts[1].id
                elif isinstance(t, ast.Name):
                    whole = t.id
            if mn is None and whole is not None:
                for m in walk_no_nested(strip_docstring(fn.node.body)):
                    if isinstance(m, ast.Assign) and is_name(m.value, whole) and len(m.targets) == 1 \
                            and isinstance(m.targets[0], ast.Tuple) and len(m.targets[0].elts) == 2 \
                            and all(isinstance(e, ast.Name) for e in m.targets[0].elts):
                        mn, mx = m.targets[0].elts[0].id, m.targets[0].elts[1].id
    return mn, mx, st


def min_param(ctx, fn):
    """A parameter of helper `fn` that receives, at every call site, the lower bound the caller got from _get_bounds
    (the helper was given the component instead of the pair)."""
    P = ctx.prog
    sites = []
    for g_ in P.all_funcs():
        if g_.node is fn.node:
            continue
        for c in calls_in(g_.node, fn.name):
            sites.append((g_, c))
    if not sites:
        return None
    for i, prm in enumerate(fn.all_params):
        ok = True
        for g_, c in sites:
            lo = bounds_names(g_)[0]
            if not (lo and i < len(c.args) and is_name(c.args[i], lo)):
                ok = False
        if ok:
            return prm
    return None


def rel_methods(P, cls='PCBO'):
    out = {}
    for r in RELS:
        q = '%s.add_constraint_%s_zero' % (cls, r)
        out[r] = P.func(q)
    return out


def _self_calls(fn, selfn):
    """(stmt-level node, kind, key) events on the record in statement order is
    not needed; we return a map node-id -> list of events for path walking."""
    ev = {}
    for c in calls_in(fn.node):
        f = c.func
        if not (isinstance(f, ast.Attribute) and is_name(f.value, selfn)):
            continue
        st = enclosing_stmt(c)
        if f.attr == '_append_constraint' and c.args:
            k = c.args[0].value if isinstance(c.args[0], ast.Constant) else '?'
            ev.setdefault(id(st), []).append(('+', k, c))
        elif f.attr == '_pop_constraint' and c.args:
            k = c.args[0].value if isinstance(c.args[0], ast.Constant) else '?'
            ev.setdefault(id(st), []).append(('-', k, c))
        elif f.attr.startswith('add_constraint_') and f.attr.endswith('_zero'):
            k = f.attr[len('add_constraint_'):-len('_zero')]
            ev.setdefault(id(st), []).append(('+', k, c))
        elif f.attr.startswith('add_constraint_'):
            ev.setdefault(id(st), []).append(('+', 'eq', c))   # gate methods record one eq (R06.2)
    return ev


def record_helpers(ctx, rid):
    """Premise of the balance rule: _append_constraint appends its argument under its key on every path, and
    _pop_constraint removes the LAST entry under its key (the two are used as push / pop around nested methods)."""
    P, R = ctx.prog, ctx.res
    ap = P.func('PCBO._append_constraint')
    g = cfg_of(ap.node)
    if len(ap.params) < 3:
        raise AnalysisError("_append_constraint signature changed: %s" % ap.params)
    keyp, conp = ap.params[1], ap.params[2]
    sn = R.self_name(ap)
    pushes = []
    for n in g.stmts():
        for c in calls_in(n):
            if enclosing_stmt(c) is not n or isinstance(n, (ast.If, ast.While, ast.For, ast.Try, ast.With)):
                continue
            if isinstance(c.func, ast.Attribute) and c.func.attr == 'append' and len(c.args) == 1 and is_name(c.args[0], conp):
                recv = src(expand_names(ap.node, c.func.value))
                if recv in ('%s._constraints.setdefault(%s, [])' % (sn, keyp), '%s._constraints[%s]' % (sn, keyp)):
                    pushes.append(n)
    ok = bool(pushes) and g.must_pass_to_exit(ENTRY, set(pushes))
    ctx.inst(rid, ap, pushes[0] if pushes else 'append', ok,
             "every call appends the constraint under its key" if ok else
             "_append_constraint does not append its argument under its key on every path: the nested constraint "
             "methods pop one record per delegated call, so a skipped append makes them pop an unrelated constraint "
             "(and is_solution_valid misses the constraint)")
    pp = P.func('PCBO._pop_constraint')
    g2 = cfg_of(pp.node)
    keyq = pp.params[1]
    sn2 = R.self_name(pp)
    pops = [c for n in g2.stmts() for c in calls_in(n) if isinstance(c.func, ast.Attribute) and c.func.attr == 'pop'
            and src(expand_names(pp.node, c.func.value)) in ('%s._constraints[%s]' % (sn2, keyq), '%s._constraints.get(%s)' % (sn2, keyq),
                                                             '%s._constraints.get(%s, [])' % (sn2, keyq))]
    others = [c for n in g2.stmts() for c in calls_in(n) if isinstance(c.func, ast.Attribute)
              and c.func.attr in ('remove', 'clear', 'popitem', 'insert') and '_constraints' in src(c.func.value)]
    dels = [n for n in g2.stmts() if isinstance(n, ast.Delete) and '_constraints[%s][' % keyq in src(n)]
    pops = list({id(c): c for c in pops}.values())
    others = list({id(c): c for c in others}.values())
    okp = len(pops) == 1 and (not pops[0].args or (len(pops[0].args) == 1 and const_num(pops[0].args[0]) == -1)) \
        and not others and not dels
    ctx.inst(rid, pp, pops[0] if pops else 'pop', okp,
             "removes the most recent record under the key" if okp else
             "_pop_constraint does not remove exactly the last record under its key")


def record_balance(ctx, rid, fn, rel):
    """Net effect {rel: +1} on every path ENTRY -> EXIT."""
    R = ctx.res
    selfn = R.self_name(fn)
    g = cfg_of(fn.node)
    ev = _self_calls(fn, selfn)
    paths = g.paths(ENTRY, (EXIT,), limit=4000)
    if not paths:
        raise AnalysisError("%s: no path to exit" % fn.qual)
    bad = {}
    for path in paths:
        net = {}
        for node, lab in path:
            for sign, k, c in ev.get(id(node), ()):
                net[k] = net.get(k, 0) + (1 if sign == '+' else -1)
        net = {k: v for k, v in net.items() if v}
        if net != {rel: 1}:
            bad[str(sorted(net.items()))] = path
    ok = not bad
    ctx.inst(rid, fn, 'def %s' % fn.name, ok,
             "net effect on the record is {%s: +1} on all %d paths" % (rel, len(paths)) if ok else
             "on some path the net effect on the constraint record is %s instead of {%s: +1}: "
             "is_solution_valid will check a constraint that was not asked for or forget one"
             % (' / '.join(sorted(bad)), rel),
             path=[src(n)[:50].split('\n')[0] for n, _ in list(bad.values())[0] if not isinstance(n, str)][:12] if bad else None)



def slack_weights(ctx, rid, fns):
    """The slack register is sized (num_bits) and weighted (2**i / 1) by the same log_trick flag."""
    n7 = 0
    for fn in fns:
        g = cfg_of(fn.node)
        flag = 'log_trick'
        for loop in [n for n in ast.walk(fn.node) if isinstance(n, ast.For)]:
            nb = [c for c in calls_in(loop.iter, 'num_bits')]
            if not nb:
                continue
            n7 += 1
            c = nb[0]
            farg = c.args[1] if len(c.args) > 1 else kwarg(c, 'log_trick')
            okf = farg is not None and is_name(farg, flag) and flag in fn.all_params
            ctx.inst(rid, fn, loop, okf,
                     "num_bits receives the method's log_trick flag" if okf else
                     "num_bits is called without the method's log_trick flag (got %s): the number of slack "
                     "bits and their weights disagree" % (src(farg) if farg is not None else 'default'))
            # weights in the loop body
            facts = []
            for t, pol, o in g.edge_dominators(loop):
                facts += compare_atoms(t, pol)
            ws = []
            for n in ast.walk(loop):
                if isinstance(n, ast.IfExp) and any(pow2_exponent(x) is not None for x in (n.body, n.orelse)):
                    ws.append(canon(n))
            if ws:
                for w in ws:
                    okw = src(w.test) == flag and pow2_exponent(w.body) is not None and const_num(w.orelse) == 1
                    ctx.inst(rid, fn, w, okw,
                             "weight 2**i under the flag, 1 otherwise" if okw else
                             "slack weight `%s` is not selected by the same flag as the bit count" % src(w))
                    # binary weights 2**i with i the loop index counting from 0: the register then covers every
                    # value 0 .. 2**n - 1 that num_bits sized it for
                    b_ = w.body
                    iv = src(loop.target)
                    expo = pow2_exponent(b_)
                    from0 = isinstance(loop.iter, ast.Call) and is_name(loop.iter.func, 'range') and len(loop.iter.args) == 1
                    oke = expo is not None and src(expo) == iv and from0
                    ctx.inst(rid, fn, b_, oke,
                             "weight of slack bit %s is 2**%s, %s = 0, 1, .." % (iv, iv, iv) if oke else
                             "log-trick slack weight `%s` over `%s` is not 2**%s for %s = 0, 1, ..: some slack values "
                             "between 0 and the bound cannot be represented, feasible assignments keep a positive penalty"
                             % (src(b_), src(loop.iter)[:40], iv, iv))
            else:
                unary = ('falsy', flag) in facts
                powuse = any(pow2_exponent(n) is not None for n in ast.walk(loop))
                okw = unary and not powuse
                ctx.inst(rid, fn, loop, okw,
                         "unit weights under `not log_trick`" if okw else
                         "slack weights are not selected by the log_trick flag")
        # num_bits calls outside a loop header (e.g. `n = num_bits(..)` feeding a comprehension of weights)
        inloops = {id(c) for lp_ in ast.walk(fn.node) if isinstance(lp_, ast.For) for c in calls_in(lp_.iter, 'num_bits')}
        for c in calls_in(fn.node, 'num_bits'):
            if id(c) in inloops:
                continue
            n7 += 1
            farg = c.args[1] if len(c.args) > 1 else kwarg(c, 'log_trick')
            okf = farg is not None and is_name(farg, flag) and flag in fn.all_params
            ctx.inst(rid, fn, c, okf,
                     "num_bits receives the method's log_trick flag" if okf else
                     "num_bits is called without the method's log_trick flag (got %s): the number of slack "
                     "bits and their weights disagree" % (src(farg) if farg is not None else 'default'))
            ws = [n for n in ast.walk(fn.node) if isinstance(n, ast.IfExp) and src(canon(n).test) == flag]
            okw = any(any(pow2_exponent(x) is not None for x in ast.walk(canon(w).body)) and
                      not any(pow2_exponent(x) is not None for x in ast.walk(canon(w).orelse)) and
                      any(const_num(x) == 1 for x in ast.walk(canon(w).orelse)) for w in ws)
            ctx.inst(rid, fn, ws[0] if ws else c, okw,
                     "weights 2**i under the flag, 1 otherwise" if okw else
                     "slack weights are not selected by the log_trick flag (2**i under the flag, 1 otherwise)")
    if n7 < 3:
        raise AnalysisError("slack_weights: fewer than 3 slack registers found (%d)" % n7)

def rules(ctx):
    P, R = ctx.prog, ctx.res
    ctx.rule('R02.20', "no function writes module-level state (memo / registry): results independent of earlier calls", floor=1)
    from .C14 import no_module_state as _nms
    _nms(ctx, 'R02.20')
    from .C14 import derived_fields
    ctx.rule('R02.18', "a field of model objects outside the frozen bookkeeping fields that is written together with the terms / a bookkeeping field is written by every other mutator of that state (no stale memo)", floor=1)
    derived_fields(ctx, 'R02.18')
    ctx.rule('R02.21', "P != 0: one-sided shortcuts only under min == 0 / max == 0; the general branch adds sign*(1 + slack) with "
                       "sign = 2*bit - 1 and widens both bounds with every term", floor=6)
    two_sided_slack(ctx, 'R02.21', P.func('PCBO.add_constraint_ne_zero'))
    ctx.rule('R02.19', "the sat builders the special forms are written with (AND / OR / NOT ...) take their operands as given: "
                       "model versus label only, operand tuple not rebound", floor=14)
    from .C07 import operand_discipline
    operand_discipline(ctx, 'R02.19', 'R02.19')
    E = Effects(P, R)
    ctx.rule('R02.1', "each add_constraint_R_zero records exactly {R: +1} on every path", floor=6)
    ctx.rule('R02.2', "is_solution_valid reads the written keys with the comparator the key names", floor=7)
    ctx.rule('R02.3', "ancillas come from the monotone counter of the receiving object; counter never "
                      "reset on a live model; prefix literal only in its two owners", floor=6)
    ctx.rule('R02.4', "the recorded polynomial is not mutated after it was recorded", floor=6)
    ctx.rule('R02.5', "the recorded polynomial is a fresh boolean-kind copy of the argument", floor=6)
    ctx.rule('R02.6', "`not lam` returns before any ancilla is taken or penalty merged", floor=6)
    ctx.rule('R02.7', "slack weights follow the log_trick flag passed to num_bits", floor=3)
    ctx.rule('R02.8', "bounds are negated+swapped / shifted / unchanged together with the forwarded "
                      "polynomial", floor=6)
    ctx.rule('R02.9', "_get_bounds fills exactly the missing component from approximate_pubo_extrema", floor=3)
    ctx.rule('R02.10', "merged unseeded temporaries cannot allocate ancillas", floor=2)
    ctx.rule('R02.11', "a linear penalty is added only under a guard forcing its sign", floor=5)
    ctx.rule('R02.13', "the receiving model is changed only by += / -= of penalty terms, the record helpers, nested "
                       "constraint methods and ancilla takes - never by update / item assignment / other operators", floor=6)
    ctx.rule('R02.14', "the constraint record is not shared between a model and its copies", floor=2)
    ctx.rule('R02.16', "the weight enters the penalty only linearly (no floor division / modulo / comparison / coercion)", floor=4)
    ctx.rule('R02.15', "a relational method returns early only for lam == 0 or after a special-case penalty was merged", floor=6)
    ctx.rule('R02.12', "slack registers are sized from -X only where X <= 0 is forced, and the unary-slack "
                       "shortcut (X - sum of slack bits)^2 only where min X >= 0 is forced", floor=3)

    ctx.rule('R02.17', "a special-case branch that reads the polynomial's terms by position or through the inverted "
                       "value->key table is guarded by the exact number of terms", floor=2)
    meths = rel_methods(P)
    and_form_premises(ctx, 'R02.17', P.opt_funcs(['_pcbo._special_constraints_eq_zero']) + [meths['eq']])
    arity_guards(ctx, 'R02.17', P.opt_funcs(['_pcbo._special_constraints_eq_zero', '_pcbo._special_constraints_le_zero']) or
                 [meths['eq'], meths['le']])
    if not P.has_func('_pcbo._special_constraints_eq_zero'):
        arity_guards(ctx, 'R02.17', [meths['eq']])
    if not P.has_func('_pcbo._special_constraints_le_zero'):
        arity_guards(ctx, 'R02.17', [meths['le']])

    # ---------------------------------------------------------------- R02.1
    record_helpers(ctx, 'R02.1')
    for rel, fn in meths.items():
        record_balance(ctx, 'R02.1', fn, rel)

    # ---------------------------------------------------------------- R02.2
    isv = P.func('PCBO.is_solution_valid')
    validity_table(ctx, 'R02.2', isv)
    written = set()
    for cname in ('PCBO', 'PCSO'):
        for m in P.cls(cname).methods.values():
            for c in calls_in(m.node, '_append_constraint'):
                a = c.args[0] if m.name != '_append_constraint' and c.args else None
                if isinstance(a, ast.Constant):
                    written.add(a.value)
    ctx.inst('R02.2', isv, 'keys written vs read', written == set(RELS),
             "keys written = keys read = %s" % sorted(written) if written == set(RELS) else
             "constraint keys written %s differ from the relation set %s" % (sorted(written), RELS))

    # ---------------------------------------------------------------- R02.3
    ancilla_rules(ctx, 'R02.3', 'qubovert._pcbo')
    copy_ctor_counter(ctx, 'R02.3')
    from .C14 import record_and_counter_together
    record_and_counter_together(ctx, 'R02.3')

    # ------------------------------------------------------- R02.4 / R02.5
    E.build()
    for rel, fn in meths.items():
        recorded_copy_rules(ctx, E, fn, 'R02.4', 'R02.5', 'PUBO')

    # ---------------------------------------------------------------- R02.6
    for rel, fn in meths.items():
        lam_zero_rule(ctx, 'R02.6', fn)

    # ---------------------------------------------------------------- R02.7
    slack_weights(ctx, 'R02.7', list(meths.values()) + P.opt_funcs(['_pcbo._special_constraints_le_zero']))

    # ---------------------------------------------------------------- R02.8
    for rel, fn in meths.items():
        bounds_handoff(ctx, 'R02.8', fn)

    # ---------------------------------------------------------------- R02.9
    gb = P.func('_pcbo._get_bounds')
    get_bounds_rule(ctx, 'R02.9', gb, 'approximate_pubo_extrema')

    # ---------------------------------------------------------------- R02.10
    unseeded_temporaries(ctx, 'R02.10', ['qubovert._pcbo', 'qubovert._pubo'])

    # ---------------------------------------------------------------- R02.11
    for rel, fn in meths.items():
        penalty_sign(ctx, 'R02.11', fn)

    # ---------------------------------------------------------------- R02.12
    slack_guards(ctx, 'R02.12', list(meths.values()) + P.opt_funcs(['_pcbo._special_constraints_le_zero']))
    slack_register_size(ctx, 'R02.12', [meths['le'], meths['ne']] + P.opt_funcs(['_pcbo._special_constraints_le_zero']))

    # ---------------------------------------------------------------- R02.13 / R02.14
    merge_discipline(ctx, 'R02.13', list(meths.values()) + P.opt_funcs(['_pcbo._special_constraints_eq_zero',
                                                                        '_pcbo._special_constraints_le_zero']))
    record_not_shared(ctx, 'R02.14')
    for rel, fn in meths.items():
        early_exits(ctx, 'R02.15', fn)
    from .C16 import weight_linearity
    weight_linearity(ctx, 'R02.16')


# =====================================================================
def early_exits(ctx, rid, fn):
    g = cfg_of(fn.node)
    body = strip_docstring(fn.node.body)
    last = body[-1] if body else None
    bad = []
    mn, mx, _ = bounds_names(fn)
    allowed = {'lam', mn, mx, 'suppress_warnings', 'log_trick', 'bounds'}
    for r in [n for n in g.stmts() if isinstance(n, ast.Return) and n is not last]:
        # an early return may depend only on the weight, the bounds of P and the options (or follow a special-case
        # penalty); a return decided by the model's state or by P itself skips the penalty for a constraint that needs one
        names = set()
        for t, pol, o in g.edge_dominators(r):
            t2 = t
            for c in ast.walk(t2):
                if isinstance(c, ast.Call) and call_name(c) in ('_special_constraints_eq_zero', '_special_constraints_le_zero'):
                    break
            else:
                names |= names_in(t2)
        if names - allowed:
            # ... unless the special-case penalty was merged on the way (the special-form detection inlined here)
            sn_ = ctx.res.self_name(fn)
            merges = [m for m in g.stmts() if isinstance(m, ast.AugAssign) and is_name(m.target, sn_)
                      and isinstance(m.op, (ast.Add, ast.Sub))]
            if not any(g.dominates([m], r) for m in merges):
                bad.append(r)
    ctx.inst(rid, fn, 'early returns of %s' % fn.name, not bad,
             "early returns only for lam == 0 / after a special-case penalty" if not bad else
             "the early return at line %s is decided by %s, i.e. not only by the weight, the bounds of P and the options: "
             "a constraint that needs a penalty is recorded (or skipped) without being enforced"
             % (bad[0].lineno, [src(t)[:50] for t, pol, o in g.edge_dominators(bad[0])][-2:]))


BAD_MERGE = {'update', 'clear', 'pop', 'popitem', 'setdefault', '__setitem__', '__delitem__', 'refresh', 'normalize',
             'simplify', 'set_mapping', 'set_reverse_mapping', '__init__'}


def merge_discipline(ctx, rid, fns):
    R = ctx.res
    for fn in fns:
        X = R.self_name(fn) or fn.params[0]
        bad = []
        for n in ast.walk(fn.node):
            if isinstance(n, ast.Call) and isinstance(n.func, ast.Attribute) and is_name(n.func.value, X) and n.func.attr in BAD_MERGE:
                bad.append((n, "%s.%s(...) replaces / removes coefficients instead of adding the penalty" % (X, n.func.attr)))
            elif isinstance(n, (ast.Assign, ast.AugAssign)):
                for t in (n.targets if isinstance(n, ast.Assign) else [n.target]):
                    if isinstance(t, ast.Subscript) and is_name(t.value, X):
                        bad.append((n, "item assignment on the receiving model"))
                    if isinstance(n, ast.AugAssign) and is_name(t, X) and not isinstance(n.op, (ast.Add, ast.Sub)):
                        bad.append((n, "the receiving model is combined with `%s=`" % type(n.op).__name__))
                    if isinstance(n, ast.Assign) and is_name(t, X):
                        bad.append((n, "the receiving model name is rebound"))
            elif isinstance(n, ast.Delete):
                for t in n.targets:
                    if isinstance(t, ast.Subscript) and is_name(t.value, X):
                        bad.append((n, "item deletion on the receiving model"))
        # every merged penalty is scaled by the weight
        for n in ast.walk(fn.node):
            if isinstance(n, ast.AugAssign) and is_name(n.target, X) and isinstance(n.op, (ast.Add, ast.Sub)) \
                    and 'lam' in fn.all_params:
                v = n.value
                has = any(is_name(m, 'lam') for m in ast.walk(v))
                if not has:
                    bad.append((n, "the merged penalty `%s` does not depend on the weight lam (a nested constraint call without "
                                   "lam=lam uses the default weight 1)" % src(v)[:60]))
                # ... exactly once: a product of lam with something that was itself built with lam=lam is lam squared
                for m in ast.walk(v):
                    if isinstance(m, ast.BinOp) and isinstance(m.op, (ast.Mult, ast.Pow)):
                        facs = []

                        def flat(e):
                            if isinstance(e, ast.BinOp) and isinstance(e.op, ast.Mult):
                                flat(e.left)
                                flat(e.right)
                            else:
                                facs.append(e)
                        flat(m)
                        weighted = [f for f in facs if is_name(f, 'lam')] + \
                                   [f for f in facs if not is_name(f, 'lam') and any(
                                       isinstance(c, ast.Call) and (any(k.arg == 'lam' and is_name(k.value, 'lam') for k in c.keywords) or
                                                                    any(is_name(a_, 'lam') for a_ in c.args)) for c in ast.walk(f))]
                        if len(weighted) >= 2 or (isinstance(m.op, ast.Pow) and is_name(m.left, 'lam')):
                            bad.append((n, "the merged penalty `%s` carries the weight twice (lam times a penalty built with lam=lam): it "
                                           "scales with lam**2, below lam for 0 < lam < 1" % src(v)[:60]))
                            break
        ctx.inst(rid, fn, 'merge discipline of %s' % fn.qual, not bad,
                 "penalties only enter through += / -=" if not bad else
                 "%s (line %s): terms already on the model are overwritten / lost, so the added function is not the penalty"
                 % (bad[0][1], getattr(bad[0][0], 'lineno', '?')))


def copy_ctor_counter(ctx, rid):
    """The PCBO/PCSO copy constructor (copy(), the non-in-place operators) carries the ancilla counter over."""
    P, R = ctx.prog, ctx.res
    init = P.func('PCBO.__init__')
    sn = R.self_name(init)
    va = init.node.args.vararg.arg if init.node.args.vararg else 'args'
    g = cfg_of(init.node)
    good = []
    for n in g.stmts():
        if not isinstance(n, ast.Assign):
            continue
        pairs = []
        for t in n.targets:
            if isinstance(t, ast.Tuple) and isinstance(n.value, ast.Tuple) and len(t.elts) == len(n.value.elts):
                pairs += list(zip(t.elts, n.value.elts))
            else:
                pairs.append((t, n.value))
        for t, v in pairs:
            if isinstance(t, ast.Attribute) and is_name(t.value, sn) and t.attr == '_ancilla' and \
                    src(v) in ('%s[0].num_ancillas' % va, '%s[0]._ancilla' % va):
                facts = []
                for tt, pol, o in g.edge_dominators(n):
                    facts += compare_atoms(tt, pol)
                if any(f[0] == 'truthy' and 'isinstance(%s[0]' % va in f[1] for f in facts if len(f) == 2):
                    good.append(n)
    ok = False
    if good:
        # on the copy path no later store resets the counter
        later = [m for m in g.stmts() if isinstance(m, ast.Assign) and m not in good and any(
            isinstance(x, ast.Attribute) and x.attr == '_ancilla' and is_name(x.value, sn)
            for t in m.targets for x in ([t] if not isinstance(t, ast.Tuple) else t.elts))]
        ok = not any(g.reaches(gd, m) for gd in good for m in later)
    ctx.inst(rid, init, good[0] if good else 'copy branch', ok,
             "the copy takes over the source model's ancilla counter" if ok else
             "the copy branch of the constructor does not take over the source's ancilla counter: a copy / arithmetic result "
             "of a model that already holds ancillas starts again at __a0 and the next constraint reuses their names")


def record_not_shared(ctx, rid):
    """The PCBO/PCSO copy constructor takes the constraints through the copying getter (R19.3)."""
    P, R = ctx.prog, ctx.res
    init = P.func('PCBO.__init__')
    sn = R.self_name(init)
    va = init.node.args.vararg.arg if init.node.args.vararg else 'args'
    g = cfg_of(init.node)
    found = False
    for n in g.stmts():
        if isinstance(n, ast.Assign) and any(isinstance(t, ast.Attribute) and is_name(t.value, sn) and t.attr == '_constraints'
                                              for t in n.targets):
            facts = []
            for tt, pol, o in g.edge_dominators(n):
                facts += compare_atoms(tt, pol)
            if any(f[0] == 'truthy' and 'isinstance(%s[0]' % va in f[1] for f in facts if len(f) == 2):
                found = True
                ok = src(n.value) == '%s[0].constraints' % va
                ctx.inst(rid, init, n, ok,
                         "the copy takes the constraints through the copying getter" if ok else
                         "the copy constructor takes the constraints as `%s`: a model and its copy (copy(), arithmetic results) "
                         "share constraint lists, so a constraint added to one is checked by the other's is_solution_valid"
                         % src(n.value))
    if not found:
        ctx.inst(rid, init, 'copy branch', False, "copy branch of the constructor does not set the constraint record")
    gt = P.func('PCBO.constraints')
    rets = [r for r in walk_no_nested(strip_docstring(gt.node.body)) if isinstance(r, ast.Return)]
    ok = bool(rets) and all(isinstance(r.value, ast.DictComp) and isinstance(r.value.value, ast.ListComp) for r in rets)
    ctx.inst(rid, gt, rets[0] if rets else 'return', ok,
             "the getter builds fresh lists" if ok else "the constraints getter does not build fresh per-relation lists")


def linear_form(e):
    """{name or attribute text: coefficient, '': constant} of an integer-linear expression, else None."""
    if isinstance(e, ast.Constant) and isinstance(e.value, (int, float)) and not isinstance(e.value, bool):
        return {'': e.value}
    if isinstance(e, (ast.Name, ast.Attribute)):
        return {src(e): 1}
    if isinstance(e, ast.UnaryOp) and isinstance(e.op, (ast.USub, ast.UAdd)):
        f = linear_form(e.operand)
        if f is None:
            return None
        return {k: (-v if isinstance(e.op, ast.USub) else v) for k, v in f.items()}
    if isinstance(e, ast.BinOp) and isinstance(e.op, (ast.Add, ast.Sub)):
        a, b = linear_form(e.left), linear_form(e.right)
        if a is None or b is None:
            return None
        out = dict(a)
        for k, v in b.items():
            out[k] = out.get(k, 0) + (v if isinstance(e.op, ast.Add) else -v)
        return {k: v for k, v in out.items() if v}
    if isinstance(e, ast.BinOp) and isinstance(e.op, ast.Mult):
        a, b = linear_form(e.left), linear_form(e.right)
        for x, y in ((a, b), (b, a)):
            if x is not None and y is not None and set(x) <= {''}:
                c = x.get('', 0)
                return {k: v * c for k, v in y.items() if v * c}
    return None


def slack_register_size(ctx, rid, fns):
    """The slack register of an inequality is `for i in range(num_bits(E, log_trick))` with E the largest slack value that
    can be needed: -min for `<= 0` (P + s == 0, s in 0..-min), max - min - 1 for `!= 0` (after the sign bit widened the
    range), -offset in the unary shortcut.  E is compared as a linear form, so respellings are accepted; a shifted or
    shortened register cannot represent every needed slack value."""
    for fn in fns:
        mn, mx, _ = bounds_names(fn)
        if mn is None and fn.name == '_special_constraints_le_zero':
            mn = bounds_names(fn)[0]
        pname = fn.params[1] if len(fn.params) > 1 else 'P'
        for lp in [n for n in ast.walk(fn.node) if isinstance(n, ast.For)]:
            if '_next_ancilla' not in ' '.join(src(b) for b in lp.body):
                continue
            it = lp.iter
            nb = it.args[0] if isinstance(it, ast.Call) and is_name(it.func, 'range') and len(it.args) == 1 else None
            bare = isinstance(nb, ast.Call) and call_name(nb) == 'num_bits' and nb.args
            if not bare:
                ctx.inst(rid, fn, lp, False,
                         "the slack loop does not run over range(num_bits(<largest slack>, log_trick)) as such (`%s`): bits are "
                         "dropped from / added to the register" % src(it)[:60])
                continue
            got = linear_form(expand_names(fn.node, nb.args[0]))
            if fn.name.endswith('ne_zero'):
                wants, wtxt = [{mx: 1, mn: -1, '': -1}], '%s - %s - 1' % (mx, mn)
            else:
                # the general slack register (-min) and the unary shortcut (-offset, taken only where min == offset) may
                # live in the same function when the special-form helper was inlined
                wants = [{'%s.offset' % pname: -1}] + ([{mn: -1}] if mn else [])
                wtxt = ' / '.join(['-%s.offset' % pname] + (['-%s' % mn] if mn else []))
            ok = got is not None and got in wants
            ctx.inst(rid, fn, nb, ok,
                     "register sized by num_bits(%s)" % wtxt if ok else
                     "the slack register is sized by num_bits(%s) instead of num_bits(%s): slack values needed by feasible "
                     "assignments cannot be represented (or the equality range is wrong)" % (src(nb.args[0]), wtxt))


def and_form_premises(ctx, rid, fns):
    """The shortcut that reads `c*z - c*x*y == 0` as z == AND(x, y): the merge of add_constraint_eq_AND is guarded by no
    constant term, exactly two terms, key lengths {1, 2} and OPPOSITE coefficients (v0 == -v1) - with equal signs
    (`z + x*y`) the equality has other solutions and the AND penalty is 0 on violating assignments."""
    from ..astutil import expand_names
    found = 0
    for fn in fns:
        g = cfg_of(fn.node)
        for c in calls_in(fn.node, 'add_constraint_eq_AND'):
            st = enclosing_stmt(c)
            facts, texts = [], []
            for t, pol, o in g.edge_dominators(st):
                t2 = expand_names(fn.node, t)
                facts += compare_atoms(t2, pol)
                texts.append(src(positive_form(t2, pol)))
            if not facts:
                continue            # the gate method itself, not the shortcut
            found += 1
            # the recognition may live in a matcher that returns the labels (or None / False): its non-empty returns carry
            # the premises
            for f in list(facts):
                nm = f[1] if (len(f) == 2 and f[0] == 'truthy') else f[0] if (len(f) == 3 and f[1] == 'is not' and f[2] == 'None') else None
                if not nm:
                    continue
                direct_calls = []
                if not nm.isidentifier():
                    try:
                        e_ = ast.parse(nm, mode='eval').body
                    except SyntaxError:
                        continue
                    if not (isinstance(e_, ast.Call) and isinstance(e_.func, ast.Name)):
                        continue
                    direct_calls = [e_]
                local_per = []
                for s2, v2 in ([] if direct_calls else assignments_to(fn.node, nm)):
                    if isinstance(v2, ast.AST) and not (isinstance(v2, ast.Constant) and v2.value in (None, False)) and not isinstance(v2, ast.Call):
                        fr = []
                        for t, pol, o in g.edge_dominators(s2):
                            fr += compare_atoms(expand_names(fn.node, t), pol)
                        local_per.append(fr)
                if local_per:
                    facts += [a_ for a_ in local_per[0] if all(a_ in fr for fr in local_per[1:])]
                for s2, v2 in ([(None, d_) for d_ in direct_calls] or assignments_to(fn.node, nm)):
                    if isinstance(v2, ast.Call) and isinstance(v2.func, ast.Name) and ctx.prog.has_func('%s.%s' % (fn.module.name.split('.')[-1], v2.func.id)):
                        h = ctx.prog.func('%s.%s' % (fn.module.name.split('.')[-1], v2.func.id))
                        gh = cfg_of(h.node)
                        rets = [r for r in gh.stmts() if isinstance(r, ast.Return) and r.value is not None and
                                not (isinstance(r.value, ast.Constant) and r.value.value in (None, False))]
                        per = []
                        for r in rets:
                            fr = []
                            for t, pol, o in gh.edge_dominators(r):
                                fr += compare_atoms(expand_names(h.node, t), pol)
                            per.append(fr)
                        if per:
                            common = [a_ for a_ in per[0] if all(a_ in fr for fr in per[1:])]
                            # rename the helper's parameter to the argument text
                            if h.params and v2.args:
                                pa, aa = h.params[0], src(v2.args[0])
                                common = [tuple(re.sub(r'\b%s\b' % re.escape(pa), aa, x) if isinstance(x, str) else x for x in a_) for a_ in common]
                            facts += common
            def two_elems(a, b):
                ma, mb = re.fullmatch(r'(.+)\[(-?\d+)\]', a), re.fullmatch(r'(.+)\[(-?\d+)\]', b)
                if ma and mb and ma.group(1) == mb.group(1) and ma.group(2) != mb.group(2):
                    return True
                # two different names unpacked from the items / values of the polynomial
                return a != b and a.isidentifier() and b.isidentifier()
            opp = any(len(f) == 3 and f[1] == '==' and ((f[0].startswith('-') and two_elems(f[0][1:], f[2])) or
                                                           (f[2].startswith('-') and two_elems(f[2][1:], f[0])) or
                                                           (f[2] == '0' and re.fullmatch(r'(.+\]) \+ (.+\])', f[0]) and
                                                            two_elems(*re.fullmatch(r'(.+\]) \+ (.+\])', f[0]).groups()))) for f in facts) or \
                any(f[0] == 'falsy' and re.fullmatch(r'(\S+) \+ (\S+)', f[1]) for f in facts if len(f) == 2)
            nooff = any(f in (('falsy', 'P.offset'),) or (len(f) == 3 and f[0].endswith('.offset') and f[1] == '==' and f[2] == '0') or
                        (len(f) == 2 and f[0] == 'falsy' and f[1].endswith('.offset')) for f in facts)
            ctx.inst(rid, fn, c, opp and nooff,
                     "AND form recognised only for opposite coefficients and no constant" if opp and nooff else
                     "the AND shortcut is taken without requiring %s: equalities of another shape (e.g. z + x*y == 0, or with a "
                     "constant) get the penalty of z == x*y, which is 0 on assignments that violate them"
                     % ('opposite coefficients (v0 == -v1)' if not opp else 'a zero constant term'))
    return found


def arity_guards(ctx, rid, fns):
    """Positional reads X[c] of X = tuple(Q.keys()/values()/items()) and lookups X[c] in the inverted table
    X = {v: k for k, v in Q.items()} cover a fixed number of terms of Q: the branch must force len(Q) to that number
    (otherwise the remaining terms of the constraint are silently dropped from the penalty)."""
    from ..astutil import expand_names
    for fn in fns:
        g = cfg_of(fn.node)
        seqs, inv = {}, {}
        for n in walk_no_nested(strip_docstring(fn.node.body)):
            if not isinstance(n, ast.Assign):
                continue
            pairs = []
            t = n.targets[0]
            if isinstance(t, ast.Name):
                pairs = [(t.id, n.value)]
            elif isinstance(t, ast.Tuple) and isinstance(n.value, ast.Tuple) and len(t.elts) == len(n.value.elts):
                pairs = [(a.id, b) for a, b in zip(t.elts, n.value.elts) if isinstance(a, ast.Name)]
            for name, v in pairs:
                if isinstance(v, ast.Call) and call_name(v) in ('tuple', 'list', 'sorted') and len(v.args) == 1:
                    q = v.args[0]
                    if isinstance(q, ast.Call) and isinstance(q.func, ast.Attribute) and q.func.attr in ('keys', 'values', 'items') \
                            and not q.args:
                        q = q.func.value
                    seqs[name] = src(expand_names(fn.node, q))
                elif isinstance(v, ast.DictComp) and len(v.generators) == 1:
                    it = v.generators[0].iter
                    if isinstance(it, ast.Call) and isinstance(it.func, ast.Attribute) and it.func.attr == 'items':
                        inv[name] = src(expand_names(fn.node, it.func.value))
        for n in walk_no_nested(strip_docstring(fn.node.body)):
            if not (isinstance(n, ast.Subscript) and isinstance(n.value, ast.Name) and isinstance(n.ctx, ast.Load)):
                continue
            x = n.value.id
            if x not in seqs and x not in inv:
                continue
            idx = const_num(n.slice)
            if idx is None or idx != int(idx):
                continue
            st = enclosing_stmt(n)
            # reads inside the branch test itself are ordered by the test's own short-circuit; only body reads here
            if isinstance(st, (ast.If, ast.While)) and any(n is m for m in ast.walk(st.test)):
                continue
            facts = []
            for t, pol, o in g.edge_dominators(st):
                facts += compare_atoms(expand_names(fn.node, t), pol)
            q = seqs.get(x) or inv.get(x)
            sizes = [f for f in facts if len(f) == 3 and f[1] == '==' and f[0] in ('len(%s)' % q, '%s.num_terms' % q)
                     and re.fullmatch(r'-?\d+', f[2])]
            if x in seqs:
                need = int(idx) + 1 if idx >= 0 else -int(idx)
                ok = any(int(f[2]) >= need for f in sizes)
                ctx.inst(rid, fn, n, ok,
                         "positional read under len(%s) == %s" % (q, sizes[0][2]) if ok else
                         "`%s` reads term %d of %s on a branch that does not fix the number of terms of %s: the "
                         "special form is applied to polynomials with other terms, which are dropped from the penalty"
                         % (src(n), idx, q, q))
            else:
                sets = [f for f in facts if len(f) == 3 and f[1] == '==' and f[0] == 'set(%s.values())' % q]
                ok = False
                for f in sets:
                    try:
                        lit = ast.literal_eval(f[2])
                    except Exception:
                        continue
                    if isinstance(lit, set) and idx in lit and any(int(z[2]) == len(lit) for z in sizes):
                        ok = True
                ctx.inst(rid, fn, n, ok,
                         "value->key lookup under len(%s) == number of distinct values" % q if ok else
                         "`%s` looks a term of %s up by its coefficient, but the branch does not force len(%s) to equal the "
                         "number of distinct coefficients: terms with equal coefficients overwrite each other and are "
                         "dropped from the penalty" % (src(n), q, q))


def slack_guards(ctx, rid, fns):
    for fn in fns:
        g = cfg_of(fn.node)
        for c in calls_in(fn.node, 'num_bits'):
            a = c.args[0] if c.args else None
            if not (isinstance(a, ast.UnaryOp) and isinstance(a.op, ast.USub)):
                continue
            x = src(a.operand)
            st = enclosing_stmt(c)
            # the for statement itself is the CFG node when the call is its iterator
            node = st
            facts = []
            for t, pol, o in g.edge_dominators(node):
                facts += compare_atoms(t, pol)
            ok = any(f in facts for f in ((x, '<=', '0'), (x, '<', '0'), ('0', '>=', x), ('0', '>', x)))
            ctx.inst(rid, fn, c, ok,
                     "num_bits(-%s) only where %s <= 0" % (x, x) if ok else
                     "slack register sized by num_bits(-%s) on a branch that does not force %s <= 0" % (x, x))
        # unary-slack shortcut: diff = X - ancillas ; receiver += lam * diff * diff
        for n in walk_no_nested(strip_docstring(fn.node.body)):
            if isinstance(n, ast.Assign) and isinstance(n.value, ast.BinOp) and isinstance(n.value.op, ast.Sub) \
                    and isinstance(n.value.right, ast.Name):
                anc = n.value.right.id
                fills = [m for m in ast.walk(fn.node) if isinstance(m, ast.AugAssign)
                         and isinstance(m.target, ast.Subscript) and is_name(m.target.value, anc)
                         and '_next_ancilla' in src(m.target.slice)]
                if not fills:
                    continue
                facts = []
                for t, pol, o in g.edge_dominators(n):
                    facts += compare_atoms(t, pol)
                x = src(n.value.left)
                # X = P - P.offset: min X >= min_val - P.offset
                defs = [v for s_, v in assignments_to(fn.node, x) if isinstance(v, ast.BinOp)] if isinstance(n.value.left, ast.Name) else []
                offs = None
                for v in defs:
                    if isinstance(v.op, ast.Sub):
                        offs = src(v.right)
                mn = bounds_names(fn)[0]
                for m_ in ([] if mn else walk_no_nested(strip_docstring(fn.node.body))):
                    if isinstance(m_, ast.Assign) and (is_name(m_.value, 'bounds') or (isinstance(m_.value, ast.Call) and call_name(m_.value) == '_get_bounds')):
                        for t_ in m_.targets:
                            if isinstance(t_, ast.Tuple) and len(t_.elts) == 2:
                                mn = src(t_.elts[0])
                if not mn:
                    mn = min_param(ctx, fn)
                ok = False
                if offs and mn:
                    want = [('falsy', '%s - %s' % (mn, offs)), (mn, '==', offs), (mn, '>=', offs), (offs, '==', mn),
                            (offs, '<=', mn), ('%s - %s' % (mn, offs), '==', '0'), ('%s - %s' % (mn, offs), '>=', '0')]
                    ok = any(w in facts for w in want)
                ctx.inst(rid, fn, n, ok,
                         "unary-slack shortcut only where min(%s) >= 0 is forced" % x if ok else
                         "the shortcut (%s - slack bits)^2 is taken on a branch whose guards do not force "
                         "min(%s) >= 0 (min_val == offset): feasible assignments with negative %s cannot reach "
                         "penalty 0" % (x, x, x))


def validity_table(ctx, rid, isv):
    R = ctx.res
    selfn = R.self_name(isv)
    sol = isv.params[1]
    g = cfg_of(isv.node)
    seen = {}
    for n in g.stmts():
        if not isinstance(n, ast.If):
            continue
        t, neg = n.test, False
        while isinstance(t, ast.UnaryOp) and isinstance(t.op, ast.Not):
            t, neg = t.operand, not neg
        if not (isinstance(t, ast.Call) and is_name(t.func, 'any', 'all') and t.args
                and isinstance(t.args[0], (ast.GeneratorExp, ast.ListComp))):
            continue
        gen = t.args[0]
        it = gen.generators[0].iter
        key = None
        if isinstance(it, ast.Call) and isinstance(it.func, ast.Attribute) and it.func.attr == 'get' \
                and src(it.func.value) == '%s._constraints' % selfn and it.args and isinstance(it.args[0], ast.Constant):
            key = it.args[0].value
        elif isinstance(it, ast.Subscript) and src(it.value) == '%s._constraints' % selfn and isinstance(it.slice, ast.Constant):
            key = it.slice.value
        if key is None:
            continue
        v = src(gen.generators[0].target)
        c3 = norm_compare(gen.elt)
        o = orient(c3, '%s.value(%s)' % (v, sol)) if c3 else None
        if not o or o[1] != '0':
            ctx.inst(rid, isv, n, False, "constraint key %r: element test `%s` is not a comparison of "
                                         "v.value(solution) with 0" % (key, src(gen.elt)))
            seen[key] = False
            continue
        op = o[0]
        # the body must return False
        rets = [s for s in n.body if isinstance(s, ast.Return)]
        ret_false = bool(rets) and is_const(rets[0].value, False)
        if t.func.id == 'any' and not neg:
            valid_op = NEG[op]         # any violation -> False  => valid iff not op
        elif t.func.id == 'all' and neg:
            valid_op = op              # not all(pos) -> False   => valid iff op
        else:
            ctx.inst(rid, isv, n, False, "unrecognised polarity of the validity test for key %r" % key)
            seen[key] = False
            continue
        want = REL_OP.get(key)
        ok = ret_false and valid_op == want
        seen[key] = ok
        ctx.inst(rid, isv, n, ok,
                 "key %r: valid iff value %s 0" % (key, valid_op) if ok else
                 "key %r: is_solution_valid accepts iff value %s 0 but the key names the relation %s 0"
                 % (key, valid_op, want) if ret_false else "key %r: violating branch does not return False" % key)
    # the written-out form: for v in self._constraints.get(key, []): if v.value(solution) OP 0: return False
    for n in g.stmts():
        if not (isinstance(n, ast.For) and isinstance(n.target, ast.Name) and not n.orelse):
            continue
        it = n.iter
        key = None
        if isinstance(it, ast.Call) and isinstance(it.func, ast.Attribute) and it.func.attr == 'get' \
                and src(it.func.value) == '%s._constraints' % selfn and it.args and isinstance(it.args[0], ast.Constant):
            key = it.args[0].value
        elif isinstance(it, ast.Subscript) and src(it.value) == '%s._constraints' % selfn and isinstance(it.slice, ast.Constant):
            key = it.slice.value
        if key is None or key in seen or len(n.body) != 1 or not isinstance(n.body[0], ast.If) or n.body[0].orelse:
            continue
        iff = n.body[0]
        c3 = norm_compare(iff.test)
        o = orient(c3, '%s.value(%s)' % (n.target.id, sol)) if c3 else None
        rets_ = [s_ for s_ in iff.body if isinstance(s_, ast.Return)]
        if not o or o[1] != '0' or len(iff.body) != 1 or not rets_ or not is_const(rets_[0].value, False):
            ctx.inst(rid, isv, n, False, "constraint key %r: the loop does not return False on a comparison of v.value(solution) with 0" % (key,))
            seen[key] = False
            continue
        valid_op = NEG[o[0]]
        want = REL_OP.get(key)
        ok = valid_op == want
        seen[key] = ok
        ctx.inst(rid, isv, n, ok,
                 "key %r: valid iff value %s 0" % (key, valid_op) if ok else
                 "key %r: is_solution_valid accepts iff value %s 0 but the key names the relation %s 0" % (key, valid_op, want))
    for k in RELS:
        if k not in seen:
            ctx.inst(rid, isv, 'key %r' % k, False, "recorded relation %r is never evaluated by is_solution_valid" % k)
    rets = [n for n in g.stmts() if isinstance(n, ast.Return)]
    last = [r for r in rets if is_const(r.value, True)]
    ctx.inst(rid, isv, last[0] if last else 'return True', bool(last),
             "returns True when no recorded constraint is violated" if last else "no `return True` exit")


def ancilla_rules(ctx, rid, modname):
    """R02.3: prefix owners, counter monotone, takes on the receiving object,
    no reset of the counter on a live model (R14.6/R14.7)."""
    P, R = ctx.prog, ctx.res
    na = P.func('PCBO._next_ancilla')
    sn = R.self_name(na)
    rets = [n for n in walk_no_nested(strip_docstring(na.node.body)) if isinstance(n, ast.Return)]
    ok = False
    prefix = None
    for r in rets:
        v = r.value
        # "PREFIX%d" % (counter +- c)   |  PREFIX + str(counter +- c)  |  f"PREFIX{..}"
        if isinstance(v, ast.BinOp) and isinstance(v.op, ast.Mod) and isinstance(v.left, ast.Constant) \
                and isinstance(v.left.value, str) and v.left.value.count('%') == 1:
            prefix = v.left.value.split('%')[0]
            arg = v.right
            ok = _is_counter_expr(arg, sn)
        elif isinstance(v, ast.BinOp) and isinstance(v.op, ast.Add) and isinstance(v.left, ast.Constant) \
                and isinstance(v.right, ast.Call) and is_name(v.right.func, 'str'):
            prefix = v.left.value
            ok = _is_counter_expr(v.right.args[0], sn)
        elif isinstance(v, ast.JoinedStr) and len(v.values) == 2 and isinstance(v.values[0], ast.Constant):
            prefix = v.values[0].value
            ok = _is_counter_expr(v.values[1].value, sn)
    ctx.inst(rid, na, rets[0] if rets else 'return', ok and bool(prefix),
             "name is prefix %r + an injective function of the counter" % prefix if ok else
             "_next_ancilla does not return prefix + (counter +- const): names are not an injective function "
             "of the counter")
    g = cfg_of(na.node)
    from ..fields import field_writes
    incs = [enclosing_stmt(w[0]) for w in field_writes(na.node, {'_ancilla'})
            if w[3] == 'aug' and isinstance(w[4][0], ast.Add) and (const_num(w[4][1]) or 0) > 0]
    ctx.inst(rid, na, incs[0] if incs else 'counter increment', bool(incs) and g.must_pass_to_exit(ENTRY, set(incs)),
             "counter advanced on every evaluation" if incs else
             "_next_ancilla does not advance the counter: every ancilla gets the same name")
    # prefix literal owners
    if prefix:
        for f_ in P.all_funcs():
            for n in ast.walk(f_.node):
                if isinstance(n, ast.Constant) and isinstance(n.value, str) and n.value.startswith(prefix) \
                        and len(n.value) <= len(prefix) + 4 and n is not getattr(f_.node.body[0], 'value', None):
                    okp = f_.name in ('_next_ancilla', 'remove_ancilla_from_solution')
                    ctx.inst(rid, f_, enclosing_stmt(n) or n, okp,
                             "prefix literal in one of its two owners" if okp else
                             "a second creator/reader of the ancilla prefix %r outside _next_ancilla / "
                             "remove_ancilla_from_solution" % prefix)
    # takes: on the object that receives the penalty
    mod = P.modules[modname]
    for f_ in P.all_funcs():
        if f_.module is not mod or f_.name == '_next_ancilla':
            continue
        own = R.self_name(f_)
        for n in ast.walk(f_.node):
            if isinstance(n, ast.Attribute) and n.attr == '_next_ancilla' and isinstance(n.ctx, ast.Load):
                base = src(n.value)
                recvs = set()
                for m in walk_no_nested(strip_docstring(f_.node.body)):
                    if isinstance(m, ast.AugAssign) and isinstance(m.target, ast.Name):
                        recvs.add(m.target.id)
                    if isinstance(m, ast.Call) and isinstance(m.func, ast.Attribute) and \
                            m.func.attr.startswith('add_constraint_') and isinstance(m.func.value, ast.Name):
                        recvs.add(m.func.value.id)
                okb = base in recvs and (base == own or base in f_.all_params)
                ctx.inst(rid, f_, enclosing_stmt(n), okb,
                         "ancilla taken from the counter of `%s`, the object that receives the penalty" % base if okb else
                         "ancilla name taken from `%s`, which is not the object the penalty is added to" % base)
    # no reset on a live model
    from .C14 import reset_reachability, refresh_order
    reset_reachability(ctx, rid)
    refresh_order(ctx, rid)
    from .C05 import derived_from_copy
    derived_from_copy(ctx, rid)


def _is_counter_expr(e, sn):
    t = src(e)
    if t == '%s._ancilla' % sn:
        return True
    if isinstance(e, ast.BinOp) and isinstance(e.op, (ast.Add, ast.Sub)):
        for a, b in ((e.left, e.right), (e.right, e.left)):
            if src(a) == '%s._ancilla' % sn and const_num(b) is not None:
                return True
    if isinstance(e, ast.Tuple) and len(e.elts) == 1:
        return _is_counter_expr(e.elts[0], sn)
    return False


def recorded_copy_rules(ctx, E, fn, rid_freeze, rid_copy, kind_cls):
    R = ctx.res
    fe = E.effects(fn)
    g = cfg_of(fn.node)
    recs = [(n, o) for n, o, how, holder in fe.escapes if 'stored by' in how and '_append_constraint' in how
            and any(not x.startswith('param:key') for x in o)]
    recs = [(n, frozenset(x for x in o)) for n, o in recs]
    # the constraint argument (second arg of _append_constraint)
    sites = []
    for c in calls_in(fn.node, '_append_constraint'):
        if len(c.args) >= 2:
            st = enclosing_stmt(c)
            state = fe.state_at.get(st, {})
            o = E.origins(c.args[1], state, fn, fn.cls.name, None)
            sites.append((c, st, o))
    if not sites:
        ctx.inst(rid_copy, fn, 'def %s' % fn.name, False, "constraint is never recorded (_append_constraint not called)")
        return
    for c, st, o in sites:
        fresh = bool(o) and all(x.startswith('fresh@') for x in o)
        ts = R.infer(c.args[1], fn, fn.cls.name)
        # flow-insensitive type union may include nothing for the raw parameter
        okk = kind_cls in ts
        ctx.inst(rid_copy, fn, c, fresh and okk,
                 "recorded object is a fresh %s copy of the argument" % kind_cls if fresh and okk else
                 ("the recorded constraint may alias the caller's object (origins %s): later edits by the caller "
                  "change what is_solution_valid checks" % sorted(o) if not fresh else
                  "recorded object is not constructed as %s (inferred %s)" % (kind_cls, sorted(ts))))
        # freeze: no mutation of the same allocation reachable after the record
        bad = []
        for n, mo, how in fe.mutations:
            mst = enclosing_stmt(n) if not isinstance(n, ast.stmt) else n
            if mst is None or mst is st:
                continue
            if set(mo) & set(o) and g.reaches(st, mst):
                bad.append((n, how))
        ctx.inst(rid_freeze, fn, c, not bad,
                 "no alias of the recorded polynomial is mutated after the record" if not bad else
                 "the recorded polynomial is mutated after being recorded (%s at line %s): the record no longer "
                 "is the user's constraint" % (bad[0][1], getattr(bad[0][0], 'lineno', '?')))


def lam_zero_rule(ctx, rid, fn, lam='lam'):
    R = ctx.res
    selfn = R.self_name(fn)
    g = cfg_of(fn.node)
    sens = []
    for n in g.stmts():
        hdr = n
        # only the header expression of compound statements
        exprs = []
        if isinstance(n, (ast.If, ast.While)):
            exprs = [n.test]
        elif isinstance(n, ast.For):
            exprs = [n.iter]
        elif isinstance(n, (ast.Assign, ast.AugAssign, ast.Expr, ast.Return)):
            exprs = [n]
        for e in exprs:
            for m in ast.walk(e):
                if isinstance(m, ast.Attribute) and m.attr == '_next_ancilla':
                    sens.append((n, 'ancilla allocation'))
                if isinstance(m, ast.AugAssign) and is_name(m.target, selfn):
                    sens.append((n, 'penalty merge'))
                if isinstance(m, ast.Call) and isinstance(m.func, ast.Attribute) and is_name(m.func.value, selfn) \
                        and m.func.attr.startswith('add_constraint_'):
                    sens.append((n, 'nested constraint'))
                if isinstance(m, ast.Call) and call_name(m) in ('_special_constraints_eq_zero', '_special_constraints_le_zero'):
                    sens.append((n, 'special-case penalty'))
    bad = []
    for n, what in sens:
        facts = []
        for t, pol, o in g.edge_dominators(n):
            facts += compare_atoms(t, pol)
        if ('truthy', lam) not in facts:
            bad.append((n, what))
    # and the early return returns self
    ok = not bad and bool(sens)
    ctx.inst(rid, fn, 'def %s' % fn.name, ok,
             "`not lam` return dominates all %d penalty/ancilla sites" % len(sens) if ok else
             ("%s at line %s is not dominated by the `not lam` early return: a weight of 0 (used by "
              "create_from_info) allocates ancillas or adds terms" % (bad[0][1], bad[0][0].lineno) if bad else
              "no penalty site found"))


def _slack_sum(fn, arg, pname):
    """`P + M({(self._next_ancilla,): w for w in W})`: returns the text of W, else None"""
    if not (isinstance(arg, ast.BinOp) and isinstance(arg.op, ast.Add)):
        return None
    for a, b in ((arg.left, arg.right), (arg.right, arg.left)):
        if not is_name(a, pname):
            continue
        e = expand_names(fn.node, b)
        while isinstance(e, ast.Call) and len(e.args) == 1 and not e.keywords and src(e.func).split('.')[-1] in ('PUBO', 'PCBO', 'dict'):
            e = expand_names(fn.node, e.args[0])
        if isinstance(e, ast.DictComp) and len(e.generators) == 1 and not e.generators[0].ifs and '_next_ancilla' in src(e.key) \
                and isinstance(e.generators[0].target, ast.Name) and is_name(e.value, e.generators[0].target.id):
            return src(e.generators[0].iter)
    return None


def bounds_handoff(ctx, rid, fn):
    R = ctx.res
    selfn = R.self_name(fn)
    pname = fn.params[1]
    # names unpacked from _get_bounds
    mn, mx, gbst = bounds_names(fn)
    for n in [gbst] if gbst is not None else []:
        if True:
            gb = n.value
            okp = bool(gb.args) and is_name(gb.args[0], pname) and (
                len(gb.args) > 1 and is_name(gb.args[1], 'bounds') or is_name(kwarg(gb, 'bounds') or ast.Constant(0), 'bounds'))
            ctx.inst(rid, fn, n, okp and mn is not None,
                     "bounds of the recorded polynomial unpacked as (%s, %s)" % (mn, mx) if okp and mn else
                     "_get_bounds is not called with (P, bounds) / not unpacked as (min, max)")
    if mn is None:
        ctx.inst(rid, fn, 'def %s' % fn.name, False, "bounds are never obtained from _get_bounds")
        return
    for c in calls_in(fn.node):
        f = c.func
        if not (isinstance(f, ast.Attribute) and is_name(f.value, selfn) and f.attr.startswith('add_constraint_')
                and f.attr.endswith('_zero')):
            continue
        arg = expand_names(fn.node, c.args[0]) if c.args else None
        b = kwarg(c, 'bounds')
        if b is None:
            ctx.inst(rid, fn, c, False, "nested constraint is called without the tracked bounds")
            continue
        if isinstance(b, ast.Name):
            defs = [v for s, v in assignments_to(fn.node, b.id) if isinstance(v, ast.Tuple)]
            # `bounds = min_val, max_val = ...` style or `bounds = -max_val, -min_val`
            bt = defs[-1] if defs else None
        else:
            bt = b if isinstance(b, ast.Tuple) else None
        if bt is None or len(bt.elts) != 2:
            ctx.inst(rid, fn, c, False, "bounds argument `%s` is not a (lo, hi) pair of the tracked bounds" % src(b))
            continue
        lo, hi = src(bt.elts[0]), src(bt.elts[1])
        if isinstance(arg, ast.UnaryOp) and isinstance(arg.op, ast.USub):
            ok = (lo, hi) == ('-' + mx, '-' + mn)
            ctx.inst(rid, fn, c, ok,
                     "polynomial negated, bounds (-%s, -%s)" % (mx, mn) if ok else
                     "the negated polynomial is forwarded with bounds (%s, %s) instead of (-%s, -%s): the "
                     "enclosure no longer contains the polynomial's range" % (lo, hi, mx, mn))
        elif _slack_sum(fn, arg, pname) is not None:
            # P + (slack ancillas weighted by the elements of W): the maximum grows by sum(W), the minimum stays
            W = _slack_sum(fn, arg, pname)
            hi_x = src(expand_names(fn.node, bt.elts[1]))
            ok = lo == mn and (hi in ('%s + sum(%s)' % (mx, W), 'sum(%s) + %s' % (W, mx)) or
                               hi_x in ('%s + sum(%s)' % (mx, W), 'sum(%s) + %s' % (W, mx)))
            ctx.inst(rid, fn, c, ok,
                     "polynomial widened by slack bits weighted by %s, bounds (%s, %s + sum(%s))" % (W, mn, mx, W) if ok else
                     "the polynomial plus slack bits weighted by %s is forwarded with bounds (%s, %s) instead of (%s, %s + sum(%s))"
                     % (W, lo, hi, mn, mx, W))
        else:
            ok = (lo, hi) == (mn, mx)
            ctx.inst(rid, fn, c, ok,
                     "polynomial and bounds (%s, %s) forwarded together" % (mn, mx) if ok else
                     "polynomial forwarded with bounds (%s, %s) instead of (%s, %s)" % (lo, hi, mn, mx))
    # shift: P = P + c  =>  both bounds += c in the same block
    for n in walk_no_nested(strip_docstring(fn.node.body)):
        if isinstance(n, ast.Assign) and len(n.targets) == 1 and is_name(n.targets[0], pname) \
                and isinstance(n.value, ast.BinOp) and isinstance(n.value.op, (ast.Add, ast.Sub)):
            cst = None
            for a, b_ in ((n.value.left, n.value.right), (n.value.right, n.value.left)):
                if is_name(a, pname) and const_num(b_) is not None:
                    cst = const_num(b_) if isinstance(n.value.op, ast.Add) else -const_num(b_)
            if cst is None:
                continue
            blk = parent(n)
            sh = {}
            for m in getattr(blk, 'body', []) + getattr(blk, 'orelse', []):
                if isinstance(m, ast.AugAssign) and isinstance(m.target, ast.Name) and m.target.id in (mn, mx):
                    v = const_num(m.value)
                    if v is not None:
                        sh[m.target.id] = v if isinstance(m.op, ast.Add) else -v
            ok = sh.get(mn) == cst and sh.get(mx) == cst
            ctx.inst(rid, fn, n, ok,
                     "polynomial and both bounds shifted by %s" % cst if ok else
                     "polynomial shifted by %s but bounds shifted by %s" % (cst, sh))
    # slack widening (gating only for the direction): P[..] += v with max += v ; P += sign*v*.. with both
    for n in walk_no_nested(strip_docstring(fn.node.body)):
        if isinstance(n, ast.AugAssign) and isinstance(n.target, ast.Subscript) and is_name(n.target.value, pname) \
                and '_next_ancilla' in src(n.target.slice):
            blk = parent(n)
            v = src(n.value)
            mates = [m for m in getattr(blk, 'body', []) if isinstance(m, ast.AugAssign) and is_name(m.target, mx)
                     and isinstance(m.op, ast.Add) and src(m.value) == v]
            ctx.inst(rid, fn, n, bool(mates),
                     "slack bit of weight %s widens the upper bound by %s" % (v, v) if mates else
                     "a slack bit of weight %s is added without widening the tracked upper bound" % v)


def two_sided_slack(ctx, rid, fn):
    """The general branch of add_constraint_ne_zero: P != 0 is P + s*(1 + k) == 0 for a sign s in {-1, +1} and a slack
    k >= 0.  Decided on the shape: the sign is 2*b - 1 of a fresh ancilla bit, every slack term is sign * weight * fresh bit
    added (+=) to the working copy, each addition widens both tracked bounds by its weight in the same block, and the
    one-sided shortcuts are taken only under min_val == 0 (-> P > 0) / max_val == 0 (-> P < 0)."""
    R = ctx.res
    selfn = R.self_name(fn)
    pname = fn.params[1]
    mn, mx, gbst = bounds_names(fn)
    if mn is None:
        ctx.inst(rid, fn, 'def %s' % fn.name, False, "bounds are never obtained from _get_bounds")
        return
    g = cfg_of(fn.node)

    def fresh_call(e):
        return isinstance(e, ast.Call) and call_name(e) in ('boolean_var', 'create_var') and e.args and '_next_ancilla' in src(e.args[0])
    aliases = {n.targets[0].id for n in walk_no_nested(strip_docstring(fn.node.body)) if isinstance(n, ast.Assign) and len(n.targets) == 1
               and isinstance(n.targets[0], ast.Name) and fresh_call(n.value)}

    def fresh_bit(e):
        return fresh_call(e) or (isinstance(e, ast.Name) and e.id in aliases)
    # (1) one-sided shortcuts
    for c in calls_in(fn.node):
        f = c.func
        if not (isinstance(f, ast.Attribute) and is_name(f.value, selfn) and f.attr in ('add_constraint_gt_zero', 'add_constraint_lt_zero')):
            continue
        facts = []
        for t, pol, o in g.edge_dominators(enclosing_stmt(c)):
            facts += compare_atoms(t, pol)
        if f.attr.endswith('gt_zero'):
            ok = (mn, '==', '0') in facts or (mn, '>=', '0') in facts
            ctx.inst(rid, fn, c, ok, "P != 0 is encoded as P > 0 only where min == 0" if ok else
                     "P != 0 is encoded as P > 0 on a branch that does not force %s >= 0: assignments with P < 0 satisfy the "
                     "constraint but are penalised" % mn)
        else:
            ok = (mx, '==', '0') in facts or (mx, '<=', '0') in facts
            ctx.inst(rid, fn, c, ok, "P != 0 is encoded as P < 0 only where max == 0" if ok else
                     "P != 0 is encoded as P < 0 on a branch that does not force %s <= 0: assignments with P > 0 satisfy the "
                     "constraint but are penalised" % mx)
    # (2) the sign
    signs = []
    for n in walk_no_nested(strip_docstring(fn.node.body)):
        if isinstance(n, ast.Assign) and len(n.targets) == 1 and isinstance(n.targets[0], ast.Name) and any(fresh_bit(x) for x in ast.walk(n.value)) \
                and not fresh_call(n.value):
            v = n.value
            ok = False
            if isinstance(v, ast.BinOp) and isinstance(v.op, ast.Sub) and const_num(v.right) == 1 and isinstance(v.left, ast.BinOp) \
                    and isinstance(v.left.op, ast.Mult):
                a, b = v.left.left, v.left.right
                ok = (const_num(a) == 2 and fresh_bit(b)) or (const_num(b) == 2 and fresh_bit(a))
            if isinstance(v, ast.BinOp) and isinstance(v.op, ast.Sub) and const_num(v.left) == 1 and isinstance(v.right, ast.BinOp) \
                    and isinstance(v.right.op, ast.Mult):
                a, b = v.right.left, v.right.right
                ok = (const_num(a) == 2 and fresh_bit(b)) or (const_num(b) == 2 and fresh_bit(a))
            signs.append(n.targets[0].id)
            ctx.inst(rid, fn, n, ok, "sign = 2*bit - 1 takes the values -1 and +1" if ok else
                     "`%s` is not 2*bit - 1 of a fresh ancilla bit: the sign does not range over {-1, +1}" % src(n)[:60])
    if not signs:
        ctx.inst(rid, fn, 'sign of the two-sided slack', False, "no sign ancilla found in the general branch of %s" % fn.name)
        return
    sg = signs[0]
    # (3) + (4) terms added to the working copy and the bounds widened with them
    n_terms = 0
    for n in walk_no_nested(strip_docstring(fn.node.body)):
        if not (isinstance(n, ast.AugAssign) and is_name(n.target, pname)):
            continue
        if sg not in names_in(n.value):
            continue
        n_terms += 1
        # product of sign, an optional weight name / constant, an optional fresh bit
        factors = []

        def flat(e):
            if isinstance(e, ast.BinOp) and isinstance(e.op, ast.Mult):
                flat(e.left)
                flat(e.right)
            else:
                factors.append(e)
        flat(n.value)
        w = [x for x in factors if not is_name(x, sg) and not fresh_bit(x)]
        bits = [x for x in factors if fresh_bit(x)]
        okt = isinstance(n.op, ast.Add) and sum(1 for x in factors if is_name(x, sg)) == 1 and len(w) <= 1 and len(bits) <= 1 and \
            all(isinstance(x, (ast.Name, ast.Constant)) for x in w) and (len(bits) == 1 or not w)
        wt = src(w[0]) if w else '1'
        ctx.inst(rid, fn, n, okt, "adds sign * %s%s" % (wt, ' * fresh bit' if bits else '') if okt else
                 "`%s` is not `+= sign * weight * fresh bit`: the slack no longer counts |P| - 1 with the sign of P" % src(n)[:60])
        blk = parent(n)
        body = [lst for lst in (getattr(blk, 'body', []), getattr(blk, 'orelse', []), getattr(blk, 'finalbody', [])) if any(q is n for q in lst)]
        body = body[0] if body else []
        up = [m for m in body if isinstance(m, ast.AugAssign) and is_name(m.target, mx) and isinstance(m.op, ast.Add) and src(m.value) == wt]
        dn = [m for m in body if isinstance(m, ast.AugAssign) and is_name(m.target, mn) and isinstance(m.op, ast.Sub) and src(m.value) == wt]
        okb = bool(up) and bool(dn)
        ctx.inst(rid, fn, n, okb, "both bounds widened by %s with the term" % wt if okb else
                 "the term `%s` is added without widening both tracked bounds by %s (%s += %s, %s -= %s) in the same block: the "
                 "bounds handed to the equality no longer enclose the polynomial / the register is sized from stale bounds"
                 % (src(n)[:40], wt, mx, wt, mn, wt))
    if n_terms < 2:
        ctx.inst(rid, fn, 'terms of the two-sided slack', False,
                 "the general branch adds %d signed term(s) to the polynomial, expected the unit `+= sign` and the weighted slack bits" % n_terms)


def get_bounds_rule(ctx, rid, gb, approx):
    g = cfg_of(gb.node)
    pp, bp = gb.params[0], gb.params[1]
    n = 0
    rets = [r for r in walk_no_nested(strip_docstring(gb.node.body)) if isinstance(r, ast.Return)]
    # a completion is written either as `bounds = <pair>` or directly as `return <pair>`
    sites = [(s, v) for s, v in assignments_to(gb.node, bp)] + [(r, r.value) for r in rets if r.value is not None and not is_name(r.value, bp)]
    for s, v in sites:
        if not isinstance(v, ast.AST):
            continue
        facts = []
        for t, pol, o in g.edge_dominators(s):
            facts += compare_atoms(t, pol)
        full = '%s(%s)' % (approx, pp)
        if isinstance(v, ast.Tuple) and len(v.elts) == 2:
            n += 1
            e0, e1 = src(v.elts[0]), src(v.elts[1])
            if ('%s[0]' % bp, 'is', 'None') in facts:
                ok = e0 == full + '[0]' and e1 == '%s[1]' % bp
            elif ('%s[1]' % bp, 'is', 'None') in facts:
                ok = e1 == full + '[1]' and e0 == '%s[0]' % bp
            else:
                ok = False
            ctx.inst(rid, gb, s, ok,
                     "the missing component is filled from the enclosure, the given one kept" if ok else
                     "_get_bounds builds (%s, %s) under %s: the wrong component is replaced" % (e0, e1, [f for f in facts if len(f) == 3]))
        else:
            n += 1
            ok = src(v) == full
            ctx.inst(rid, gb, s, ok, "both bounds from %s" % approx if ok else
                     "bounds taken from `%s`, not from %s(%s)" % (src(v), approx, pp))
    plain = [r for r in rets if r.value is not None and is_name(r.value, bp)]
    ctx.inst(rid, gb, rets[0] if rets else 'return', bool(plain),
             "returns the completed pair" if plain else "the given bounds are never returned as they are")
    if n < 3:
        raise AnalysisError("_get_bounds: fewer than 3 completion branches recognised")


def unseeded_temporaries(ctx, rid, modnames):
    P, R = ctx.prog, ctx.res
    n = 0
    for f_ in P.all_funcs():
        if f_.module.name not in modnames:
            continue
        recv = f_.cls.name if f_.cls else None
        for c in calls_in(f_.node):
            f = c.func
            if isinstance(f, ast.Attribute) and f.attr.startswith('add_constraint_') and isinstance(f.value, ast.Call) \
                    and not f.value.args and src(f.value.func).split('.')[-1] in ('PCBO', 'PCSO'):
                n += 1
                tcls = src(f.value.func).split('.')[-1]
                m = P.lookup_method(tcls, f.attr)
                if not isinstance(m, FuncInfo):
                    ctx.inst(rid, f_, c, False, "temporary's method %s does not exist" % f.attr)
                    continue
                reach = R.reachable_funcs(m, tcls)
                hit = [v for k, v in reach.items() if k[0].endswith('._next_ancilla')]
                ctx.inst(rid, f_, c, not hit,
                         "%s on an unseeded temporary cannot reach _next_ancilla" % f.attr if not hit else
                         "terms of an unseeded temporary %s() are merged but %s can allocate ancillas (named from a "
                         "counter starting at 0): names collide with the receiving model's ancillas" % (tcls, f.attr),
                         path=hit[0] if hit else None)
    if n < 2:
        raise AnalysisError("R02.10: fewer than 2 unseeded temporaries found")


def penalty_sign(ctx, rid, fn):
    R = ctx.res
    selfn = R.self_name(fn)
    pname = fn.params[1]
    g = cfg_of(fn.node)
    mn, mx, _ = bounds_names(fn)
    for n in g.stmts():
        if not (isinstance(n, ast.AugAssign) and is_name(n.target, selfn)):
            continue
        v = expand_names(fn.node, n.value)
        # occurrences of the polynomial as a factor (not as the base of P.offset and the like)
        attr_bases = {id(x.value) for x in ast.walk(v) if isinstance(x, ast.Attribute)}
        occ = sum(1 for x in ast.walk(v) if is_name(x, pname) and id(x) not in attr_bases)
        facts = []
        for t, pol, o in g.edge_dominators(n):
            facts += compare_atoms(t, pol)
        # chained comparison min == max == 0 yields (min == max) and (max == 0)
        def has(name, ops):
            for f in facts:
                if len(f) != 3:
                    continue
                if f[0] == name and f[2] == '0' and f[1] in ops:
                    return True
                if f[2] == name and f[0] == '0' and FLIP.get(f[1]) in ops:
                    return True
            # min == max and max == 0  => min == 0
            other = mx if name == mn else mn
            if ((name, '==', other) in facts or (other, '==', name) in facts) and \
                    '==' in ops and ((other, '==', '0') in facts or ('0', '==', other) in facts):
                return True
            return False
        if occ == 0:
            ok = isinstance(n.op, ast.Add)
            ctx.inst(rid, fn, n, ok, "constant penalty +lam" if ok else "constant penalty subtracted")
        elif occ == 1:
            if mn is None:
                ctx.inst(rid, fn, n, False, "linear penalty without tracked bounds")
            elif isinstance(n.op, ast.Add):
                ok = has(mn, ('>', '>=', '=='))
                ctx.inst(rid, fn, n, ok,
                         "+lam*P only where %s >= 0" % mn if ok else
                         "the linear penalty `%s` is added on a branch whose guards %s do not force %s >= 0: "
                         "the penalty can be negative" % (src(n), [f for f in facts if len(f) == 3][:4], mn))
            elif isinstance(n.op, ast.Sub):
                ok = has(mx, ('<', '<=', '=='))
                ctx.inst(rid, fn, n, ok,
                         "-lam*P only where %s <= 0" % mx if ok else
                         "the linear penalty `%s` is subtracted on a branch whose guards do not force %s <= 0: "
                         "the penalty can be negative" % (src(n), mx))
        elif occ == 2 and isinstance(n.op, ast.Add):
            ctx.inst(rid, fn, n, True, "square penalty lam*P*P is non-negative", nontrivial=False)
        else:
            ctx.inst(rid, fn, n, False, "unrecognised penalty form `%s`" % src(n))
