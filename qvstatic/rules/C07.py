"""C07 - sat expression builders.  Rules R07.1 - R07.3 (DESIGN 4.7)."""
import ast

from ..pymodel import AnalysisError, FuncInfo
from ..astutil import (src, is_name, call_name, walk_no_nested, strip_docstring, compare_atoms,
                       enclosing_stmt, calls_in, assignments_to, const_num)
from ..cfg import cfg_of, ENTRY, EXIT
from ..effects import Effects, root

EXPLANATION = (
    "Decides that the eight builders never modify or alias their inputs (interprocedural effect "
    "analysis: no mutation event on an operand-origin object, every result is a fresh object, "
    "BUFFER copies models), that the negated gates are NOT of their positive gate over the same "
    "operands and NOT is 1 - BUFFER, and that the recursive folds terminate (strictly shorter "
    "operand tuple, empty and one-operand base cases).")
NOT_DECIDED = "the truth functions themselves (product, x + v(1-x), (x-v)^2 folds) - arithmetic."
TRUSTED = ["DictArithmetic operators return fresh objects (decided under C05)"]

BUILDERS = ['BUFFER', 'NOT', 'AND', 'NAND', 'OR', 'NOR', 'XOR', 'XNOR']
NEGATED = {'NAND': 'AND', 'NOR': 'OR', 'XNOR': 'XOR'}


def no_metadata_reads(ctx, rid, roots):
    """`name` is display metadata set by create_var; no arithmetic operator maintains it (x *= y keeps the old name).
    A builder / encoder whose result depends on it computes a different function for a model that was edited in place."""
    P, R = ctx.prog, ctx.res
    for fn, recv in roots:
        reach = R.reachable_funcs(fn, recv)
        bad = None
        for (q, r), path in reach.items():
            f = P.functions.get(q)
            if f is None:
                continue
            for n in ast.walk(f.node):
                hit = (isinstance(n, ast.Attribute) and n.attr == 'name' and isinstance(n.ctx, ast.Load)) or \
                      (isinstance(n, ast.Call) and is_name(n.func, 'getattr', 'hasattr') and len(n.args) >= 2
                       and isinstance(n.args[1], ast.Constant) and n.args[1].value == 'name')
                if hit:
                    bad = (f, n, path)
                    break
            if bad:
                break
        ctx.inst(rid, fn, 'metadata reads reachable from %s' % fn.name, bad is None,
                 "no reachable function reads the `name` of a model (%d functions)" % len(reach) if bad is None else
                 "`%s` in %s: the result depends on the operand's `name`, which in-place arithmetic does not maintain - "
                 "a variable that was edited in place is still treated as the bare variable"
                 % (src(bad[1])[:60], bad[0].qual), path=bad[2] if bad else None)


def builders_pure(ctx, rid, E=None):
    """The sat builders neither mutate their operands nor return one of them (premise of the gate methods, too)."""
    P, R = ctx.prog, ctx.res
    if E is None:
        E = Effects(P, R)
        E.build()
    fns = {b: P.func('_satisfiability.%s' % b) for b in BUILDERS}
    for name, fn in fns.items():
        fe = E.effects(fn)
        s = E.summary(fn)
        bad = [(n, o, how) for n, os_, how in fe.mutations for o in os_ if root(o).startswith('param:')]
        ctx.inst(rid, fn, 'def %s (mutation)' % name, not bad,
                 "no operand-origin object is mutated" if not bad else
                 "operand `%s` may be mutated in %s: %s (line %s)" % (bad[0][1], name, bad[0][2], getattr(bad[0][0], 'lineno', '?')))
        alias = sorted(o for o in s['ret'] if root(o).startswith('param:') and not o.startswith('elem:'))
        ctx.inst(rid, fn, 'def %s (result)' % name, not alias,
                 "every result is a freshly constructed object" if not alias else
                 "%s can return its operand itself (%s): in-place arithmetic on the result modifies the input" % (name, alias))


def no_collapsing_dictcomp(ctx, rid, fns=None):
    """A dict display / comprehension whose keys are canonicalised (squash_key, sorted, set) as it is built keeps only the
    last of the entries that collapse onto one key: terms of an operand that denote one monomial ((x, y) and (y, x)) must be
    summed - which the model constructors do when they are handed the raw dict."""
    P = ctx.prog
    if fns is None:
        fns = {b: P.func('_satisfiability.%s' % b) for b in BUILDERS}
    for name, fn in fns.items():
        bad = []
        for n in ast.walk(fn.node):
            if isinstance(n, ast.DictComp):
                k = n.key
                if any(isinstance(c, ast.Call) and (call_name(c) in ('squash_key', 'sorted', 'set', 'frozenset')) for c in ast.walk(k)):
                    bad.append(n)
        ctx.inst(rid, fn, bad[0] if bad else 'dict displays of %s' % name, not bad,
                 "no dict is built under canonicalised keys" if not bad else
                 "`%s` builds a dict under canonicalised keys: entries that collapse onto one key overwrite each other instead of "
                 "being summed, so an operand written with both key orders loses part of its coefficients" % src(bad[0])[:70])


def operand_discipline(ctx, rid_types, rid_tuple, fns=None):
    """Operands of the sat builders are told apart only as model versus label, and the operand tuple is used as given
    (also a premise of the constraint methods that build penalties with AND / OR / NOT ...)."""
    P, R = ctx.prog, ctx.res
    if fns is None:
        fns = {b: P.func('_satisfiability.%s' % b) for b in BUILDERS}
    for name, fn in fns.items():
        bad = []
        for n in ast.walk(fn.node):
            if isinstance(n, ast.Call) and is_name(n.func, 'isinstance') and len(n.args) == 2:
                cls_ = n.args[1]
                names = [src(e) for e in (cls_.elts if isinstance(cls_, ast.Tuple) else [cls_])]
                for c in names:
                    base = c.split('.')[-1]
                    if base == 'dict' or base in P.classes and R.is_model_class(base) or base in ('BOOLEAN_MODELS', 'SPIN_MODELS'):
                        continue
                    bad.append((n, c))
            if isinstance(n, ast.Compare) and any(isinstance(c_, ast.Call) and is_name(c_.func, 'type') for c_ in [n.left] + n.comparators):
                bad.append((n, src(n)))
        ctx.inst(rid_types, fn, 'operand type tests in %s' % name, not bad,
                 "only model-versus-label tests" if not bad else
                 "`%s` treats operands of type %s specially: such a value is a legitimate variable label (any hashable), so the "
                 "gate computes a different function for it" % (src(bad[0][0])[:60], bad[0][1]))
    for name, fn in fns.items():
        va = fn.node.args.vararg.arg if fn.node.args.vararg else None
        if va is None:
            continue
        reb = [n for n in ast.walk(fn.node) if isinstance(n, (ast.Assign, ast.AugAssign, ast.AnnAssign)) and any(
            isinstance(x, ast.Name) and x.id == va and isinstance(x.ctx, ast.Store)
            for t in (n.targets if isinstance(n, ast.Assign) else [n.target]) for x in ast.walk(t))]
        # a return that is nothing but the gate of a strict part of the operands leaves the other operands out
        from ..astutil import expand_names as _xn
        for r_ in [n for n in ast.walk(fn.node) if isinstance(n, ast.Return) and n.value is not None]:
            v_ = _xn(fn.node, r_.value)
            if isinstance(v_, ast.Call) and isinstance(v_.func, ast.Name) and len(v_.args) == 1 and isinstance(v_.args[0], ast.Starred) \
                    and isinstance(v_.args[0].value, ast.Subscript) and is_name(v_.args[0].value.value, va) and isinstance(v_.args[0].value.slice, ast.Slice):
                reb = reb + [r_]
        ctx.inst(rid_tuple, fn, reb[0] if reb else 'operands of %s' % name, not reb,
                 "the operands are used as given" if not reb else
                 "`%s` replaces the operand tuple: operands that are dropped (e.g. identically-zero models) or unpacked (a tuple "
                 "is a legitimate label) change the gate - with no operand left the empty-gate constant is returned" % src(reb[0])[:60])


def rules(ctx):
    P, R = ctx.prog, ctx.res
    ctx.rule('R07.9', "no function writes module-level state (memo / registry): results independent of earlier calls", floor=1)
    from .C14 import no_module_state as _nms
    _nms(ctx, 'R07.9')
    from .C14 import derived_fields as _df
    _df(ctx, 'R07.9')      # ... nor keeps derived state on a model that some mutator forgets (stale memo)
    E = Effects(P, R)
    E.build()
    ctx.rule('R07.1', "builders neither mutate nor alias their operands", floor=16)
    ctx.rule('R07.2', "negated gates are NOT(positive gate) over the same operands; NOT is 1 - BUFFER", floor=4)
    ctx.rule('R07.3', "recursive folds recurse on a strictly shorter tuple and have both base cases", floor=4)
    ctx.rule('R07.4', "a model-valued expression is never truth-tested (an identically false sub-expression is an "
                      "empty, falsy model)", floor=8)
    fns = {b: P.func('_satisfiability.%s' % b) for b in BUILDERS}
    builders_pure(ctx, 'R07.1', E)
    # BUFFER: model branch copies
    bf = fns['BUFFER']
    x = bf.params[0]
    for r in [n for n in walk_no_nested(strip_docstring(bf.node.body)) if isinstance(n, ast.Return)]:
        v = r.value
        parts = [v.body, v.orelse] if isinstance(v, ast.IfExp) else [v]
        for p_ in parts:
            ok = isinstance(p_, ast.Call) and (
                (isinstance(p_.func, ast.Attribute) and p_.func.attr == 'copy' and is_name(p_.func.value, x)) or
                src(p_.func).split('.')[-1] in ('PUBO', 'PCBO', 'QUBO') or
                (is_name(p_.func, 'type') is False and src(p_.func) in ('type(%s)' % x, '%s.__class__' % x)))
            ctx.inst('R07.1', bf, p_, ok,
                     "BUFFER constructs / copies" if ok else "BUFFER returns `%s`, not a copy or a new model" % src(p_))
    # ---------------------------------------------------------------- R07.2
    for neg, pos in NEGATED.items():
        fn = fns[neg]
        va = fn.node.args.vararg.arg if fn.node.args.vararg else None
        rets = [n for n in walk_no_nested(strip_docstring(fn.node.body)) if isinstance(n, ast.Return)]
        ok = len(rets) == 1 and src(rets[0].value) == 'NOT(%s(*%s))' % (pos, va)
        ctx.inst('R07.2', fn, rets[0] if rets else 'return', ok,
                 "%s = NOT(%s(*operands))" % (neg, pos) if ok else
                 "%s returns `%s`, not NOT(%s(*%s))" % (neg, src(rets[0].value) if rets else '', pos, va))
    fn = fns['NOT']
    rets = [n for n in walk_no_nested(strip_docstring(fn.node.body)) if isinstance(n, ast.Return)]
    ok = len(rets) == 1 and src(rets[0].value) == '1 - BUFFER(%s)' % fn.params[0]
    ctx.inst('R07.2', fn, rets[0] if rets else 'return', ok,
             "NOT = 1 - BUFFER(x)" if ok else "NOT returns `%s`" % (src(rets[0].value) if rets else ''))
    # ---------------------------------------------------------------- R07.3
    for name in ('OR', 'XOR'):
        fn = fns[name]
        va = fn.node.args.vararg.arg
        g = cfg_of(fn.node)
        rec = [c for c in calls_in(fn.node, name)]
        if not rec:
            ctx.inst('R07.3', fn, 'def %s' % name, True, "not recursive (loop form)", nontrivial=False)
            ctx.inst('R07.3', fn, 'def %s base' % name, True, "not recursive", nontrivial=False)
            continue
        for c in rec:
            a = c.args[0] if c.args else None
            shorter = isinstance(a, ast.Starred) and isinstance(a.value, ast.Subscript) and is_name(a.value.value, va) \
                and isinstance(a.value.slice, ast.Slice) and len(c.args) == 1 and (
                    (a.value.slice.lower is None and const_num(a.value.slice.upper) is not None and const_num(a.value.slice.upper) < 0) or
                    (a.value.slice.upper is None and const_num(a.value.slice.lower) is not None and const_num(a.value.slice.lower) > 0))
            if not shorter and isinstance(a, ast.Starred) and isinstance(a.value, ast.Name) and len(c.args) == 1:
                # `*rest, last = operands` (or `first, *rest = operands`): rest is strictly shorter
                for n_ in ast.walk(fn.node):
                    if isinstance(n_, ast.Assign) and len(n_.targets) == 1 and isinstance(n_.targets[0], (ast.Tuple, ast.List)) \
                            and is_name(n_.value, va):
                        elts = n_.targets[0].elts
                        star = [e for e in elts if isinstance(e, ast.Starred) and is_name(e.value, a.value.id)]
                        if star and len(elts) >= 2:
                            shorter = True
            ctx.inst('R07.3', fn, c, shorter,
                     "recursion on a strictly shorter operand tuple" if shorter else
                     "recursive call `%s` is not on a strictly shorter slice of the operands" % src(c))
            # base cases dominate the recursive call: not variables -> return ; len == 1 -> return
            facts = []
            for t, pol, o in g.edge_dominators(enclosing_stmt(c)):
                facts += compare_atoms(t, pol)
            nonempty = ('truthy', va) in facts or ('len(%s)' % va, '!=', '0') in facts or ('len(%s)' % va, '>', '0') in facts
            notone = ('len(%s)' % va, '!=', '1') in facts or ('len(%s)' % va, '>', '1') in facts or ('len(%s)' % va, '>=', '2') in facts
            if not notone and isinstance(a, ast.Starred) and isinstance(a.value, ast.Name):
                # `*rest, last = operands`; `if not rest: return ..`: the recursion sees a non-empty rest, i.e. two operands or more
                notone = ('truthy', a.value.id) in facts or ('len(%s)' % a.value.id, '>', '0') in facts or ('len(%s)' % a.value.id, '>=', '1') in facts
            ctx.inst('R07.3', fn, 'base cases of %s' % name, nonempty and notone,
                     "empty and one-operand base cases return before the recursion" if nonempty and notone else
                     "recursion is reachable with %s operands: unbounded recursion" %
                     ('zero' if not nonempty else 'one'))

    # ---------------------------------------------------------------- R07.5
    ctx.rule('R07.5', "operands are combined only through the model arithmetic (no hand-written coefficient stores in "
                      "the builders); the product they rely on empties and rebuilds self from snapshots", floor=9)
    for name, fn in fns.items():
        bad = []
        for n in ast.walk(fn.node):
            if isinstance(n, (ast.Assign, ast.AugAssign)):
                for t in (n.targets if isinstance(n, ast.Assign) else [n.target]):
                    if isinstance(t, ast.Subscript):
                        bad.append(n)
            if isinstance(n, ast.Call) and isinstance(n.func, ast.Attribute) and n.func.attr in ('update', 'setdefault', 'pop', '__setitem__'):
                bad.append(n)
        ctx.inst('R07.5', fn, 'coefficient stores in %s' % name, not bad,
                 "operands only combined with + - * **" if not bad else
                 "`%s` writes coefficients by hand instead of using the model arithmetic (terms that collapse onto one key "
                 "are overwritten, idempotence x*x = x is bypassed)" % src(bad[0])[:60])
    from .C05 import imul_rules, derived_from_copy
    imul_rules(ctx, 'R07.5')
    derived_from_copy(ctx, 'R07.5')
    from . import C02
    C02.record_not_shared(ctx, 'R07.1')
    ctx.rule('R07.7', "operands are told apart only as model (dict) versus label: any hashable, tuples included, is a label", floor=8)
    ctx.rule('R07.8', "every operand given takes part: the operand tuple is not replaced by a filtered / unpacked / reordered one", floor=6)
    operand_discipline(ctx, 'R07.7', 'R07.8', fns)
    no_collapsing_dictcomp(ctx, 'R07.5', fns)
    ctx.rule('R07.6', "no function reachable from a builder reads the display metadata `name` of an operand", floor=8)
    no_metadata_reads(ctx, 'R07.6', [(fn, None) for fn in fns.values()])

    # ---------------------------------------------------------------- R07.4
    for name, fn in fns.items():
        tests = []
        for n in ast.walk(fn.node):
            if isinstance(n, (ast.If, ast.While, ast.IfExp, ast.Assert)):
                tests.append(n.test)
            elif isinstance(n, ast.BoolOp):
                tests += n.values[:-1]
            elif isinstance(n, ast.UnaryOp) and isinstance(n.op, ast.Not):
                tests.append(n.operand)
        bad = []
        for t in tests:
            t0 = t
            while isinstance(t0, ast.UnaryOp) and isinstance(t0.op, ast.Not):
                t0 = t0.operand
            if isinstance(t0, (ast.Compare, ast.BoolOp)) or (isinstance(t0, ast.Call) and is_name(t0.func, 'isinstance', 'len', 'callable')):
                continue
            ts = R.infer(t0, fn, None)
            if any(R.is_model_class(x) for x in ts):
                bad.append(t0)
        ctx.inst('R07.4', fn, 'truth tests in %s' % name, not bad,
                 "no model-valued expression is truth-tested" if not bad else
                 "`%s` (a model) is used as a truth value in %s: a sub-expression that is identically false is an empty "
                 "model and is treated like `unset`" % (src(bad[0]), name))
