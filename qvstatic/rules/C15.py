"""C15 - approximate extrema enclose the true extrema.  Rules R15.1 - R15.4."""
import ast
import re

from ..pymodel import AnalysisError, FuncInfo, parent
from ..astutil import (canon, expand_names, src, is_name, is_const, const_num, call_name, walk_no_nested, strip_docstring,
                       compare_atoms, enclosing_stmt, calls_in, names_in, assignments_to)
from ..cfg import cfg_of, ENTRY, EXIT, RAISE
from . import C02

EXPLANATION = (
    "Sign-guard abstract interpretation of the four extrema functions: on every path of the term "
    "loop the offset moves both accumulators by v, a boolean non-offset term moves lo by a "
    "quantity <= min(0, v) and hi by a quantity >= max(0, v) under the path's guards on v, a spin "
    "non-offset term moves lo by <= -|v| and hi by >= |v|; accumulators start at 0 and are "
    "returned as (lo, hi); the quadratic functions delegate to the function of their own kind; "
    "_get_bounds fills the missing component; anneal_temperature_range: the probability guards "
    "dominate all arithmetic, the (0, 0) return for variable-free models dominates every min()/"
    "max() over a possibly empty filtered domain, and each temperature is -E / log(p) with E >= 0 "
    "(else 0), returned in the order (start, end).")
NOT_DECIDED = "the relational clause T0 >= Tf (needs E_max >= E_min and monotonicity of log - numeric)."
TRUSTED = ["coefficients are real numbers (abs, comparison with 0 meaningful)"]


def _facts_v(facts, v):
    """Abstract sign knowledge about v from path facts: subset of {'<=0','>=0'}."""
    out = set()
    for f in facts:
        if len(f) != 3:
            continue
        a, op, b = f
        if b == v and a == '0':
            a, b = b, a
            op = {'<': '>', '>': '<', '<=': '>=', '>=': '<=', '==': '=='}.get(op, op)
        if a == v and b == '0':
            if op in ('<', '<='):
                out.add('<=0')
            if op in ('>', '>='):
                out.add('>=0')
            if op == '==':
                out |= {'<=0', '>=0'}
    return out


def _contrib(node, v):
    """Classify the increment X op= E: returns one of
    'v', '-v', 'abs', '-abs', 'min0', 'max0', 'zero', '?'"""
    e, neg = node.value, isinstance(node.op, ast.Sub)
    if not isinstance(node.op, (ast.Add, ast.Sub)):
        return '?'
    t = src(e)
    if t == v:
        k = 'v'
    elif t == 'abs(%s)' % v:
        k = 'abs'
    elif t in ('min(%s, 0)' % v, 'min(0, %s)' % v):
        k = 'min0'
    elif t in ('max(%s, 0)' % v, 'max(0, %s)' % v):
        k = 'max0'
    elif const_num(e) == 0:
        k = 'zero'
    elif isinstance(e, ast.UnaryOp) and isinstance(e.op, ast.USub) and src(e.operand) == v:
        k = '-v'
    elif isinstance(e, ast.UnaryOp) and isinstance(e.op, ast.USub) and src(e.operand) == 'abs(%s)' % v:
        k = '-abs'
    else:
        return '?'
    if neg:
        k = {'v': '-v', '-v': 'v', 'abs': '-abs', '-abs': 'abs', 'min0': '-min0', 'max0': '-max0', 'zero': 'zero'}.get(k, '?')
    return k


def _le(kind, sign, bound):
    """Is the contribution `kind` (given sign knowledge of v) <= bound, where
    bound in {'min0' (min(0,v)), '-abs' (-|v|)}; or >= for 'max0', 'abs'."""
    le0, ge0 = '<=0' in sign, '>=0' in sign
    if bound == 'min0':       # need c <= min(0, v)
        return kind in ('min0', '-abs') or (kind == 'v' and le0) or (kind == '-v' and ge0) or \
            (kind in ('zero', None) and ge0) or (kind == '-max0')
    if bound == 'max0':       # need c >= max(0, v)
        return kind in ('max0', 'abs') or (kind == 'v' and ge0) or (kind == '-v' and le0) or \
            (kind in ('zero', None) and le0) or (kind == '-min0')
    if bound == '-abs':       # need c <= -|v|
        return kind == '-abs' or (kind == 'v' and le0) or (kind == '-v' and ge0) or (kind in ('zero', None) and le0 and ge0)
    if bound == 'abs':        # need c >= |v|
        return kind == 'abs' or (kind == 'v' and ge0) or (kind == '-v' and le0) or (kind in ('zero', None) and le0 and ge0)
    return False


def extrema_rules(ctx, rid, fn, spin):
    g = cfg_of(fn.node)
    loops = [n for n in g.stmts() if isinstance(n, ast.For)]
    if len(loops) != 1 or not isinstance(loops[0].target, ast.Tuple) or len(loops[0].target.elts) != 2:
        raise AnalysisError("%s: term loop `for k, v in X.items()` not recognised" % fn.qual)
    lp = loops[0]
    k, v = [src(e) for e in lp.target.elts]
    arg = fn.params[0]
    ok_iter = src(lp.iter) == '%s.items()' % arg
    ctx.inst(rid, fn, lp, ok_iter, "iterates every term of the model" if ok_iter else
             "term loop does not iterate %s.items(): terms are skipped" % arg)
    # the model that is iterated is the argument as given: a re-keyed copy merges terms whose new keys coincide, and a
    # dict display / comprehension keeps only the last of them
    rebinds = [s_ for s_, val in assignments_to(fn.node, arg) if isinstance(s_, ast.stmt) and g.reaches(s_, lp)]
    ctx.inst(rid, fn, rebinds[0] if rebinds else 'argument %s' % arg, not rebinds,
             "the argument is iterated as given" if not rebinds else
             "`%s` replaces the model before the term loop: terms that collide under the new keys overwrite each other and "
             "drop out of the bound" % src(rebinds[0])[:60])
    rets = [n for n in g.stmts() if isinstance(n, ast.Return)]
    good = [r for r in rets if isinstance(r.value, ast.Tuple) and len(r.value.elts) == 2 and g.reaches(lp, r)]
    for r in rets:
        if r not in good:
            ctx.inst(rid, fn, r, False,
                     "`%s` returns something other than the pair accumulated over the current terms (a stored / cached "
                     "result goes stale when the model is edited)" % src(r)[:60])
    if not good:
        raise AnalysisError("%s: return (lo, hi) not recognised" % fn.qual)
    rets = good[-1:]
    lo, hi = [src(e) for e in rets[0].value.elts]
    # initial values 0
    for nm in (lo, hi):
        inits = [val for s_, val in assignments_to(fn.node, nm) if isinstance(s_, ast.Assign)]
        ok = bool(inits) and all(isinstance(x, ast.AST) and const_num(x) == 0 for x in inits)
        ctx.inst(rid, fn, 'initial %s' % nm, ok, "%s starts at 0" % nm if ok else "%s does not start at 0" % nm)
    paths = g.iteration_paths(lp)
    if not paths:
        raise AnalysisError("%s: no paths through the term loop" % fn.qual)
    for path in paths:
        if path[-1][0] is not lp:
            ctx.inst(rid, fn, 'loop exit path', False, "a path leaves the term loop early: later terms are ignored")
            continue
        facts, contrib = [], {lo: [], hi: []}
        for node, lab in path:
            if lab and lab[0] not in ('iter', 'exc'):
                facts += compare_atoms(lab[0], lab[1])
            if isinstance(node, ast.AugAssign) and src(node.target) in contrib:
                contrib[src(node.target)].append(_contrib(node, v))
            elif isinstance(node, ast.Assign) and any(src(t) in contrib for t in node.targets):
                contrib[src(node.targets[0])].append('?')
        is_off = ('falsy', k) in facts or (k, '==', '()') in facts
        non_off = ('truthy', k) in facts or (k, '!=', '()') in facts
        sign = _facts_v(facts, v)
        desc = 'path [%s%s]' % ('offset' if is_off else 'term', (', v%s' % ','.join(sorted(sign))) if sign else '')
        cl = contrib[lo][0] if len(contrib[lo]) == 1 else (None if not contrib[lo] else '?')
        ch = contrib[hi][0] if len(contrib[hi]) == 1 else (None if not contrib[hi] else '?')
        if is_off:
            ok = cl == 'v' and ch == 'v'
            ctx.inst(rid, fn, desc + ' lo+=%s hi+=%s' % (cl, ch), ok,
                     "the constant moves both bounds by v" if ok else
                     "on the offset path lo moves by %s and hi by %s instead of both by v" % (cl, ch))
        elif non_off or not is_off:
            lb, hb = ('-abs', 'abs') if spin else ('min0', 'max0')
            okl, okh = _le(cl, sign, lb), _le(ch, sign, hb)
            want = ("-|v| / |v|" if spin else "min(0,v) / max(0,v)")
            ctx.inst(rid, fn, desc + ' lo+=%s' % cl, okl,
                     "lower bound moves by <= %s" % want.split(' / ')[0] if okl else
                     "on the path with guards v%s the lower bound moves by `%s`, which is not <= %s: the result can "
                     "exceed the true minimum" % (sorted(sign), cl, want.split(' / ')[0]))
            ctx.inst(rid, fn, desc + ' hi+=%s' % ch, okh,
                     "upper bound moves by >= %s" % want.split(' / ')[1] if okh else
                     "on the path with guards v%s the upper bound moves by `%s`, which is not >= %s: the result can "
                     "fall below the true maximum" % (sorted(sign), ch, want.split(' / ')[1]))


def rules(ctx):
    P, R = ctx.prog, ctx.res
    from .C14 import no_module_state
    ctx.rule('R15.5', "no function writes module-level state (memo / registry): results independent of earlier calls", floor=1)
    no_module_state(ctx, 'R15.5')
    ctx.rule('R15.6', "boolean models reach the temperature estimate through pubo_to_puso, which keeps labelled models labelled (exact-type dispatch)", floor=2)
    from .C04 import result_type_dispatch
    result_type_dispatch(ctx, 'R15.6')
    ctx.rule('R15.1', "per path of the term loop the accumulators move by sound amounts; start at 0; returned (lo, hi)", floor=12)
    ctx.rule('R15.2', "quadratic extrema functions delegate to the function of their own kind", floor=2)
    from .C07 import no_collapsing_dictcomp
    no_collapsing_dictcomp(ctx, 'R15.2', {n_: P.func('_approximate_extrema.%s' % n_) for n_ in
                                          ('approximate_pubo_extrema', 'approximate_qubo_extrema', 'approximate_puso_extrema', 'approximate_quso_extrema')
                                          if P.has_func('_approximate_extrema.%s' % n_)})
    ctx.rule('R15.3', "_get_bounds fills exactly the missing component", floor=3)
    ctx.rule('R15.4', "temperature range: guards dominate arithmetic; (0,0) return dominates every reducer over "
                      "a possibly empty domain; T = -E/log(p) with E >= 0", floor=7)
    extrema_rules(ctx, 'R15.1', P.func('_approximate_extrema.approximate_pubo_extrema'), spin=False)
    extrema_rules(ctx, 'R15.1', P.func('_approximate_extrema.approximate_puso_extrema'), spin=True)
    for q, tgt in (('approximate_qubo_extrema', 'approximate_pubo_extrema'), ('approximate_quso_extrema', 'approximate_puso_extrema')):
        fn = P.func('_approximate_extrema.%s' % q)
        rets = [n for n in walk_no_nested(strip_docstring(fn.node.body)) if isinstance(n, ast.Return)]
        ok = len(rets) == 1 and src(rets[0].value) == '%s(%s)' % (tgt, fn.params[0])
        if not ok and rets:
            # own loop implementation is fine too
            try:
                extrema_rules(ctx, 'R15.1', fn, spin='quso' in q)
                ok = True
            except AnalysisError:
                ok = False
        ctx.inst('R15.2', fn, rets[0] if rets else 'return', ok,
                 "%s delegates to %s" % (q, tgt) if ok else "%s does not delegate to the %s function" % (q, 'spin' if 'quso' in q else 'boolean'))
    C02.get_bounds_rule(ctx, 'R15.3', P.func('_pcbo._get_bounds'), 'approximate_pubo_extrema')

    # ---------------------------------------------------------------- R15.4
    fn = P.func('_anneal_temperature_range.anneal_temperature_range')
    g = cfg_of(fn.node)
    model, sp, ep = fn.params[0], fn.params[1], fn.params[2]
    raises = [n for n in g.stmts() if isinstance(n, ast.Raise)]
    logs = [enclosing_stmt(c) for c in calls_in(fn.node, 'log')]
    need = {(sp, '<', '0'), (sp, '>=', '1'), (ep, '<', '0'), (ep, '>=', '1')}
    got = set()
    order_guard = False
    for r in raises:
        for t, pol, o in g.edge_dominators(r):
            if not pol:
                continue
            for c in ast.walk(t):
                if isinstance(c, ast.Compare) and len(c.ops) == 1:
                    for f in compare_atoms(c, True):
                        if f in need:
                            if all(g.dominates([o], l) for l in logs):
                                got.add(f)
                        if f == (ep, '>', sp) or f == (sp, '<', ep):
                            if all(g.dominates([o], l) for l in logs):
                                order_guard = True
    for f in sorted(need):
        ctx.inst('R15.4', fn, 'guard %s %s %s' % f, f in got,
                 "raises before any arithmetic" if f in got else
                 "flip probability guard `%s %s %s -> raise` missing or not dominating the temperature arithmetic" % f)
    ctx.inst('R15.4', fn, 'guard %s > %s' % (ep, sp), order_guard,
             "end > start raises" if order_guard else "the guard end_flip_prob > start_flip_prob -> raise is missing")
    # reducers over possibly empty domains
    zero_rets = [n for n in g.stmts() if isinstance(n, ast.Return) and src(n.value) in ('(0, 0)', '(0.0, 0.0)', '(0, 0.0)', '(0.0, 0)')]
    for c in [c for c in calls_in(fn.node) if is_name(c.func, 'min', 'max')]:
        if not (len(c.args) == 1 and isinstance(c.args[0], ast.GeneratorExp)) or any(k.arg == 'default' for k in c.keywords):
            continue
        gen = c.args[0].generators[0]
        st = enclosing_stmt(c)
        facts = []
        for t, pol, o in g.edge_dominators(st):
            facts += compare_atoms(t, pol)
        it = src(expand_names(fn.node, gen.iter))
        m_ = re.fullmatch(r'(?:tuple|list)\((.+)\)', it)
        if m_:
            it = m_.group(1)
        ok = False
        itn = expand_names(fn.node, gen.iter)
        while isinstance(itn, ast.Call) and is_name(itn.func, 'tuple', 'list') and len(itn.args) == 1:
            itn = itn.args[0]
        filtered_src = isinstance(itn, (ast.ListComp, ast.GeneratorExp)) and len(itn.generators) == 1 and bool(itn.generators[0].ifs)
        if filtered_src:
            it = src(itn.generators[0].iter)       # the reducer runs over a pre-filtered copy of this collection
        if not gen.ifs and not filtered_src:
            ok = ('truthy', it) in facts
        else:
            # filtered domain: need a guard any(<same filter> ...) over the same collection
            base = it.replace('.items()', '').replace('.keys()', '')
            for f in facts:
                if f[0] == 'truthy' and f[1].startswith('any('):
                    inner = f[1][4:-1]
                    if base in inner:
                        ok = True
        # the guarded collection must not be re-assigned between the guard and the reducer
        if ok:
            base0 = it.replace('.items()', '').replace('.keys()', '').replace('.values()', '')
            for t, pol, o in g.edge_dominators(st):
                fs = compare_atoms(t, pol)
                relevant = any(f[0] == 'truthy' and (f[1] == it or (f[1].startswith('any(') and base0 in f[1])) for f in fs if len(f) == 2)
                if not relevant:
                    continue
                for n_ in g.stmts():
                    if n_ is st or n_ is o:
                        continue
                    if isinstance(n_, ast.Assign) and any(src(t_) == base0 for t_ in n_.targets) and \
                            g.reaches(o, n_) and g.reaches(n_, st):
                        ok = False
        ctx.inst('R15.4', fn, c, ok and bool(zero_rets),
                 "reducer over `%s`%s is dominated by a non-emptiness guard with a (0, 0) return" % (it, ' (filtered)' if gen.ifs else '') if ok else
                 "`%s` can be evaluated on an empty %s domain (no dominating guard on `%s`%s): raises instead of "
                 "returning (0, 0) for a model without (non-constant) terms" % (src(c)[:50], 'filtered' if gen.ifs else '', it,
                                                                                 ' with the filter' if gen.ifs else ''))
    # temperatures
    rets = [n for n in g.stmts() if isinstance(n, ast.Return) and n not in zero_rets]
    if len(rets) != 1 or not isinstance(rets[0].value, ast.Tuple):
        raise AnalysisError("anneal_temperature_range: final return (T0, Tf) not recognised")
    names = [src(e) for e in rets[0].value.elts]
    for nm, prob, red in zip(names, (sp, ep), ('max', 'min')):
        defs = [v for s_, v in assignments_to(fn.node, nm) if isinstance(v, ast.AST)]
        ok = False
        for v in defs:
            v = canon(v)
            if isinstance(v, ast.IfExp) and src(v.test) == prob and const_num(v.orelse) == 0:
                b = v.body
                if isinstance(b, ast.BinOp) and isinstance(b.op, ast.Div) and src(b.right) in ('log(%s)' % prob, 'math.log(%s)' % prob, 'np.log(%s)' % prob, 'numpy.log(%s)' % prob) and \
                        isinstance(b.left, ast.UnaryOp) and isinstance(b.left.op, ast.USub) and isinstance(b.left.operand, ast.Name):
                    en = b.left.operand.id
                    edefs = [x for s_, x in assignments_to(fn.node, en) if isinstance(x, ast.AST)]
                    for x in edefs:
                        if isinstance(x, ast.BinOp) and isinstance(x.op, ast.Mult):
                            fac, body = x.left, x.right
                            fpos = (const_num(fac) or 0) > 0 or any((const_num(y) or 0) > 0 for s2, y in assignments_to(fn.node, src(fac)) if isinstance(y, ast.AST))
                            if fpos and isinstance(body, ast.Call) and is_name(body.func, red) and \
                                    ('abs(' in src(body) or 'abs(' in src(expand_names(fn.node, body))):
                                ok = True
        ctx.inst('R15.4', fn, '%s = -E_%s / log(%s)' % (nm, red, prob), ok,
                 "temperature is -E/log(p) with E = positive factor * %s of |coefficients| >= 0, and 0 for p = 0" % red if ok else
                 "%s is not `-(factor * %s(... abs ...)) / log(%s) if %s else 0`: the temperature can be negative / the "
                 "start and end roles are exchanged" % (nm, red, prob, prob))
