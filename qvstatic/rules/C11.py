"""C11 - annealer results.  Rules R11.1 - R11.8 (DESIGN 4.11)."""
import ast
import re

from ..pymodel import AnalysisError, FuncInfo, parent
from ..astutil import (block_of, canon, canon_src, positive_form, expand_names, src, is_name, is_const, const_num, call_name, walk_no_nested, strip_docstring,
                       compare_atoms, enclosing_stmt, calls_in, names_in, assignments_to, kwarg)
from ..cfg import cfg_of, ENTRY, EXIT
from .. import nullness
from ..forwarding import check_forwarding
from ..cmodel import S, strip, unparen

EXPLANATION = (
    "Decides the wiring of the four annealing front ends and their C extension: num_anneals <= 0 "
    "returns an empty AnnealResults before anything else; every result's value is the C energy "
    "plus the offset of the very model whose terms were marshalled (and the offset alone in the "
    "variable-free branch); in each type branch N, the marshalled model and the reverse mapping "
    "derive from the same object; the boolean functions convert model and initial state to spin, "
    "call the spin function with every option forwarded to its namesake and convert the results "
    "back; the Python call's argument list, the PyArg_ParseTuple format and the C variable types "
    "agree, parallel arrays are appended in lockstep and sized by N; max_index (None for an empty "
    "Matrix) is guarded before arithmetic; the kernels assign to the state only +-1 literals, a "
    "sign flip, or the supplied initial state, and results are packaged with the spin flag True.")
NOT_DECIDED = "numerical equality of the C energy with the model's value at the state; `best` minimal is C13."
TRUSTED = ["AnnealResults (C13)", "to_puso / to_quso relabelling (C04/C14)"]

SPIN_FUNCS = {'anneal_puso': 'c_anneal_puso', 'anneal_quso': 'c_anneal_quso'}
BOOL = {'anneal_pubo': ('pubo_to_puso', 'anneal_puso'), 'anneal_qubo': ('qubo_to_quso', 'anneal_quso')}


def roles_of(ctx, fn):
    """Local names by role, derived from the C call's argument positions (roles = the C wrapper's parse
    targets), the packaging call and the marshalling loop - not from the names the front end happens to use."""
    cname = SPIN_FUNCS[fn.name]
    calls = [c for c in calls_in(fn.node) if is_name(c.func, cname)]
    if len(calls) != 1:
        raise AnalysisError("%s: expected exactly one call of %s" % (fn.name, cname))
    call = calls[0]
    wf = ctx.cprog.func(cname)
    targets = []
    for c in wf.calls:
        if c['callee'] == 'PyArg_ParseTuple':
            targets = [re.sub(r'^\(?&', '', t).rstrip(')').replace('py_', '') for t in c['argtxt'][2:]]
    r = {}
    for t, a in zip(targets, call.args):
        if isinstance(a, ast.Name):
            r[t] = a.id
    r['_call'] = call
    r['_targets'] = targets
    pcalls = [c for c in calls_in(fn.node) if is_name(c.func, '_package_spin_results')]
    if pcalls and len(pcalls[0].args) == 4:
        a = pcalls[0].args
        if isinstance(a[3], ast.Name):
            r['rmap'] = a[3].id
        if isinstance(a[2], ast.Attribute) and a[2].attr == 'offset' and isinstance(a[2].value, ast.Name):
            r['model'] = a[2].value.id
    r['_pcall'] = pcalls[0] if pcalls else None
    if not pcalls:
        # packaging written out in the front end itself: res.add_state({rmap[k]: v for k, v in enumerate(states[i])}, values[i] + offset, True)
        for c in calls_in(fn.node, 'add_state'):
            for x in ast.walk(fn.node):
                if isinstance(x, ast.DictComp) and isinstance(x.key, ast.Subscript) and isinstance(x.key.value, ast.Name):
                    r['rmap'] = x.key.value.id
            if len(c.args) >= 2:
                off = [y for y in ast.walk(expand_names(fn.node, c.args[1])) if isinstance(y, ast.Attribute) and y.attr == 'offset'
                       and isinstance(y.value, ast.Name)]
                if off:
                    r['model'] = off[0].value.id
    # N: first C argument (puso) or the multiplier of the per-spin list h (quso)
    if 'len_state' in r:
        r['N'] = r['len_state']
    elif 'h' in r:
        for s_, v in sorted(assignments_to(fn.node, r['h']), key=lambda x: x[0].lineno):
            if isinstance(v, ast.BinOp) and isinstance(v.op, ast.Mult) and isinstance(v.right, ast.Name):
                r['N'] = v.right.id
                break
    r.setdefault('N', 'N')
    r.setdefault('model', 'model')
    r.setdefault('rmap', 'reverse_mapping')
    r.setdefault('initial_state', 'init_state')
    return r


def branches(fn, nname):
    out = []
    for n in walk_no_nested(strip_docstring(fn.node.body)):
        if isinstance(n, ast.Assign) and any(is_name(t, nname) for t in n.targets):
            out.append(n)
    return out


def same_source_rules(ctx, rid, fn):
    """R11.3 / O2: N, model and reverse_mapping derive from one object."""
    g = cfg_of(fn.node)
    arg = fn.params[0]
    ro = roles_of(ctx, fn)
    N, MODEL, RMAP = ro['N'], ro['model'], ro['rmap']
    nas = branches(fn, N)
    if len(nas) < 2:
        ctx.inst(rid, fn, 'N assignments', False, "expected a Matrix branch and a labelled branch assigning the state "
                                                  "length `%s`, found %d" % (N, len(nas)))
        return
    for na in nas:
        body = block_of(na)
        mdl = [s for s in body if isinstance(s, ast.Assign) and any(is_name(t, MODEL) for t in s.targets)]
        rmp = [s for s in body if isinstance(s, ast.Assign) and any(is_name(t, RMAP) for t in s.targets)]
        nv = canon_src(expand_names(fn.node, na.value))
        if 'max_index' in nv:
            kind = 'matrix'
            ok = bool(mdl) and src(mdl[0].value) == arg and bool(rmp) and \
                src(rmp[0].value) in ('dict(enumerate(range(%s)))' % N, '{i: i for i in range(%s)}' % N) and \
                re.fullmatch(r'(0 if %s\.max_index is None else )?%s\.max_index \+ 1' % (arg, arg), nv) is not None
            why = "N = max_index + 1, model = the argument itself, identity mapping over range(N)"
            bad = "Matrix branch: N = `%s`, model = `%s`, reverse_mapping = `%s` - the state length, the marshalled terms and " \
                  "the labels do not derive from the argument's own integer labels (labels can exceed N)" % (
                      nv, src(mdl[0].value) if mdl else None, src(rmp[0].value) if rmp else None)
        else:
            kind = 'labelled'
            ok = nv == '%s.num_binary_variables' % arg and bool(mdl) and \
                src(mdl[0].value) in ('%s.to_puso()' % arg, '%s.to_quso()' % arg) and bool(rmp) and \
                src(rmp[0].value) in ('%s.reverse_mapping' % arg, '%s._reverse_mapping' % arg)
            why = "N, enumerated model and reverse mapping all come from the same labelled model"
            bad = "labelled branch: N = `%s`, model = `%s`, reverse_mapping = `%s` do not all derive from the same model" % (
                nv, src(mdl[0].value) if mdl else None, src(rmp[0].value) if rmp else None)
        ctx.inst(rid, fn, na, ok, why if ok else bad)
        facts = [src(positive_form(t, pol)) for t, pol, o in g.edge_dominators(na)]
        okt = any(('type(%s)' % arg) in f for f in facts)
        ctx.inst(rid, fn, 'type test of %s branch' % kind, okt,
                 "branch selected by type(%s)" % arg if okt else "branch is not selected by the exact type of the argument")
        if kind == 'matrix' and okt:
            # every integer-indexed Matrix class this function accepts takes the Matrix branch (a Matrix that is sent through
            # the labelled branch is relabelled: indices that occur in no term get no entry in the returned states)
            want = {'QUSOMatrix'} if fn.name == 'anneal_quso' else {'QUSOMatrix', 'PUSOMatrix'}
            got = set()
            for t, pol, o in g.edge_dominators(na):
                pf = positive_form(t, pol)
                for c_ in ast.walk(pf):
                    if isinstance(c_, ast.Compare) and len(c_.ops) == 1 and 'type(%s)' % arg in (src(c_.left), src(c_.comparators[0])):
                        r_ = c_.comparators[0] if src(c_.left) == 'type(%s)' % arg else c_.left
                        if isinstance(c_.ops[0], (ast.Eq, ast.Is)):
                            got.add(src(r_).split('.')[-1])
                        elif isinstance(c_.ops[0], ast.In) and isinstance(r_, (ast.Tuple, ast.List, ast.Set)) and r_ is c_.comparators[0]:
                            got |= {src(e).split('.')[-1] for e in r_.elts}
            okm = want <= got and got <= {'QUSOMatrix', 'PUSOMatrix'}
            ctx.inst(rid, fn, 'Matrix classes of the Matrix branch', okm,
                     "the Matrix branch takes %s" % sorted(got) if okm else
                     "the Matrix branch of %s takes %s, expected %s: the other Matrix class is relabelled like a labelled model, so "
                     "indices between 0 and max_index that occur in no term are missing from the returned states"
                     % (fn.name, sorted(got), sorted(want)))


def marshalling_python(ctx, rid, fn):
    """R11.6 (Python half) / O1, O3, O4, O5."""
    g = cfg_of(fn.node)
    cname = SPIN_FUNCS[fn.name]
    ro = roles_of(ctx, fn)
    call = ro['_call']
    N, MODEL, RMAP, INIT = ro['N'], ro['model'], ro['rmap'], ro['initial_state']
    cst = enclosing_stmt(call)
    # O3: the C call is dominated by the N >= 1 guard
    facts = []
    for t, pol, o in g.edge_dominators(cst):
        facts += compare_atoms(t, pol)
    ok = ('truthy', N) in facts or (N, '>', '0') in facts or (N, '>=', '1') in facts or (N, '!=', '0') in facts
    ctx.inst(rid, fn, 'O3 guard before %s' % cname, ok,
             "the extension is only called with N >= 1 (`if not N: return` dominates the call)" if ok else
             "the C extension can be called with N == 0: the kernels write element 0 of zero-length buffers")
    # O4: init_state is [] or has length N
    for s_, v in assignments_to(fn.node, INIT):
        if not isinstance(v, ast.AST):
            continue
        t = src(v)
        ok = t == '[]' or re.fullmatch(r'\[-?1\] \* %s' % re.escape(N), t) is not None
        ctx.inst(rid, fn, s_, ok, "initial state is empty or has N entries" if ok else
                 "%s = `%s` is neither [] nor a list of length N: the wrapper reads len_state entries from it" % (INIT, t))
    # relabelling of the supplied initial state: position k <- label reverse_mapping[k]
    rl = [n for n in walk_no_nested(strip_docstring(fn.node.body)) if isinstance(n, ast.For)
          and src(n.iter) == '%s.items()' % RMAP and isinstance(n.target, ast.Tuple)]
    user_init = fn.params[3] if len(fn.params) > 3 else 'initial_state'
    for lp in rl:
        kk, vv = [src(e) for e in lp.target.elts]
        okr = len(lp.body) == 1 and src(lp.body[0]) == '%s[%s] = %s[%s]' % (INIT, kk, user_init, vv)
        ctx.inst(rid, fn, lp, okr,
                 "initial state relabelled position <- label through the reverse mapping" if okr else
                 "the supplied initial state is not relabelled as init_state[index] = initial_state[label] over the "
                 "reverse mapping: spins start from the wrong variables' values")
    if not rl:
        ctx.inst(rid, fn, 'initial state relabelling', False, "the supplied initial state is never relabelled to positions")
    inits = [s_ for s_, v in assignments_to(fn.node, INIT)]
    if not inits:
        ctx.inst(rid, fn, 'init_state', False, "init_state is never built")
    if fn.name == 'anneal_quso':
        H, NN, NB, JJ = ro.get('h', 'h'), ro.get('num_neighbors', 'num_neighbors'), ro.get('neighbors', 'neighbors'), ro.get('J', 'J')
        # paired rows: one list of (neighbor, coupling) pairs per spin, projected into the three C arrays
        def _defs(nm):
            return [src(v) for s_, v in assignments_to(fn.node, nm) if isinstance(v, ast.AST)]
        mNB = [re.fullmatch(r'\[(\w+) for \1, \w+ in chain(?:\.from_iterable)?\(\*?(\w+)\)\]', d) for d in _defs(NB)]
        mJJ = [re.fullmatch(r'\[(\w+) for \w+, \1 in chain(?:\.from_iterable)?\(\*?(\w+)\)\]', d) for d in _defs(JJ)]
        mNN = [re.fullmatch(r'\[len\((\w+)\) for \1 in (\w+)\]|list\(map\(len, (\w+)\)\)', d) for d in _defs(NN)]
        RW = None
        if len(mNB) == 1 and mNB[0] and len(mJJ) == 1 and mJJ[0] and len(mNN) == 1 and mNN[0] and \
                mNB[0].group(2) == mJJ[0].group(2) == (mNN[0].group(2) or mNN[0].group(3)):
            RW = mNB[0].group(2)
        elif len(mNN) == 1 and mNN[0] and _defs(NB) == ['[]'] and _defs(JJ) == ['[]']:
            # the projection written as one loop: for n, c in chain.from_iterable(rows): neighbors.append(n); J.append(c)
            rw_ = mNN[0].group(2) or mNN[0].group(3)
            for lp_ in [n for n in g.stmts() if isinstance(n, ast.For)]:
                m_ = re.fullmatch(r'chain(?:\.from_iterable)?\(\*?(\w+)\)', src(lp_.iter))
                if m_ and m_.group(1) == rw_ and isinstance(lp_.target, ast.Tuple) and len(lp_.target.elts) == 2 and len(lp_.body) == 2 \
                        and not lp_.orelse:
                    a_, b_ = [src(e) for e in lp_.target.elts]
                    body_ = sorted(src(x) for x in lp_.body)
                    if body_ == sorted(['%s.append(%s)' % (NB, a_), '%s.append(%s)' % (JJ, b_)]):
                        RW = rw_
        if RW is not None:
            n_ = re.escape(N)
            dR = _defs(RW)
            okR = len(dR) == 1 and re.fullmatch(r'\[\[\] for \w+ in range\(%s\)\]' % n_, dR[0]) is not None
            dH = _defs(H)
            okH = bool(dH) and re.fullmatch(r'\[0\.0?\] \* ' + n_, dH[0]) is not None
            ctx.inst(rid, fn, 'O5 %s / %s sized by N' % (H, RW), okR and okH,
                     "h and the rows of (neighbor, coupling) pairs have N entries" if okR and okH else
                     "`%s` / `%s` are not created with N entries: len_state and the per-spin arrays disagree" % (H, RW))
            apps = [c for c in calls_in(fn.node, 'append') if isinstance(c.func.value, ast.Subscript) and src(c.func.value.value) == RW]
            okA = bool(apps) and all(len(c.args) == 1 and isinstance(c.args[0], ast.Tuple) and len(c.args[0].elts) == 2 for c in apps)
            ctx.inst(rid, fn, apps[0] if apps else 'appends to %s' % RW, okA,
                     "every neighbour is stored together with its coupling: neighbors, J and num_neighbors are projections of one list" if okA else
                     "entries appended to `%s` are not (neighbor, coupling) pairs" % RW)
            # the projections are taken after the rows are complete
            late = [c for c in apps if any(g.reaches(s_, enclosing_stmt(c)) for nm in (NB, JJ, NN) for s_, v in assignments_to(fn.node, nm))]
            ctx.inst(rid, fn, 'projections after the rows are complete', not late,
                     "neighbors / J / num_neighbors are derived from the finished rows" if not late else
                     "a (neighbor, coupling) pair is appended after the C arrays were derived from the rows")
            return call
        # the flattened arrays handed to C may carry their own names: rows Y, flat X = list(chain(*Y))
        flat_of = {}

        def rows_of(nm):
            for s_, v in assignments_to(fn.node, nm):
                if isinstance(v, ast.AST):
                    m = re.fullmatch(r'list\(chain(?:\.from_iterable)?\(\*?(\w+)\)\)', src(v))
                    if m:
                        flat_of[m.group(1)] = nm
                        return m.group(1)
            return nm
        NB_flat, JJ_flat = NB, JJ
        NB, JJ = rows_of(NB), rows_of(JJ)
        n_ = re.escape(N)
        sized = {H: r'\[0\.0?\] \* ' + n_, NN: r'\[0\] \* ' + n_,
                 NB: r'\[\[\] for \w+ in range\(%s\)\]' % n_, JJ: r'\[\[\] for \w+ in range\(%s\)\]' % n_}
        # num_neighbors may instead be derived from the finished rows: [len(r) for r in neighbors] (before any flattening
        # rebinds that name)
        nn_derived = False
        nn_defs = [(s_, v) for s_, v in assignments_to(fn.node, NN) if isinstance(v, ast.AST)]
        if len(nn_defs) == 1:
            s_, v = nn_defs[0]
            m = re.fullmatch(r'\[len\((\w+)\) for \1 in (\w+)\]|list\(map\(len, (\w+)\)\)', src(v))
            rows_nm = m and (m.group(2) or m.group(3))
            if rows_nm in (NB, JJ):
                flat_st = [fs for fs, fv in assignments_to(fn.node, rows_nm) if isinstance(fv, ast.AST) and 'chain' in src(fv)]
                app_st = [enclosing_stmt(c) for c in calls_in(fn.node, 'append') if isinstance(c.func.value, ast.Subscript)
                          and src(c.func.value.value) == rows_nm]
                nn_derived = not any(g.reaches(fs, s_) for fs in flat_st) and not any(g.reaches(s_, a_) for a_ in app_st)
        for nm, pat in sized.items():
            defs = [v for s_, v in sorted(assignments_to(fn.node, nm), key=lambda x: x[0].lineno) if isinstance(v, ast.AST)]
            ok = bool(defs) and re.fullmatch(pat, src(defs[0])) is not None
            if nm == NN and nn_derived:
                ok = True
            ctx.inst(rid, fn, 'O5 %s sized by N' % nm, ok, "%s has N entries" % nm if ok else
                     "`%s` is not created with N entries (%s): len_state and the per-spin arrays disagree" % (nm, [src(d) for d in defs][:1]))
        # O1 parallel appends
        apps = [c for c in calls_in(fn.node, 'append') if isinstance(c.func.value, ast.Subscript)]
        for c in apps:
            base, idx = src(c.func.value.value), src(c.func.value.slice)
            blk = parent(enclosing_stmt(c))
            mates = set()
            for s_ in getattr(blk, 'body', []):
                for c2 in calls_in(s_, 'append'):
                    if isinstance(c2.func.value, ast.Subscript) and src(c2.func.value.slice) == idx:
                        mates.add(src(c2.func.value.value))
                if isinstance(s_, ast.AugAssign) and isinstance(s_.target, ast.Subscript) and src(s_.target.slice) == idx \
                        and const_num(s_.value) == 1 and isinstance(s_.op, ast.Add):
                    mates.add(src(s_.target.value))
            ok = ({NB, JJ} if nn_derived else {NB, JJ, NN}) <= mates
            ctx.inst(rid, fn, c, ok,
                     "neighbors[%s], J[%s] appended and num_neighbors[%s] counted together" % (idx, idx, idx) if ok else
                     "`%s` is not paired in its block with the appends to neighbors/J and the count of num_neighbors for "
                     "index %s: the C kernel walks num_neighbors[i] entries of both arrays" % (src(c), idx))
        fl = {rows: [v for s_, v in assignments_to(fn.node, flat) if isinstance(v, ast.AST) and ('chain(' in src(v) or 'chain.from_iterable(' in src(v))]
              for rows, flat in ((JJ, JJ_flat), (NB, NB_flat))}
        ok = all(fl[nm] and src(fl[nm][0]) in ('list(chain(*%s))' % nm, 'list(chain.from_iterable(%s))' % nm) for nm in fl)
        ctx.inst(rid, fn, 'flattening', ok, "J and neighbors are flattened row by row in the same order" if ok else
                 "J / neighbors are not flattened as list(chain(*rows)) of their own rows")
    else:
        TERMS, NC, CP = ro.get('terms', 'terms'), ro.get('num_couplings', 'num_couplings'), ro.get('couplings', 'couplings')
        loops = [n for n in walk_no_nested(strip_docstring(fn.node.body)) if isinstance(n, ast.For) and '%s.items()' % MODEL in src(n.iter)]
        if not loops:
            raise AnalysisError("anneal_puso: term loop over %s.items() not found" % MODEL)
        lp = loops[0]
        tv = src(lp.target.elts[0])
        ext = [c for c in calls_in(lp, 'extend') if src(c.func.value) == TERMS]
        for c in ext:
            blk = parent(enclosing_stmt(c))
            txt = [src(s_) for s_ in getattr(blk, 'body', [])]
            ok = src(c.args[0]) == tv and any(t.startswith('%s.append(len(%s))' % (NC, tv)) for t in txt) and \
                any(t.startswith('%s.append(' % CP) for t in txt)
            ctx.inst(rid, fn, c, ok,
                     "terms, num_couplings and couplings are extended together for each term" if ok else
                     "terms.extend is not paired with num_couplings.append(len(term)) and couplings.append in one block")
            facts = []
            for t, pol, o in g.edge_dominators(enclosing_stmt(c)):
                facts += compare_atoms(t, pol)
            okc = ('truthy', tv) in facts
            ctx.inst(rid, fn, 'constant term skipped', okc, "the constant term is not marshalled (offset added in Python)" if okc else
                     "the constant term is marshalled as a zero-length term")
        if not ext:
            ctx.inst(rid, fn, lp, False, "terms are never marshalled")
    return call


def rules(ctx):
    P, R = ctx.prog, ctx.res
    ctx.rule('R11.12', "no function writes module-level state (memo / registry): results independent of earlier calls", floor=1)
    from .C14 import no_module_state as _nms
    _nms(ctx, 'R11.12')
    from .C14 import derived_fields
    ctx.rule('R11.10', "a field of model objects outside the frozen bookkeeping fields that is written together with the terms / a bookkeeping field is written by every other mutator of that state (no stale memo)", floor=1)
    derived_fields(ctx, 'R11.10')
    ctx.rule('R11.1', "num_anneals <= 0 returns an empty AnnealResults before anything else; boolean functions delegate", floor=4)
    ctx.rule('R11.2', "every result value is the C energy + the marshalled model's offset (offset alone when N == 0)", floor=5)
    ctx.rule('R11.3', "N, marshalled model and reverse mapping derive from one object per branch", floor=8)
    ctx.rule('R11.4', "boolean wrapper triad: model -> spin, initial state -> spin under `is not None`, results -> boolean", floor=6)
    ctx.rule('R11.5', "the eight options are forwarded to their namesakes", floor=14)
    ctx.rule('R11.6', "Python call list, PyArg_ParseTuple format and C variable types agree; parallel arrays in lockstep", floor=14)
    ctx.rule('R11.7', "max_index (optional) is guarded before arithmetic", floor=2)
    ctx.rule('R11.8', "kernels assign only +-1 / sign flips / the supplied state to the state; spin flag literal True", floor=6)
    ctx.rule('R11.9', "the C energy functions visit every term: no continue/break/goto, the accumulation of every "
                      "spin / term is unconditional", floor=5)
    ctx.rule('R11.11', "every C buffer is fully written before it is read (the state rows the kernels start from and "
                       "return): block copies carry sizeof of the element", floor=12)
    from .C17 import buffers_initialised
    buffers_initialised(ctx, 'R11.11')
    C = ctx.cprog
    pk = P.func('_anneal._package_spin_results') if P.has_func('_anneal._package_spin_results') else None

    for name, cname in SPIN_FUNCS.items():
        fn = P.func('_anneal.%s' % name)
        g = cfg_of(fn.node)
        arg = fn.params[0]
        # ------------------------------------------------------------ R11.1
        first = strip_docstring(fn.node.body)[0]
        ok = isinstance(first, ast.If) and (('num_anneals', '<=', '0') in compare_atoms(first.test, True) or ('num_anneals', '<', '1') in compare_atoms(first.test, True)) \
            and not isinstance(first.test, ast.BoolOp) \
            and len(first.body) == 1 and isinstance(first.body[0], ast.Return) and src(first.body[0].value) == 'AnnealResults()'
        ctx.inst('R11.1', fn, first, ok, "num_anneals <= 0 -> AnnealResults() first" if ok else
                 "%s does not begin with `if num_anneals <= 0: return AnnealResults()`" % name)
        # ------------------------------------------------------------ R11.3
        same_source_rules(ctx, 'R11.3', fn)
        # ------------------------------------------------------------ R11.6 python
        call = marshalling_python(ctx, 'R11.6', fn)
        # ------------------------------------------------------------ R11.2
        cst = enclosing_stmt(call)
        res_names = [src(e) for e in cst.targets[0].elts] if isinstance(cst, ast.Assign) and isinstance(cst.targets[0], ast.Tuple) else []
        pcalls = [c for c in calls_in(fn.node) if is_name(c.func, '_package_spin_results')]
        ro = roles_of(ctx, fn)
        if pk is not None:
            ok = len(pcalls) == 1 and len(res_names) == 2 and [src(a) for a in pcalls[0].args] == res_names + ['%s.offset' % ro['model'], ro['rmap']]
            ctx.inst('R11.2', fn, pcalls[0] if pcalls else '_package_spin_results', ok,
                     "results packaged with the C states/values, model.offset and the branch's reverse mapping" if ok else
                     "results are not packaged as _package_spin_results(states, values, model.offset, reverse_mapping)")
        elif len(res_names) == 2:
            package_rules(ctx, fn, fn, res_names[0], res_names[1], '%s.offset' % ro['model'], ro['rmap'])
        else:
            ctx.inst('R11.2', fn, cst, False, "the C call's (states, values) result is not unpacked")
        items = [n for n in walk_no_nested(strip_docstring(fn.node.body)) if isinstance(n, ast.For) and src(n.iter).endswith('.items()')
                 and ro['rmap'] not in src(n.iter)]
        okm = bool(items) and all(src(n.iter) == '%s.items()' % ro['model'] for n in items)
        ctx.inst('R11.2', fn, items[0] if items else 'term loop', okm,
                 "the marshalled terms are those of `model`, whose offset is added" if okm else
                 "the terms marshalled to C come from `%s`, not from the `model` whose offset is added" % (src(items[0].iter) if items else None))
        empt = [c for c in calls_in(fn.node) if is_name(c.func, 'AnnealResult')]
        ok0 = bool(empt) and all(len(c.args) == 3 and src(c.args[0]) == '{}' and src(c.args[1]) == '%s.offset' % ro['model'] and is_const(c.args[2], True) for c in empt)
        if ok0:
            st = enclosing_stmt(empt[0])
            facts = []
            for t, pol, o in g.edge_dominators(st):
                facts += compare_atoms(t, pol)
            ok0 = ('falsy', ro['N']) in facts and 'range(num_anneals)' in src(st)
        ctx.inst('R11.2', fn, empt[0] if empt else 'variable-free branch', ok0,
                 "N == 0 returns num_anneals results ({}, model.offset, spin)" if ok0 else
                 "the variable-free branch does not return num_anneals results AnnealResult({}, model.offset, True)")
        # ------------------------------------------------------------ R11.7
        if name == 'anneal_quso':
            # the property itself: None (not 0) for a model without variables - 0 is the index of a real variable
            mi = P.func('PUBOMatrix.max_index')
            rets_ = [r for r in walk_no_nested(strip_docstring(mi.node.body)) if isinstance(r, ast.Return)]
            oke = False
            for r in rets_:
                v = r.value
                if isinstance(v, ast.IfExp) and (is_const(v.orelse, None) or is_const(v.body, None)):
                    oke = True
                if v is None or is_const(v, None):
                    oke = True
            ctx.inst('R11.7', mi, rets_[0] if rets_ else 'def max_index', oke,
                     "max_index is None for a model without variables" if oke else
                     "max_index does not return None for a model without variables: an empty Matrix model is annealed as if it "
                     "had the variable 0")
        for x in ('%s.max_index' % arg,):
            uses = nullness.optional_uses(fn.node, x)
            for use, what in uses:
                okg = nullness.is_guarded(fn.node, use, x)
                ctx.inst('R11.7', fn, enclosing_stmt(use), okg,
                         "%s of max_index guarded by a None test" % what if okg else
                         "%s of %s, which is None for an empty / constant Matrix, is not guarded: TypeError instead "
                         "of results" % (what, x))
            if not uses:
                ctx.inst('R11.7', fn, 'max_index', True, "max_index is not used in arithmetic", nontrivial=False)
        # ------------------------------------------------------------ R11.6 C half
        wf = C.func(cname)
        fmt = None
        targets = []
        for c in wf.calls:
            if c['callee'] == 'PyArg_ParseTuple':
                fmt = strip(c['args'][1]).get('value', '').strip('"')
                targets = [t.lstrip('&').strip('()') for t in c['argtxt'][2:]]
                targets = [re.sub(r'^\(?&', '', t).rstrip(')') for t in c['argtxt'][2:]]
        okf = fmt is not None and len(fmt) == len(call.args) == len(targets)
        ctx.inst('R11.6', fn, call, okf,
                 "%d arguments, format %r, %d C targets" % (len(call.args), fmt, len(targets)) if okf else
                 "arity disagreement: Python passes %d arguments, format %r has %d letters, %d C targets"
                 % (len(call.args), fmt, len(fmt or ''), len(targets)))
        if okf:
            for i, (letter, tgt, a) in enumerate(zip(fmt, targets, call.args)):
                cty = wf.ptype(tgt) or ''
                okt = (letter == 'O' and 'PyObject' in cty) or (letter == 'i' and cty == 'int') or \
                    (letter == 'l' and cty == 'long') or (letter == 'd' and cty == 'double')
                # python side kind: O <- list-typed name, i <- int-valued expression
                at = src(a)
                if letter != 'O':
                    at = src(expand_names(fn.node, a))      # a scalar argument may have been given a name
                if letter == 'O':
                    okp = isinstance(a, ast.Name)
                else:
                    okp = at in (ro['N'], 'num_anneals') or at.startswith('int(') or 'seed' in at
                # semantic slot agreement: python name ~ C name
                slot = tgt.replace('py_', '')
                pyname = re.sub(r'[^a-zA-Z_]', ' ', at).split()
                # slots fed from the front end's own parameters are matched by parameter name (API names);
                # the other slots are bound to locals by role (roles_of) and checked by R11.2, R11.3, O1-O5
                api = {'num_anneals', 'in_order', 'seed'}
                okn = True
                if slot in api:
                    okn = slot in pyname and not ((api - {slot}) & set(pyname))
                ctx.inst('R11.6', fn, 'argument %d: %s -> %s %s (%s)' % (i, at, cty, tgt, letter), okt and okp and okn,
                         "format letter, C type and Python argument agree" if okt and okp and okn else
                         "argument %d: Python passes `%s`, format letter %r, C target `%s %s` - %s" % (
                             i, at, letter, cty, tgt, 'type mismatch' if not okt else 'wrong kind of Python value' if not okp else 'slot order mismatch'))
    boolean_wrappers(ctx, 'R11.4', 'R11.1', 'R11.5')
    # forwarding inside spin functions to the schedule helper and the C call (seed, in_order)
    for name, cname in SPIN_FUNCS.items():
        fn = P.func('_anneal.%s' % name)
        for c in calls_in(fn.node, '_create_spin_schedule'):
            check_forwarding(ctx, 'R11.5', fn, c, P.func('_anneal._create_spin_schedule'), 'func')
            ok = c.args and is_name(c.args[0], fn.params[0])
            ctx.inst('R11.5', fn, c, bool(ok), "schedule computed from the model being annealed" if ok else
                     "the temperature schedule is computed from another object than the model")
    # ---------------------------------------------------------------- R11.2 package
    if pk is not None:
        pst, pvl, pof, prm = (pk.params + ['states', 'values', 'offset', 'reverse_mapping'])[:4]
        package_rules(ctx, pk, pk, pst, pvl, pof, prm)

    from .C14 import registration_parity
    registration_parity(ctx, 'R11.3')      # labelled branch: labels of to_puso()/to_quso() are < num_binary_variables

    # ---------------------------------------------------------------- R11.8 (C)
    state_value_set(ctx, 'R11.8')
    energy_loops(ctx, 'R11.9')
    layout_agreement(ctx, 'R11.6')


def boolean_wrappers(ctx, r_triad, r_deleg, r_fwd):
    """anneal_qubo / anneal_pubo: model -> spin, initial state -> spin when given, every option forwarded to its namesake,
    results -> boolean."""
    P = ctx.prog
    for name, (conv, spin_fn) in BOOL.items():
        fn = P.func('_anneal.%s' % name)
        rets = [n for n in walk_no_nested(strip_docstring(fn.node.body)) if isinstance(n, ast.Return)]
        ok = len(rets) == 1
        v = rets[0].value if ok else None
        tb = ok and isinstance(v, ast.Call) and isinstance(v.func, ast.Attribute) and v.func.attr == 'to_boolean' and not v.args
        ctx.inst(r_triad, fn, rets[0] if rets else 'return', bool(tb), "results converted with .to_boolean()" if tb else
                 "%s does not return <spin results>.to_boolean(): states stay in {1,-1} / flag stays spin" % name)
        inner = v.func.value if tb else None
        oki = isinstance(inner, ast.Call) and is_name(inner.func, spin_fn)
        ctx.inst(r_deleg, fn, inner if inner is not None else 'spin call', bool(oki), "delegates to %s" % spin_fn if oki else
                 "%s does not delegate to %s" % (name, spin_fn))
        if oki:
            a0 = inner.args[0]
            okc = isinstance(a0, ast.Call) and is_name(a0.func, conv) and is_name(a0.args[0], fn.params[0])
            ctx.inst(r_triad, fn, a0, okc, "model converted with %s" % conv if okc else
                     "the model is passed as `%s`, not %s(%s)" % (src(a0), conv, fn.params[0]))
            tgt = P.func('_anneal.%s' % spin_fn)
            from ..astutil import bind_args
            b = bind_args(inner, tgt, skip_self=False)
            isv = b.get('initial_state')
            okis = isv is not None and canon_src(isv) == 'None if initial_state is None else boolean_to_spin(initial_state)'
            if isv is not None and not okis and is_name(isv, 'initial_state'):
                # converted beforehand: `if initial_state is not None: initial_state = boolean_to_spin(initial_state)`
                gw = cfg_of(fn.node)
                for n_ in gw.stmts():
                    if isinstance(n_, ast.Assign) and len(n_.targets) == 1 and is_name(n_.targets[0], 'initial_state') \
                            and src(n_.value) == 'boolean_to_spin(initial_state)':
                        fs = []
                        for t_, pol_, o_ in gw.edge_dominators(n_):
                            fs += compare_atoms(t_, pol_)
                        if ('initial_state', 'is not', 'None') in fs and gw.reaches(n_, enclosing_stmt(inner)):
                            okis = True
            ctx.inst(r_triad, fn, isv if isv is not None else 'initial_state', okis,
                     "initial state converted to spin when given" if okis else
                     "initial_state is passed as `%s`, not boolean_to_spin(initial_state) guarded by `is not None`" % (src(isv) if isv is not None else None))
            check_forwarding(ctx, r_fwd, fn, inner, tgt, 'func')
            for opt in fn.params[1:]:
                if opt == 'initial_state':
                    continue
                okf = opt in b and is_name(b[opt], opt)
                ctx.inst(r_fwd, fn, '%s forwarded' % opt, okf, "forwarded" if okf else "option `%s` is not passed on to %s" % (opt, spin_fn))


def package_rules(ctx, where, host, pst, pvl, pof, prm):
    """R11.2 / R11.8 for the code that turns the C result into AnnealResults - the packaging helper, or the front end
    itself when the helper was inlined: value = values[i] + offset of the marshalled model, spin flag True, every
    position relabelled through the reverse mapping."""
    adds = [c for c in calls_in(host.node, 'add_state')]
    lp0 = [n for n in walk_no_nested(strip_docstring(host.node.body)) if isinstance(n, ast.For)
           and any(c in list(ast.walk(n)) for c in adds)]
    iv, row = 'i', None
    okn = False
    if lp0:
        lp = lp0[0]
        it = lp.iter
        if src(it) in ('range(len(%s))' % pst, 'range(len(%s))' % pvl):
            iv, okn = src(lp.target), True
        elif isinstance(it, ast.Call) and is_name(it.func, 'enumerate') and len(it.args) == 1 and src(it.args[0]) in (pst, pvl) \
                and isinstance(lp.target, ast.Tuple) and len(lp.target.elts) == 2:
            iv, okn = src(lp.target.elts[0]), True
            if src(it.args[0]) == pst:
                row = src(lp.target.elts[1])
    state_row = ['%s[%s]' % (pst, iv)] + ([row] if row else [])
    ok = False
    flag = None
    if len(adds) == 1 and len(adds[0].args) in (2, 3):
        flag = adds[0].args[2] if len(adds[0].args) == 3 else kwarg(adds[0], 'spin')
        val = src(expand_names(host.node, adds[0].args[1]))
        ok = val in ('%s[%s] + %s' % (pvl, iv, pof), '%s + %s[%s]' % (pof, pvl, iv)) and flag is not None and is_const(flag, True)
    ctx.inst('R11.2', where, adds[0] if adds else 'add_state', ok, "value = C energy + offset, spin flag True" if ok else
             "the packaging does not add (state, %s[i] + %s, True)" % (pvl, pof))
    ctx.inst('R11.8', where, adds[0] if adds else 'add_state', ok and flag is not None and is_const(flag, True), "spin flag is the literal True")
    ctx.inst('R11.2', where, lp0[0] if lp0 else 'loop', okn, "one result per returned state" if okn else "not every returned state becomes a result")
    st = [x for l in lp0 for x in ast.walk(l) if isinstance(x, ast.DictComp)]
    oks = bool(st) and isinstance(st[0].key, ast.Subscript) and src(st[0].key.value) == prm and \
        any('enumerate(%s)' % r in src(st[0]) for r in state_row)
    ctx.inst('R11.2', where, 'state relabelling', oks, "each position k is relabelled through reverse_mapping" if oks else
             "states are not relabelled position by position through the reverse mapping")


def layout_agreement(ctx, rid):
    """Row-major buffers: every function that indexes a buffer as a*L + b uses one row length L for it, and across a call
    the callee's row length parameter receives the caller's row length (writer and readers agree on the layout)."""
    C = ctx.cprog
    nsp = lambda t: re.sub(r'\s+', '', t or '')
    sites = {}
    for f in C.funcs.values():
        for s_ in f.subs:
            idx = nsp(s_['index'])
            m = re.fullmatch(r'\(?(\w+)\*(\w+)\)?\+(\w+)', idx) or re.fullmatch(r'(\w+)\+\(?(\w+)\*(\w+)\)?', idx)
            if not m:
                continue
            if idx[0] != '(' and '+' in idx and idx.index('+') < idx.index('*'):
                b_, x1, x2 = m.groups()
            else:
                x1, x2, b_ = m.groups()
            lv = {l['var'] for l in s_['loops']}
            L = [x for x in (x1, x2) if x not in lv]
            if len(L) != 1:
                continue
            sites.setdefault(f.name, {}).setdefault(nsp(s_['base']), []).append((L[0], s_))
    n = 0
    for fname, bases in sorted(sites.items()):
        f = C.funcs[fname]
        for base, lst in sorted(bases.items()):
            Ls = sorted({l for l, _ in lst})
            n += 1
            ctx.inst(rid, (f.unit, fname), 'row length of %s in %s' % (base, fname), len(Ls) == 1,
                     "%d row-major accesses, all with row length %s" % (len(lst), Ls[0]) if len(Ls) == 1 else
                     "`%s` is indexed with different row lengths %s in one function: rows written are not the rows read" % (base, Ls))
    # a buffer that is addressed in rows inside a function is not also addressed flat there (row 0 only)
    for fname, bases in sorted(sites.items()):
        f = C.funcs[fname]
        for base in sorted(bases):
            flat = [s_ for s_ in f.subs if nsp(s_['base']) == base and not any(s_ is x for _, x in bases[base])
                    and '*' not in nsp(s_['index'])]
            n += 1
            ctx.inst(rid, (f.unit, fname), 'flat accesses of the row-major buffer %s in %s' % (base, fname), not flat,
                     "none" if not flat else
                     "`%s[%s]` addresses the row-major buffer `%s` without a row offset while the same function also addresses "
                     "it in rows: every row but the first is read from / written to row 0 (e.g. each anneal after the first "
                     "starts from an earlier anneal's result)" % (base, nsp(flat[0]['index']), base))
    for fname in sorted(sites):
        f = C.funcs[fname]
        for c in f.calls:
            g = C.funcs.get(c['callee'])
            if g is None or g.name not in sites:
                continue
            gp = [p for p, _ in g.params]
            if len(gp) != len(c['argtxt']):
                continue
            for i, a in enumerate(c['argtxt']):
                X = nsp(a)
                if X in sites[fname] and gp[i] in sites[g.name]:
                    Lf = sorted({l for l, _ in sites[fname][X]})
                    Lg = sorted({l for l, _ in sites[g.name][gp[i]]})
                    if len(Lf) != 1 or len(Lg) != 1 or Lg[0] not in gp:
                        continue
                    got = nsp(c['argtxt'][gp.index(Lg[0])])
                    ok = got == Lf[0]
                    n += 1
                    ctx.inst(rid, (f.unit, fname), '%s(... %s ...) row length' % (g.name, X), ok,
                             "%s lays `%s` out in rows of %s and passes that as %s's row length `%s`" % (fname, X, Lf[0], g.name, Lg[0]) if ok else
                             "%s indexes `%s` in rows of `%s` but %s reads it in rows of `%s` (= `%s` at the call): the "
                             "two sides disagree on the layout, every anneal after the first reads other spins' values"
                             % (fname, X, Lf[0], g.name, Lg[0], got))
    if not n:
        raise AnalysisError("layout_agreement: no row-major buffer access found")


def nsp_(t):
    return str(t).replace(' ', '')


def _walk(n):
    if isinstance(n, dict):
        yield n
        for c in n.get('inner', []) or []:
            yield from _walk(c)


def state_value_set(ctx, rid):
    C = ctx.cprog
    n = 0
    for fname in ('anneal_quso', 'anneal_puso', 'single_anneal_quso', 'single_anneal_puso'):
        f = C.func(fname)
        for a in f.assigns:
            if not re.fullmatch(r'state\[\w+\]', a['lhs']):
                continue
            n += 1
            rn = strip(a['rhs']) if a['rhs'] is not None else {}
            rhs = unparen(S(a['rhs'])) if a['rhs'] is not None else ''

            def lit(n):
                n = strip(n)
                if n.get('kind') == 'IntegerLiteral':
                    return int(n['value'])
                if n.get('kind') == 'UnaryOperator' and n.get('opcode') == '-':
                    v = lit(n['inner'][0])
                    return -v if v is not None else None
                return None
            if a['op'] == '*=':
                ok = lit(rn) == -1
                msg = "sign flip" if ok else "state multiplied by `%s`" % rhs
            elif a['op'] == '=':
                def pm1(e):
                    # every value the expression can take is +-1 or an element of the supplied states
                    e = strip(e)
                    if e.get('kind') == 'ArraySubscriptExpr':
                        return unparen(S(f.expand(e['inner'][0]))).split('+')[0].split('[')[0] == 'states' or \
                            unparen(S(e['inner'][0])) == 'states'
                    if e.get('kind') == 'ConditionalOperator':
                        return pm1(e['inner'][1]) and pm1(e['inner'][2])
                    return lit(e) in (1, -1)
                ok = pm1(rn)
                msg = "assigns the supplied state / a +-1 literal" if ok else "state assigned `%s`, which is not +-1 or the supplied state" % rhs
            else:
                ok, msg = False, "state updated with `%s`" % a['op']
            ctx.inst(rid, (f.unit, fname), '%s %s %s' % (a['lhs'], a['op'], rhs), ok, msg)
            # a start state copied from the supplied buffer is the row of THIS anneal: states[i * len_state + j] for the
            # anneal loop's i and the element j being written
            if a['op'] == '=' and fname in ('anneal_quso', 'anneal_puso'):
                J = a['lhs'][len('state['):-1]
                outer = [l['var'] for l in a['loops'] if l.get('hi') and nsp_(l['hi']) == 'num_anneals']
                for e in _walk(rn):
                    if e.get('kind') != 'ArraySubscriptExpr':
                        continue
                    base = strip(f.expand(e['inner'][0]))
                    while base.get('kind') == 'ConditionalOperator':       # p = provided ? states : NULL
                        alts = [strip(x) for x in base['inner'][1:]]
                        nz = [x for x in alts if not (x.get('kind') == 'IntegerLiteral' and str(x.get('value')) == '0')
                              and x.get('kind') not in ('GNUNullExpr', 'CXXNullPtrLiteralExpr')]
                        if len(nz) != 1:
                            break
                        base = strip(f.expand(nz[0]))
                    bt, it = nsp_(unparen(S(base))), nsp_(unparen(S(f.expand(e['inner'][1]))))
                    whole = None
                    if bt == 'states':
                        whole = it
                    elif bt.startswith('states+'):
                        whole = bt[len('states+'):] + '+' + it
                    if whole is None:
                        continue
                    forms = {'%s*len_state+%s' % (i_, J) for i_ in outer} | {'len_state*%s+%s' % (i_, J) for i_ in outer} | \
                            {'%s+%s*len_state' % (J, i_) for i_ in outer}
                    okr = whole in forms
                    ctx.inst(rid, (f.unit, fname), 'row of the start state read by %s' % a['lhs'], okr,
                             "anneal %s starts from its own row of the supplied states" % (outer[0] if outer else '?') if okr else
                             "the start state is read from states[%s], not from row %s of the buffer (states[%s * len_state + %s]): anneals "
                             "after the first start from another anneal's row - which by then holds that anneal's result"
                             % (whole, outer[0] if outer else 'i', outer[0] if outer else 'i', J))
    if n < 4:
        raise AnalysisError("R11.8: fewer than 4 assignments to the state found in the kernels")


def energy_loops(ctx, rid):
    C = ctx.cprog
    for fname, acc in (('quso_value', 'value'), ('puso_value', 'value'), ('puso_subgraph_value', 'value'),
                       ('compute_flip_dE', 'flip_spin_dE[i]'), ('recompute_flip_dE', None)):
        f = C.func(fname)
        ok = not f.jumps
        ctx.inst(rid, (f.unit, fname), 'no jumps in %s' % fname, ok,
                 "every spin / term is visited" if ok else
                 "%s contains %s inside its loops: some spins / terms are skipped and the reported energy no longer "
                 "equals the model's value at the state" % (fname, sorted({j['kind'] for j in f.jumps})))
        if acc:
            adds = [a for a in f.assigns if a['lhs'] == acc and a['op'] in ('+=', '=') and a['loops']]
            outer = [a for a in adds if len(a['loops']) == 1]
            oka = bool(outer) and all(not a['guards'] for a in outer)
            ctx.inst(rid, (f.unit, fname), 'accumulation of %s per outer iteration' % acc, oka,
                     "each outer iteration contributes unconditionally" if oka else
                     "the per-spin / per-term contribution to `%s` is conditional or missing" % acc)
