"""Finite truth tables of the literal gadget polynomials of the PCBO gate methods (R06.8).

The polynomial handed to add_constraint_eq_zero by a gate method is a closed arithmetic expression over a handful of
boolean atoms: the output operand, the two inputs (or the two half-products of the inputs), or the value of one sat
builder / plain gate applied to all operands.  The expression is evaluated - as an expression, by constant arithmetic on
the syntax tree, nothing of the library is executed - for every 0/1 assignment of its atoms and compared with the gate the
method is named after: the penalty is 0 exactly where the gate relation holds, at least 1 elsewhere, and the literal
bounds enclose the values.  A method whose polynomial is not of this closed form is left undecided (a note, not a verdict).
"""
import ast
import itertools

from ..astutil import src, is_name, call_name, walk_no_nested, strip_docstring, assignments_to, kwarg

BASE = {'AND': ('AND', False), 'NAND': ('AND', True), 'OR': ('OR', False), 'NOR': ('OR', True),
        'XOR': ('XOR', False), 'XNOR': ('XOR', True)}
FN2 = {'AND': lambda b, c: b & c, 'OR': lambda b, c: b | c, 'XOR': lambda b, c: b ^ c}


class Undecided(Exception):
    pass


class Table:
    def __init__(self, fn, selfn):
        self.fn, self.selfn = fn, selfn
        a = fn.node.args
        self.params = [x.arg for x in a.posonlyargs + a.args][1:]
        self.var = a.vararg.arg if a.vararg else None
        self.atoms = []          # names of free boolean atoms in order of first use
        self.halves = set()      # locals that are products of BUFFER(v) over a slice of the operands

    def atom(self, name):
        if name not in self.atoms:
            self.atoms.append(name)
        return ('atom', name)

    # expressions are compiled to closures over an environment {atom: 0/1}
    def comp(self, e, depth=0):
        if depth > 12:
            raise Undecided("expression too deep")
        if isinstance(e, ast.Constant) and isinstance(e.value, (int, float)) and not isinstance(e.value, bool):
            v = e.value
            return lambda env: v
        if isinstance(e, ast.UnaryOp) and isinstance(e.op, ast.USub):
            f = self.comp(e.operand, depth + 1)
            return lambda env: -f(env)
        if isinstance(e, ast.BinOp) and isinstance(e.op, (ast.Add, ast.Sub, ast.Mult)):
            l, r = self.comp(e.left, depth + 1), self.comp(e.right, depth + 1)
            if isinstance(e.op, ast.Add):
                return lambda env: l(env) + r(env)
            if isinstance(e.op, ast.Sub):
                return lambda env: l(env) - r(env)
            return lambda env: l(env) * r(env)
        if isinstance(e, ast.Name):
            return self.name(e.id, depth)
        if isinstance(e, ast.Subscript) and is_name(e.value, self.var or '') and isinstance(e.slice, ast.Constant):
            nm = '%s[%s]' % (self.var, e.slice.value)
            self.atom(nm)
            return lambda env: env[nm]
        if isinstance(e, ast.Call):
            cn = call_name(e)
            f = e.func
            if isinstance(f, ast.Name) and cn in ('BUFFER', 'NOT') and len(e.args) == 1 and not e.keywords:
                g = self.comp(e.args[0], depth + 1)
                return g if cn == 'BUFFER' else (lambda env: 1 - g(env))
            star = len(e.args) == 1 and isinstance(e.args[0], ast.Starred) and is_name(e.args[0].value, self.var or '')
            if isinstance(f, ast.Name) and cn in BASE and star and not e.keywords:
                base, neg = BASE[cn]
                nm = '%s(*%s)' % (base, self.var)
                self.atom(nm)
                return (lambda env: 1 - env[nm]) if neg else (lambda env: env[nm])
            # PCBO().add_constraint_G(*variables) / PCBO().add_constraint_BUFFER(x): the unit penalty of the plain gate
            if isinstance(f, ast.Attribute) and isinstance(f.value, ast.Call) and src(f.value) in ('PCBO()', 'qv.PCBO()') \
                    and f.attr.startswith('add_constraint_') and not e.keywords:
                gname = f.attr[len('add_constraint_'):]
                if gname in BASE and star:
                    base, neg = BASE[gname]
                    nm = '%s(*%s)' % (base, self.var)
                    self.atom(nm)
                    # penalty of G is 1 - G
                    return (lambda env: env[nm]) if neg else (lambda env: 1 - env[nm])
                if gname in ('BUFFER', 'NOT') and len(e.args) == 1:
                    g = self.comp(e.args[0], depth + 1)
                    return (lambda env: 1 - g(env)) if gname == 'BUFFER' else g
        raise Undecided("`%s` is not a closed expression over the operands" % src(e)[:50])

    def name(self, nm, depth):
        defs = [(s_, v) for s_, v in assignments_to(self.fn.node, nm)]
        if nm in self.params and not defs:
            self.atom(nm)
            return lambda env: env[nm]
        if nm in self.params and all(isinstance(v, ast.Call) and call_name(v) == 'BUFFER' and len(v.args) == 1 and is_name(v.args[0], nm)
                                     for s_, v in defs):
            self.atom(nm)                           # a = BUFFER(a)
            return lambda env: env[nm]
        # half products: b = 1 ; for v in variables[..]: b *= BUFFER(v)
        augs = [n for n in ast.walk(self.fn.node) if isinstance(n, ast.AugAssign) and is_name(n.target, nm)]
        if augs:
            ok = all(isinstance(n.op, ast.Mult) and isinstance(n.value, ast.Call) and call_name(n.value) == 'BUFFER' for n in augs) and \
                all(isinstance(v, ast.Constant) and v.value == 1 for s_, v in defs if isinstance(v, ast.AST))
            if not ok:
                raise Undecided("`%s` is accumulated in a form that is not a product of BUFFER(operand)" % nm)
            self.halves.add(nm)
            self.atom(nm)
            return lambda env: env[nm]
        vals = [v for s_, v in defs if isinstance(v, ast.AST)]
        if len(vals) == 1 and nm not in self.params:
            return self.comp(vals[0], depth + 1)
        raise Undecided("`%s` has no single closed definition" % nm)


def expected(method, T, env):
    """does the gate relation of `method` hold under env?  (None: cannot be expressed over the atoms in use)"""
    g = method[len('add_constraint_'):]
    eq = g.startswith('eq_')
    g = g[3:] if eq else g
    atoms = T.atoms
    if g in ('BUFFER', 'NOT'):
        ps = T.params
        if eq:
            if len(ps) < 2 or ps[0] not in env or ps[1] not in env:
                return None
            return env[ps[1]] == (env[ps[0]] if g == 'BUFFER' else 1 - env[ps[0]])
        if not ps or ps[0] not in env:
            return None
        return env[ps[0]] == (1 if g == 'BUFFER' else 0)
    base, neg = BASE[g]
    gate_atom = '%s(*%s)' % (base, T.var)
    if gate_atom in env:
        val = env[gate_atom]
    else:
        ins = [a for a in atoms if a in T.halves or a.startswith('%s[' % T.var)]
        if len(ins) != 2:
            return None
        if a_is_half_product(T, ins) and base != 'AND':
            return None              # products of halves only express AND
        val = FN2[base](env[ins[0]], env[ins[1]])
    if neg:
        val = 1 - val
    if not eq:
        return val == 1
    out = T.params[0]
    if out not in env:
        return None
    return env[out] == val


def a_is_half_product(T, ins):
    return any(i in T.halves for i in ins)


def gate_table_rules(ctx, rid, meths):
    R = ctx.res
    decided = 0
    for name, fn in sorted(meths.items()):
        selfn = R.self_name(fn)
        rets = [n for n in walk_no_nested(strip_docstring(fn.node.body)) if isinstance(n, ast.Return) and isinstance(n.value, ast.Call)]
        for r in rets:
            c = r.value
            f = c.func
            if not (isinstance(f, ast.Attribute) and is_name(f.value, selfn)):
                continue
            T = Table(fn, selfn)
            try:
                if f.attr == 'add_constraint_eq_zero' and c.args:
                    b = kwarg(c, 'bounds')
                    if isinstance(b, ast.Name):
                        # the pair assigned in the same block as the polynomial
                        blk = [s_ for s_ in getattr(getattr(r, '_parent', None), 'body', [])]
                        pass
                    P = c.args[0]
                    variants = [(P, b)]
                    if isinstance(P, ast.Name) and len([1 for s_, v in assignments_to(fn.node, P.id)]) > 1:
                        # one polynomial / bounds pair per branch: pair them by block
                        variants = []
                        for s_, v in assignments_to(fn.node, P.id):
                            blk = getattr(getattr(s_, '_parent', None), 'body', []) + getattr(getattr(s_, '_parent', None), 'orelse', [])
                            bb = None
                            for q in blk:
                                if isinstance(q, ast.Assign) and isinstance(b, ast.Name) and any(is_name(t, b.id) for t in q.targets) and \
                                        any(q2 is s_ for q2 in blk):
                                    par_body = [x for x in (getattr(s_._parent, 'body', []), getattr(s_._parent, 'orelse', [])) if any(y is s_ for y in x)]
                                    if par_body and any(y is q for y in par_body[0]):
                                        bb = q.value
                            variants.append((v, bb if bb is not None else b))
                    for Pv, bv in variants:
                        T = Table(fn, selfn)
                        val = T.comp(Pv)
                        if isinstance(bv, ast.Name):
                            ds = [v for s_, v in assignments_to(fn.node, bv.id) if isinstance(v, ast.AST)]
                            bv = ds[0] if len(ds) == 1 else bv
                        if not (isinstance(bv, ast.Tuple) and len(bv.elts) == 2):
                            raise Undecided("bounds are not a literal pair")
                        lo, hi = [ast.literal_eval(x) for x in bv.elts]
                        pen = (lambda p: p) if lo == 0 else (lambda p: -p) if hi == 0 else (lambda p: p * p)
                        decided += _judge(ctx, rid, fn, name, T, val, pen, (lo, hi), Pv)
                elif f.attr in ('add_constraint_BUFFER', 'add_constraint_NOT') and c.args:
                    val = T.comp(c.args[0])
                    # add_constraint_BUFFER(X) is satisfied where X == 1, add_constraint_NOT(X) where X == 0
                    pen = (lambda p: 1 - p) if f.attr.endswith('BUFFER') else (lambda p: p)
                    decided += _judge(ctx, rid, fn, name, T, val, pen, (0, 1), c.args[0])
            except Undecided as u:
                ctx.note("%s: truth table of %s not decided (%s)" % (rid, name, u))
            except (ValueError, SyntaxError):
                ctx.note("%s: truth table of %s not decided (bounds not literal)" % (rid, name))
    return decided


def _judge(ctx, rid, fn, name, T, val, pen, bounds, node):
    atoms = list(T.atoms)
    if len(atoms) > 6:
        raise Undecided("too many atoms")
    bad = None
    n = 0
    for bits in itertools.product((0, 1), repeat=len(atoms)):
        env = dict(zip(atoms, bits))
        p = val(env)
        want = expected(name, T, env)
        if want is None:
            raise Undecided("the gate relation cannot be read off the atoms %s" % atoms)
        n += 1
        f = pen(p)
        if not (bounds[0] <= p <= bounds[1]):
            bad = "at %s the polynomial is %s, outside the literal bounds %s" % (env, p, bounds)
        elif want and f != 0:
            bad = "at %s the relation holds but the penalty is %s, not 0" % (env, f)
        elif not want and f < 1:
            bad = "at %s the relation is violated but the penalty is %s < lam" % (env, f)
        if bad:
            break
    ctx.inst(rid, fn, node, bad is None,
             "truth table of `%s` over %s: 0 where %s holds, >= 1 elsewhere, within bounds %s" % (src(node)[:40], atoms, name[15:], bounds)
             if bad is None else
             "the gadget polynomial `%s` of %s is wrong: %s" % (src(node)[:60], name, bad))
    return 1
