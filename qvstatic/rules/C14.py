"""C14 - model bookkeeping stays consistent under every history of edits.
Rules R14.1 - R14.9 (DESIGN 4.14)."""
import ast

from ..pymodel import AnalysisError, FuncInfo, parent
from ..astutil import (src, is_name, is_attr, is_const, const_num, call_name, walk_no_nested,
                       strip_docstring, compare_atoms, enclosing_stmt, calls_in, names_in,
                       assignments_to)
from ..cfg import cfg_of, ENTRY, EXIT
from ..fields import field_writes

EXPLANATION = (
    "Decides, for every edit history, the structural invariants behind the bookkeeping: who may "
    "write the 8 cache fields (frozen table, R14.1); mapping and reverse mapping are written as "
    "inverse pairs (R14.2); variable set and count grow together, degree only by max (R14.3); a "
    "label enters the mapping under exactly the guard and iteration domain under which it enters "
    "the variable cache (R14.4); a function assigning part of the coupled caches on a foreign "
    "object assigns the whole group from one source (R14.5); __init__ is re-run on a live object "
    "only from clear/refresh, never from an operator (R14.6); refresh copies through the model's "
    "own class before clearing and re-initialises from that copy (R14.7); counters are monotone "
    "and each label taken is followed by its increment (R14.8); reduction ancillas start at a "
    "bound of every mapped label (R14.9).")
NOT_DECIDED = ("that a mapping the user installs with set_mapping/set_reverse_mapping is itself "
               "sensible; numerical equality of the function before/after refresh (dict copy "
               "semantics trusted).")
TRUSTED = ["dict/set semantics of CPython", "every store to a model goes through the __setitem__ "
           "chain (checked as R05.3 under C05)"]

G1 = {'_mapping', '_reverse_mapping', '_next_label'}
G2 = {'_variables', '_num_binary_variables', '_degree'}
G3 = {'_constraints', '_ancilla'}
ALLF = G1 | G2 | G3

# frozen who-may-write table: function qual -> (fields, reason)
WRITERS = {
    'BO.__init__': (G1, "constructor initialises the label enumeration"),
    'BO.__setitem__': (G1, "registers labels on first sight"),
    'BO.set_mapping': ({'_mapping', '_reverse_mapping'}, "documented user override"),
    'BO.set_reverse_mapping': ({'_mapping', '_reverse_mapping'}, "documented user override"),
    'PUBOMatrix.__init__': (G2, "constructor initialises the caches"),
    'PUBOMatrix.__setitem__': (G2, "registers variables/degree on nonzero stores"),
    'PUSO._create_pubo': ({'_mapping', '_reverse_mapping', '_variables', '_num_binary_variables'},
                          "hands the coupled caches to the temporary PUBO"),
    'PCBO.__init__': (G3, "constructor / copy constructor"),
    'PCBO._append_constraint': ({'_constraints'}, "records a constraint"),
    'PCSO._append_constraint': ({'_constraints'}, "records a constraint (PCSO's copy of the PCBO helper; R03.5 requires it to delegate to or equal PCBO's)"),
    'PCBO._pop_constraint': ({'_constraints'}, "removes the record of a nested constraint"),
    'PCBO._next_ancilla': ({'_ancilla'}, "takes the next ancilla name"),
    'PCBO.__round__': ({'_constraints', '_ancilla'}, "derived model keeps the constraints and the ancilla counter"),
    'PCBO.subs': ({'_constraints', '_ancilla'}, "derived model gets substituted constraints and the ancilla counter"),
    'PCBO.update': ({'_constraints', '_ancilla'}, "merges the other model's record; the counter is raised to cover the other model's counter"),
    '_pcso._empty_pcbo': ({'_ancilla'}, "seeds the helper's counter"),
    '_info.create_from_info': ({'_ancilla'}, "restores the counter of a serialised model"),
}
for _r in ('eq', 'ne', 'lt', 'le', 'gt', 'ge'):
    WRITERS['PCSO.add_constraint_%s_zero' % _r] = ({'_ancilla'}, "counter hand-back from the helper PCBO")

LABELLED = ['QUBO', 'QUSO', 'PUBO', 'PUSO', 'PCBO', 'PCSO']


def _squash_call(e):
    return isinstance(e, ast.Call) and call_name(e) == 'squash_key'


def _names_bound_to_squash(fn):
    out = set()
    for n in walk_no_nested(strip_docstring(fn.node.body)):
        if isinstance(n, ast.Assign) and _squash_call(n.value):
            for t in n.targets:
                if isinstance(t, ast.Name):
                    out.add(t.id)
    return out


def bulk_registration(fn, selfn, field, w):
    """`X.f |= E` / `X.f.update(E)` with E the labels of some key that are not yet in X.f (`set(D) - X.f`,
    `{i for i in D if i not in X.f}`): returns (E expanded, D, guarded) or None when the write is not of that form."""
    from ..astutil import expand_names
    node, obj, f, kind, detail = w
    if f != field or obj != selfn:
        return None
    if kind == 'aug' and isinstance(detail[0], ast.BitOr):
        e = detail[1]
    elif kind == 'call' and detail.func.attr == 'update' and len(detail.args) == 1:
        e = detail.args[0]
    else:
        return None
    ex = expand_names(fn.node, e)
    fld = '%s.%s' % (selfn, field)
    dom, guarded = None, False
    if isinstance(ex, ast.BinOp) and isinstance(ex.op, ast.Sub) and src(ex.right) == fld:
        dom, guarded = ex.left, True
    elif isinstance(ex, ast.Call) and isinstance(ex.func, ast.Attribute) and ex.func.attr == 'difference' and len(ex.args) == 1 \
            and src(ex.args[0]) == fld:
        dom, guarded = ex.func.value, True
    elif isinstance(ex, (ast.SetComp, ast.GeneratorExp, ast.ListComp)) and len(ex.generators) == 1 and src(ex.elt) == src(ex.generators[0].target):
        gen = ex.generators[0]
        dom = gen.iter
        guarded = any((src(gen.target), 'not in', fld) in compare_atoms(c, True) for c in gen.ifs)
    else:
        dom = ex
    if isinstance(dom, ast.Call) and is_name(dom.func, 'set') and len(dom.args) == 1:
        dom = dom.args[0]
    return ex, dom, guarded


def registration_profile(ctx, fn, field, selfn):
    """For each registration of a label into ``field`` (X.f[i] = .. / X.f.add(i))
    return (node, guards, domain) where guards = set of truthy tests on the
    value parameter dominating it, domain in {'squashed', 'raw', '?'}."""
    out = []
    g = cfg_of(fn.node)
    squashed_names = _names_bound_to_squash(fn)
    params = fn.params
    keyp = params[1] if len(params) > 1 else 'key'
    valp = params[2] if len(params) > 2 else 'value'
    for node, obj, f, kind, detail in field_writes(fn.node, {field}):
        if obj != selfn:
            continue
        bulk = None
        if kind == 'item':
            label = detail[0]
        elif kind == 'call' and detail.func.attr == 'add':
            label = detail.args[0]
        else:
            bulk = bulk_registration(fn, selfn, field, (node, obj, f, kind, detail))
            if bulk is None:
                continue
            label = bulk[1]
        st = enclosing_stmt(node)
        guards = set()
        member_squashed = False
        for t, pol, owner in g.edge_dominators(st):
            for fact in compare_atoms(t, pol):
                if fact == ('truthy', valp):
                    guards.add('value')
                if len(fact) == 3 and fact[1] == 'in' and fact[0] == src(label) and \
                        (fact[2] in squashed_names or 'squash_key(' in fact[2]):
                    member_squashed = True
        # iteration domain: enclosing for loop over ...
        dom = '?'
        p = parent(st)
        if bulk is not None:
            names = names_in(bulk[1])
            if names & squashed_names or any(_squash_call(c) for c in ast.walk(bulk[1])):
                dom = 'squashed'
            elif keyp in names:
                dom = 'raw'
            p = None
        while p is not None and p is not fn.node:
            if isinstance(p, ast.For) and src(p.target) == src(label):
                it = p.iter
                names = names_in(it)
                if names & squashed_names or any(_squash_call(c) for c in ast.walk(it)):
                    dom = 'squashed'
                elif keyp in names:
                    dom = 'squashed' if member_squashed else 'raw'
                break
            p = parent(p)
        out.append((node, guards, dom))
    return out


def rules(ctx):
    P, R = ctx.prog, ctx.res
    ctx.rule('R14.1', "stores to the 8 bookkeeping fields occur only in the frozen writer table", floor=20)
    ctx.rule('R14.2', "mapping and reverse mapping are written as inverse pairs in one block", floor=4)
    ctx.rule('R14.3', "variable set and count grow together under `not in`; degree only by max", floor=2)
    ctx.rule('R14.4', "a label enters the mapping under the same guard and domain as it enters the "
                      "variable cache", floor=2)
    ctx.rule('R14.5', "coupled caches assigned on a foreign object are assigned as a whole group from "
                      "one source", floor=1)
    ctx.rule('R14.6', "__init__ is re-run on a live model only by clear/refresh", floor=3)
    ctx.rule('R14.7', "refresh copies through the model's own class before clearing and re-initialises "
                      "from that copy", floor=3)
    ctx.rule('R14.8', "counters are monotone; each label taken is followed by its increment", floor=2)
    ctx.rule('R14.9', "reduction ancilla base bounds every mapped label", floor=1)
    ctx.rule('R14.10', "a field of model objects that is not one of the frozen bookkeeping fields and is written together "
                       "with the terms / a bookkeeping field is written by every other mutator of that state", floor=1)
    derived_fields(ctx, 'R14.10')
    ctx.rule('R14.11', "the constraint record and the ancilla counter are handed to a derived model together", floor=2)
    record_and_counter_together(ctx, 'R14.11')
    no_module_state(ctx, 'R14.10')
    from .C02 import copy_ctor_counter
    copy_ctor_counter(ctx, 'R14.8')
    from .C03 import counter_handback_source
    counter_handback_source(ctx, 'R14.8')
    from .C03 import counter_handback
    counter_handback(ctx, 'R14.8')

    model_classes = {c.name for c in P.subclasses_of('DictArithmetic')}

    # ------------------------------------------------------------ R14.1 / R14.2
    who_may_write(ctx, 'R14.1', ALLF)
    inverse_pairs(ctx, 'R14.2')

    # ------------------------------------------------------------ R14.3
    set_and_count(ctx, 'R14.3')
    fn = P.func('PUBOMatrix.__setitem__')
    selfn = R.self_name(fn)
    # caches only grow outside the constructor (upper-bound clause): any
    # shrinking write in a maintained path is a violation
    for f_ in P.all_funcs():
        if f_.name == '__init__' or f_.qual == 'PUSO._create_pubo':
            continue
        for node, obj, f, kind, detail in field_writes(f_.node, {'_variables', '_num_binary_variables'}):
            if f == '_variables':
                ok = (kind == 'call' and detail.func.attr in ('add', 'update')) or (kind == 'aug' and isinstance(detail[0], ast.BitOr))
            else:
                ok = kind == 'aug' and isinstance(detail[0], ast.Add) and (
                    (const_num(detail[1]) or 0) > 0 or (isinstance(detail[1], ast.Call) and is_name(detail[1].func, 'len')))
            if not ok:
                ctx.inst('R14.3', f_, node, False,
                         "%s.%s is written other than by growth (add / += 1) outside the constructor: the "
                         "cache can fall below the true variables" % (obj, f))

    # ------------------------------------------------------------ R14.4
    registration_parity(ctx, 'R14.4')
    bo = P.func('BO.__setitem__')

    # ------------------------------------------------------------ R14.5
    coupled_group_instances(ctx, 'R14.5')

    # ------------------------------------------------------------ R14.6 / R14.7
    reset_reachability(ctx, 'R14.6')
    refresh_order(ctx, 'R14.7')
    from .C05 import derived_from_copy
    derived_from_copy(ctx, 'R14.6')

    # ------------------------------------------------------------ R14.8
    CTOR_OR_HANDOFF = {'BO.__init__', 'PCBO.__init__', '_pcso._empty_pcbo', '_info.create_from_info'} | \
        {'PCSO.add_constraint_%s_zero' % r for r in ('eq', 'ne', 'lt', 'le', 'gt', 'ge')}
    for f_ in P.all_funcs():
        for node, obj, f, kind, detail in field_writes(f_.node, {'_ancilla', '_next_label'}):
            if f_.qual in CTOR_OR_HANDOFF:
                continue
            if f_.qual in ('PCBO.subs', 'PCBO.__round__') and f == '_ancilla':
                # derived model: the counter is handed over from self, never reset
                sn_ = R.self_name(f_)
                okh = kind == 'assign' and obj != sn_ and isinstance(detail, ast.AST) and \
                    src(detail) in ('%s._ancilla' % sn_, '%s.num_ancillas' % sn_)
                ctx.inst('R14.8', f_, node, okh,
                         "derived model takes over self's ancilla counter" if okh else
                         "%s writes `%s`: the derived model's counter is not self's counter" % (f_.qual, src(node)[:50]))
                continue
            ok = kind == 'aug' and isinstance(detail[0], ast.Add) and (const_num(detail[1]) or 0) > 0
            if not ok and kind == 'assign' and isinstance(detail, ast.BinOp) and isinstance(detail.op, ast.Add) and (
                    (src(detail.left) == '%s.%s' % (obj, f) and (const_num(detail.right) or 0) > 0) or
                    (src(detail.right) == '%s.%s' % (obj, f) and (const_num(detail.left) or 0) > 0)):
                ok = True       # X.c = X.c + k
            if not ok and kind == 'assign' and isinstance(detail, ast.Call) and is_name(detail.func, 'max') and \
                    any(src(a_) == '%s.%s' % (obj, f) for a_ in detail.args):
                ok = True       # X.c = max(X.c, ..): never decreases
            ctx.inst('R14.8', f_, node, ok,
                     "counter incremented by a positive constant / raised by max" if ok else
                     "counter %s.%s is written other than by a positive increment outside constructors "
                     "and hand-offs: names can repeat" % (obj, f))
    # take => increment in BO.__setitem__
    sn = R.self_name(bo)
    takes = [w for w in field_writes(bo.node, {'_mapping'}) if w[3] == 'item'
             and src(w[4][1]) == '%s._next_label' % sn]
    for node, obj, f, kind, (k, v) in takes:
        blk = parent(enclosing_stmt(node))
        incs_ = [w for w in field_writes(bo.node, {'_next_label'})
                 if parent(enclosing_stmt(w[0])) is blk and (
                     w[3] == 'aug' or (w[3] == 'assign' and isinstance(w[4], ast.BinOp) and isinstance(w[4].op, ast.Add)
                                       and '%s._next_label' % sn in (src(w[4].left), src(w[4].right))))]
        ctx.inst('R14.8', bo, node, bool(incs_),
                 "label taken and counter advanced in the same block" if incs_ else
                 "label taken from _next_label without advancing it: two labels share an integer")
    # _next_ancilla: increments on every evaluation, name is injective in the counter
    na = P.func('PCBO._next_ancilla')
    gna = cfg_of(na.node)
    incs_ = [enclosing_stmt(w[0]) for w in field_writes(na.node, {'_ancilla'})
             if w[3] == 'aug' and isinstance(w[4][0], ast.Add) and (const_num(w[4][1]) or 0) > 0]
    ctx.inst('R14.8', na, incs_[0] if incs_ else 'increment',
             bool(incs_) and gna.must_pass_to_exit(ENTRY, set(incs_)),
             "counter advanced on every evaluation" if incs_ else "_next_ancilla does not advance the counter")

    # ------------------------------------------------------------ R14.9
    from .C01 import ancilla_base_instances
    ancilla_base_instances(ctx, 'R14.9')


COUPLED = {'_mapping', '_reverse_mapping', '_variables', '_num_binary_variables'}
_PUB = {'_mapping': 'mapping', '_reverse_mapping': 'reverse_mapping', '_variables': 'variables',
        '_num_binary_variables': 'num_binary_variables'}


def coupled_group_instances(ctx, rid, only=None):
    """R14.5: a function assigning part of the coupled caches on an object that
    is not its own ``self`` must assign the whole group from one source."""
    P, R = ctx.prog, ctx.res
    n5 = 0
    for f_ in P.all_funcs():
        if only is not None and f_.qual not in only:
            continue
        own = R.self_name(f_)
        ws = [w for w in field_writes(f_.node, COUPLED) if w[3] == 'assign' and w[1] != own]
        if not ws:
            continue
        by_obj = {}
        for w in ws:
            by_obj.setdefault(w[1], []).append(w)
        for obj, lst in by_obj.items():
            n5 += 1
            got = {w[2] for w in lst}
            missing = COUPLED - got
            srcs = set()
            for w in lst:
                v = src(w[4]) if w[4] is not None else '?'
                for suffix in (_PUB[w[2]], w[2]):
                    if v.endswith('.' + suffix):
                        srcs.add(v[:-len(suffix) - 1])
                        break
                else:
                    if v.endswith('.%s.copy()' % w[2]) or v.endswith('.%s.copy()' % _PUB[w[2]]):
                        srcs.add(v.rsplit('.', 2)[0])
                    elif v.startswith(('dict(', 'set(')) and v.endswith('.%s)' % w[2]):
                        srcs.add(v[v.index('(') + 1:-len(w[2]) - 2])
                    else:
                        srcs.add('?' + v)
            ok = not missing and len(srcs) == 1 and not any(s_.startswith('?') for s_ in srcs)
            ctx.inst(rid, f_, lst[0][0], ok,
                     "whole coupled group assigned on %s from %s" % (obj, sorted(srcs)) if ok else
                     ("%s assigns %s on the foreign object %s but not %s: the ancilla base "
                      "(num_binary_variables) can undercut a mapped label" % (f_.qual, sorted(got), obj, sorted(missing))
                      if missing else "coupled caches come from different sources %s" % sorted(srcs)))
    if not n5:
        if only:
            ctx.inst(rid, ('qubovert/_puso.py', sorted(only)[0]), 'hand-over of the coupled caches', False,
                     "%s no longer hands the mapping and variable caches to the temporary boolean model"
                     % sorted(only)[0])
        else:
            ctx.inst(rid, ('qubovert', ''), 'no foreign-object assignment of coupled caches', True,
                     "nothing to check", nontrivial=False)


def reset_reachability(ctx, rid):
    """R14.6: __init__ re-run on a live model only by clear/refresh."""
    P, R = ctx.prog, ctx.res
    model_classes = {c.name for c in P.subclasses_of('DictArithmetic')}
    # ------------------------------------------------------------ R14.6
    RESET_OK = {('PUBOMatrix.refresh', '__init__'), ('PUBOMatrix.refresh', 'clear'),
                ('PUBOMatrix.clear', '__init__'), ('PUBOMatrix.clear', 'clear')}
    # functions that write G1/G2/G3 wholesale in __init__ -> anything resolving to a model __init__
    seen6 = set()
    for recv in sorted(model_classes):
        for K in P.cls(recv).mro:
            if isinstance(K, str):
                continue
            for meth in K.methods.values():
                if meth.name == '__init__' or meth.is_static or not meth.node.args.args:
                    continue
                selfn_ = meth.node.args.args[0].arg
                for c in calls_in(meth.node):
                    nm = call_name(c)
                    if nm not in ('__init__', 'clear', 'refresh'):
                        continue
                    f = c.func
                    on_self = False
                    if isinstance(f, ast.Attribute):
                        if is_name(f.value, selfn_):
                            on_self = True
                        elif isinstance(f.value, ast.Call) and is_name(f.value.func, 'super'):
                            on_self = True
                        elif c.args and is_name(c.args[0], selfn_):
                            on_self = True     # K.__init__(self, ...)
                    if not on_self:
                        continue
                    tg = R.resolve_call(c, meth, recv)
                    for t, tr, how in tg:
                        if not isinstance(t, FuncInfo):
                            continue   # dict.clear etc.: removes terms only
                        reaches_init = t.name == '__init__' or any(
                            k[0].endswith('.__init__') for k in R.reachable_funcs(t, tr or recv))
                        if not reaches_init:
                            continue
                        k6 = (meth.qual, src(c), t.qual)
                        if k6 in seen6:
                            continue
                        seen6.add(k6)
                        ok = (meth.qual, nm) in RESET_OK
                        ctx.inst(rid, meth, c, ok,
                                 "legitimate reset (%s in %s)" % (nm, meth.qual) if ok else
                                 "%s[%s] calls %s on the live object, which re-runs %s and resets the "
                                 "caches / ancilla counter while terms are kept or re-added"
                                 % (meth.qual, recv, src(c.func), t.qual),
                                 path=[meth.qual + '[%s]' % recv, t.qual])



def refresh_order(ctx, rid):
    """R14.7: refresh snapshots through the model's class, then clears, then re-initialises."""
    P, R = ctx.prog, ctx.res
    # ------------------------------------------------------------ R14.7
    rf = P.func('PUBOMatrix.refresh')
    selfn_ = R.self_name(rf)
    g = cfg_of(rf.node)
    copies, clears, reinits = [], [], []
    for n in g.stmts():
        if isinstance(n, ast.Assign) and isinstance(n.value, ast.Call):
            v = n.value
            if (isinstance(v.func, ast.Attribute) and v.func.attr == 'copy' and is_name(v.func.value, selfn_)) or \
               (src(v.func) in ('%s.__class__' % selfn_, 'type(%s)' % selfn_) and v.args and is_name(v.args[0], selfn_)):
                copies.append(n)
        for c in calls_in(n) if isinstance(n, ast.Expr) else []:
            if call_name(c) == 'clear':
                clears.append(n)
            if call_name(c) == '__init__':
                reinits.append((n, c))
    ctx.inst(rid, rf, copies[0] if copies else 'copy', bool(copies),
             "snapshot taken through the model's own class (keeps constraints / ancilla counter)" if copies else
             "refresh does not snapshot the model through self.copy() / self.__class__(self): for PCBO/PCSO "
             "the re-initialisation loses the recorded constraints and the ancilla counter")
    ok = bool(copies) and bool(clears) and all(g.dominates(copies, c) for c in clears)
    ctx.inst(rid, rf, clears[0] if clears else 'clear', ok,
             "copy dominates the clear" if ok else "terms are cleared before the snapshot is taken")
    okr = False
    if copies and reinits:
        cname = src(copies[0].targets[0])
        okr = any(c.args and src(c.args[-1]) == cname and isinstance(c.func, ast.Attribute) and is_name(c.func.value, selfn_)
                  for _, c in reinits) and \
            all(g.dominates([x for x in clears], n) for n, _ in reinits)
    if okr:
        from ..cfg import ENTRY
        every = g.must_pass_to_exit(ENTRY, {n for n, _ in reinits})
        ctx.inst(rid, rf, 'def refresh (every path rebuilds)', every,
                 "every path through refresh re-initialises the caches" if every else
                 "a path through refresh returns without rebuilding the caches: after that call degree / variables / "
                 "mapping may still describe removed terms (refresh is the one operation documented to make them exact)")
    ctx.inst(rid, rf, reinits[0][0] if reinits else '__init__', okr,
             "re-initialised from the snapshot after the clear" if okr else
             "re-initialisation is not `self.__init__(snapshot)` after the clear (a fixed class's __init__ skips the "
             "other parents' caches, e.g. the label mapping)")



def no_module_state(ctx, rid):
    """No function of the package writes module-level state (a memo, a registry, a counter): results would depend on the
    history of earlier calls - and a memo keyed by labels confuses 1, 1.0 and True, which hash alike.  The reference tree
    has no such write (expected count 0; the self-test keeps a positive example)."""
    P = ctx.prog
    n = 0
    for m in P.modules.values():
        glob = set()
        for st in m.tree.body:
            if isinstance(st, (ast.Assign, ast.AnnAssign, ast.AugAssign)):
                for t in (st.targets if isinstance(st, ast.Assign) else [st.target]):
                    for x in ast.walk(t):
                        if isinstance(x, ast.Name):
                            glob.add(x.id)
        glob -= {'__all__'}
        for f in P.all_funcs():
            if f.module is not m:
                continue
            n += 1
            local = set(f.all_params)
            declared = set()
            for x in ast.walk(f.node):
                if isinstance(x, ast.Name) and isinstance(x.ctx, (ast.Store, ast.Del)):
                    local.add(x.id)
                if isinstance(x, ast.Global):
                    declared |= set(x.names)
            o = f.outer
            while o is not None:
                local |= set(o.all_params) | {x.id for x in ast.walk(o.node) if isinstance(x, ast.Name) and isinstance(x.ctx, ast.Store)}
                o = o.outer
            local -= declared
            bad = None
            for x in ast.walk(f.node):
                if isinstance(x, ast.Name) and isinstance(x.ctx, (ast.Store, ast.Del)) and x.id in declared:
                    bad = x
                if isinstance(x, (ast.Subscript, ast.Attribute)) and isinstance(x.ctx, (ast.Store, ast.Del)) \
                        and isinstance(x.value, ast.Name) and x.value.id in glob and x.value.id not in local:
                    bad = x
                if isinstance(x, ast.Call) and isinstance(x.func, ast.Attribute) and isinstance(x.func.value, ast.Name) \
                        and x.func.value.id in glob and x.func.value.id not in local and x.func.attr in (
                            'append', 'add', 'update', 'setdefault', 'pop', 'popitem', 'clear', 'extend', 'insert', 'remove',
                            'discard', '__setitem__', 'sort', 'reverse'):
                    bad = x
            if bad is not None:
                ctx.inst(rid, f, enclosing_stmt(bad) or bad, False,
                         "%s writes the module-level object `%s`: what the function returns now depends on earlier calls "
                         "(and a table keyed by labels treats 1, 1.0 and True as one key)" % (f.qual, src(bad)[:50]))
    ctx.inst(rid, ('qubovert', ''), 'module-level state', True, "%d functions scanned for writes to module-level objects" % n,
             nontrivial=False)


KNOWN_FIELDS = {'_mapping', '_reverse_mapping', '_next_label', '_variables', '_degree', '_num_binary_variables',
                '_constraints', '_ancilla', '_name', 'name'}
DICT_MUTATORS = ('__setitem__', '__delitem__', 'pop', 'popitem', 'clear', 'update', 'setdefault')


def derived_fields(ctx, rid):
    """A field of a model object that today's tree does not have, and that some function writes together with the
    terms (inside a dict mutator) or together with a bookkeeping field, is derived state: every other way the terms /
    that field change on a live object must write it too, otherwise it goes stale.  (The frozen bookkeeping fields are
    exempt: they are documented supersets until refresh().)"""
    P, R = ctx.prog, ctx.res
    hier = set()
    concrete = P.subclasses_of('DictArithmetic')
    for c in concrete:
        for x in c.mro:
            hier.add(x.name if hasattr(x, 'name') else x)
    funcs = [fn for fn in P.all_funcs() if fn.cls is not None and fn.cls.name in hier and fn.outer is None]
    new = {}
    for fn in funcs:
        selfn = R.self_name(fn)
        for n in ast.walk(fn.node):
            if isinstance(n, ast.Attribute) and isinstance(n.ctx, (ast.Store, ast.Del)) and is_name(n.value, selfn) \
                    and n.attr not in KNOWN_FIELDS and not (n.attr.startswith('__') and n.attr.endswith('__')):
                new.setdefault(n.attr, [])
                if fn not in new[n.attr]:
                    new[n.attr].append(fn)
    # fields created reflectively: self.__dict__.setdefault('f', ..), self.__dict__['f'] = .., setattr(self, 'f', ..), vars(self)
    for fn in funcs:
        selfn = R.self_name(fn)
        for n in ast.walk(fn.node):
            fname = None
            def is_dict_of_self(e):
                return (isinstance(e, ast.Attribute) and e.attr == '__dict__' and is_name(e.value, selfn)) or \
                       (isinstance(e, ast.Call) and is_name(e.func, 'vars') and len(e.args) == 1 and is_name(e.args[0], selfn))
            if isinstance(n, ast.Call) and isinstance(n.func, ast.Attribute) and n.func.attr in ('setdefault', '__setitem__') \
                    and is_dict_of_self(n.func.value) and n.args and isinstance(n.args[0], ast.Constant):
                fname = n.args[0].value
            elif isinstance(n, ast.Subscript) and isinstance(n.ctx, (ast.Store, ast.Del)) and is_dict_of_self(n.value) and isinstance(n.slice, ast.Constant):
                fname = n.slice.value
            elif isinstance(n, ast.Call) and is_name(n.func, 'setattr') and len(n.args) == 3 and is_name(n.args[0], selfn) \
                    and isinstance(n.args[1], ast.Constant):
                fname = n.args[1].value
            if isinstance(fname, str) and fname not in KNOWN_FIELDS:
                new.setdefault(fname, [])
                if fn not in new[fname]:
                    new[fname].append(fn)
    # a field that holds a container is also written by mutating the container (self._cache.clear(), self._cache[k] = v)
    for fn in funcs:
        selfn = R.self_name(fn)
        if not new:
            break
        for node, obj, f, kind, detail in field_writes(fn.node, set(new)):
            if obj == selfn and fn not in new[f]:
                new[f].append(fn)
    ctx.inst(rid, ('qubovert', ''), 'fields of model objects', True,
             "fields written on model objects: the %d frozen ones%s" % (len(KNOWN_FIELDS), (' + new %s' % sorted(new)) if new else ''),
             nontrivial=False)

    def writes(fn, F, recv):
        if fn in new[F]:
            return True
        try:
            reach = R.reachable_funcs(fn, recv)
        except Exception:
            return False
        quals = {w.qual for w in new[F]}
        return any(q in quals for (q, r) in reach)

    for F, ws in sorted(new.items()):
        non_init = [fn for fn in ws if fn.name != '__init__']
        deps = set()
        for fn in non_init:
            selfn = R.self_name(fn)
            if fn.name in DICT_MUTATORS or fn.name in ('__imul__',):
                deps.add('terms')
            for node, obj, f, kind, detail in field_writes(fn.node, KNOWN_FIELDS - {'name', '_name'}):
                if obj == selfn:
                    deps.add(f)
        if not deps:
            continue
        wcls = {fn.cls.name for fn in ws}
        for dep in sorted(deps):
            if dep == 'terms':
                for K in concrete:
                    mro = [x.name if hasattr(x, 'name') else x for x in K.mro]
                    if not (wcls & set(mro)):
                        continue
                    for m in DICT_MUTATORS:
                        f = P.lookup_method(K.name, m)
                        ok = isinstance(f, FuncInfo) and writes(f, F, K.name)
                        ctx.inst(rid, (K.module.relpath, K.name), '%s kept by %s.%s' % (F, K.name, m), ok,
                                 "%s maintains %s" % (getattr(f, 'qual', f), F) if ok else
                                 "the new field `%s` is written together with the terms (%s) but %s.%s resolves to %s, which does "
                                 "not write it: after that operation `%s` describes terms that are no longer there"
                                 % (F, ', '.join(sorted(w.qual for w in non_init))[:80], K.name, m,
                                    f.qual if isinstance(f, FuncInfo) else 'the inherited dict method', F))
                # direct uses of the parent's primitive bypass the overrides
                for g in funcs:
                    if g.name in DICT_MUTATORS or g.name == '__init__':
                        continue
                    for c in calls_in(g.node):
                        if isinstance(c.func, ast.Attribute) and c.func.attr in DICT_MUTATORS and (
                                (isinstance(c.func.value, ast.Call) and is_name(c.func.value.func, 'super')) or
                                is_name(c.func.value, 'dict')):
                            ok = writes(g, F, g.cls.name)
                            ctx.inst(rid, g, c, ok,
                                     "%s also writes %s" % (g.qual, F) if ok else
                                     "%s changes the terms through `%s` without writing the new derived field `%s`"
                                     % (g.qual, src(c)[:40], F))
            else:
                for g in funcs:
                    if g.name == '__init__':
                        continue
                    selfn = R.self_name(g)
                    hit = [w for w in field_writes(g.node, {dep}) if w[1] == selfn]
                    if not hit:
                        continue
                    ok = writes(g, F, g.cls.name)
                    ctx.inst(rid, g, hit[0][0], ok,
                             "%s writes %s together with %s" % (g.qual, F, dep) if ok else
                             "the new field `%s` is written together with `%s` (%s) but %s changes `%s` without writing it: "
                             "`%s` goes stale" % (F, dep, ', '.join(sorted(w.qual for w in non_init))[:80], g.qual, dep, F))


def record_and_counter_together(ctx, rid):
    """The constraint record and the ancilla counter describe the same penalties: whoever hands the record of a model
    to another object (a derived model built otherwise than through the copy constructor: subs, __round__) hands the
    counter over too - otherwise the derived model holds the ancillas __a0.. but counts 0, and its next constraint
    uses the same names again."""
    P, R = ctx.prog, ctx.res
    n = 0
    for fn in P.all_funcs():
        if fn.outer is not None:
            continue
        ws = [w for w in field_writes(fn.node, G3) if w[3] == 'assign']
        by_obj = {}
        for w in ws:
            by_obj.setdefault(w[1], set()).add(w[2])
        for obj, got in sorted(by_obj.items()):
            if '_constraints' not in got:
                continue
            n += 1
            ok = '_ancilla' in got
            first = [w for w in ws if w[1] == obj and w[2] == '_constraints'][0]
            ctx.inst(rid, fn, first[0], ok,
                     "%s gets the record and the counter together" % obj if ok else
                     "%s gives `%s` the constraint record but not the ancilla counter: the object holds the constraints' ancilla "
                     "variables while num_ancillas says 0, so the next constraint added to it reuses their names"
                     % (fn.qual, obj))
    if not n:
        raise AnalysisError("record_and_counter_together: no wholesale assignment of _constraints found")
    # the two derived-model builders of PCBO hand over both (a derived model without the record accepts every assignment)
    for q in ('PCBO.subs', 'PCBO.__round__'):
        if not P.has_func(q):
            continue
        fq = P.func(q)
        sq = R.self_name(fq)
        got = {w[2] for w in field_writes(fq.node, G3) if w[3] == 'assign' and w[1] != sq}
        okq = {'_constraints', '_ancilla'} <= got
        ctx.inst(rid, fq, 'derived model of %s' % q, okq,
                 "%s hands the record and the counter to the derived model" % q if okq else
                 "%s does not give the derived model %s: it %s" % (q, sorted({'_constraints', '_ancilla'} - got),
                                                                  "accepts every assignment as valid" if '_constraints' not in got else
                                                                  "reuses the ancilla names of its constraints"))
    # merging another model's record into one's own (update): the merged constraints bring their ancillas along, so the
    # counter must cover the other model's counter as well
    m = 0
    for fn in P.all_funcs():
        if fn.outer is not None:
            continue
        ws = [w for w in field_writes(fn.node, {'_constraints'}) if w[3] != 'assign']
        objs = {w[1] for w in ws}
        if not objs:
            continue
        foreign = sorted({src(x.value) for x in ast.walk(fn.node) if isinstance(x, ast.Attribute) and x.attr == '_constraints'
                          and isinstance(x.ctx, ast.Load) and src(x.value) not in objs})
        if not foreign:
            continue
        cw = [w for w in field_writes(fn.node, {'_ancilla'}) if w[1] in objs and w[3] in ('assign', 'aug')]
        for y in foreign:
            m += 1
            ok = any(any(isinstance(x, ast.Attribute) and x.attr == '_ancilla' and src(x.value) == y
                         for x in ast.walk(w[4] if w[3] == 'assign' else w[4][1])) for w in cw)
            ctx.inst(rid, fn, ws[0][0], ok,
                     "the record of %s is merged together with its counter" % y if ok else
                     "%s merges the constraint record of `%s` into %s but leaves the ancilla counter alone: the model then holds "
                     "the ancilla variables of those constraints while num_ancillas does not count them, and the next constraint "
                     "added to it uses their names again" % (fn.qual, y, '/'.join(sorted(objs))))


def set_and_count(ctx, rid):
    """R14.3: the variable set and the variable count of PUBOMatrix.__setitem__ grow together (add / += 1 under `not in`, or
    the bulk form); the cached degree grows by max for every stored term."""
    P, R = ctx.prog, ctx.res
    fn = P.func('PUBOMatrix.__setitem__')
    selfn = R.self_name(fn)
    ws = field_writes(fn.node, G2)
    adds = [w for w in ws if w[2] == '_variables' and w[3] == 'call' and w[4].func.attr == 'add']
    incs = [w for w in ws if w[2] == '_num_binary_variables' and w[3] == 'aug']
    bulks = [(w, bulk_registration(fn, selfn, '_variables', w)) for w in ws]
    bulks = [(w, b) for w, b in bulks if b is not None]
    if not adds and not bulks:
        raise AnalysisError("PUBOMatrix.__setitem__: no _variables.add registration found")
    from ..astutil import expand_names as _xn
    for w, (ex, dom, guarded) in bulks:
        blk = parent(enclosing_stmt(w[0]))
        mate = [i for i in incs if parent(enclosing_stmt(i[0])) is blk and isinstance(i[4][0], ast.Add) and
                isinstance(i[4][1], ast.Call) and is_name(i[4][1].func, 'len') and len(i[4][1].args) == 1 and
                src(_xn(fn.node, i[4][1].args[0])) == src(ex)]
        ok = bool(mate) and guarded
        ctx.inst(rid, fn, w[0], ok,
                 "new labels joined to the set and counted by their number" if ok else
                 ("the count is not increased by len() of the labels joined to the set in the same block" if not mate else
                  "the labels joined to the set are not restricted to those not yet in %s._variables: the count can exceed the set" % selfn))
    for node, obj, f, kind, call in adds:
        blk = parent(enclosing_stmt(node))
        lab = src(call.args[0])
        mate = [w for w in incs if parent(enclosing_stmt(w[0])) is blk and
                isinstance(w[4][0], ast.Add) and const_num(w[4][1]) == 1]
        # guard: label not already in the set (filter lambda or if)
        guarded = False
        p = parent(enclosing_stmt(node))
        loop = p if isinstance(p, ast.For) else None
        if loop is not None:
            it = loop.iter
            if isinstance(it, ast.Call) and is_name(it.func, 'filter') and isinstance(it.args[0], ast.Lambda):
                lam = it.args[0]
                arg = lam.args.args[0].arg
                if compare_atoms(lam.body, True) == [(arg, 'not in', '%s._variables' % selfn)]:
                    guarded = True
            if isinstance(it, (ast.GeneratorExp, ast.ListComp)):
                for gen in it.generators:
                    for c in gen.ifs:
                        if (src(gen.target), 'not in', '%s._variables' % selfn) in compare_atoms(c, True):
                            guarded = True
        gcf = cfg_of(fn.node)
        from ..astutil import expand_names
        for t, pol, o in gcf.edge_dominators(enclosing_stmt(node)):
            if (lab, 'not in', '%s._variables' % selfn) in compare_atoms(expand_names(fn.node, t), pol):
                guarded = True
        ok = bool(mate) and guarded
        ctx.inst(rid, fn, node, ok,
                 "add paired with count += 1 under `not in`" if ok else
                 ("count increment missing in the block of the add" if not mate else
                  "registration not guarded by `%s not in %s._variables`: the count can exceed the set" % (lab, selfn)))
    for node, obj, f, kind, detail in incs:
        blk = parent(enclosing_stmt(node))
        mate = [w for w in adds if parent(enclosing_stmt(w[0])) is blk] + [w for w, b in bulks if parent(enclosing_stmt(w[0])) is blk]
        ctx.inst(rid, fn, node, bool(mate),
                 "increment paired with add" if mate else "count incremented without adding the variable")
    for node, obj, f, kind, v in [w for w in ws if w[2] == '_degree' and w[3] == 'assign']:
        ok = isinstance(v, ast.Call) and is_name(v.func, 'max') and \
            any(src(a) == '%s._degree' % selfn for a in v.args)
        if not ok:
            # the conditional spelling of max: `if new > self._degree: self._degree = new`
            from ..astutil import expand_names
            gdeg = cfg_of(fn.node)
            vt = src(expand_names(fn.node, v))
            for t_, pol_, o_ in gdeg.edge_dominators(enclosing_stmt(node)):
                fs = compare_atoms(expand_names(fn.node, t_), pol_)
                if (vt, '>', '%s._degree' % selfn) in fs or (vt, '>=', '%s._degree' % selfn) in fs:
                    ok = True
        ctx.inst(rid, fn, node, ok,
                 "degree grows by max" if ok else "degree assigned without max(self._degree, ...): can shrink "
                 "below the true degree")
        # ... for every stored term: the only condition on the update is that the value is non-zero (a constant term has
        # degree 0, above the -inf of an empty model)
        from ..astutil import expand_names as _xn2
        gd = cfg_of(fn.node)
        valp = fn.params[2] if len(fn.params) > 2 else 'value'
        vt2 = src(_xn2(fn.node, v)) if isinstance(v, ast.AST) else ''
        extra = []
        for t_, pol_, o_ in gd.edge_dominators(enclosing_stmt(node)):
            for a_ in compare_atoms(_xn2(fn.node, t_), pol_):
                if a_ in (('truthy', valp), (valp, '!=', '0'), ('0', '!=', valp)):
                    continue
                if len(a_) == 3 and '%s._degree' % selfn in (a_[0], a_[2]):
                    continue        # the conditional spelling of max
                extra.append(a_)
        ctx.inst(rid, fn, 'guards of the degree update', not extra,
                 "the degree is raised for every non-zero term" if not extra else
                 "the degree update is skipped under the extra condition %s: a stored term (e.g. the constant, degree 0) "
                 "can leave the cached degree below the true one" % (extra[:2],))



def clear_reinit(ctx, rid):
    """clear() empties every cache of every parent: it re-runs the receiver's own __init__ (MRO dispatch) with no
    arguments after emptying the terms - resetting a hand-picked list of fields leaves the other parents' caches (the
    label mapping of BO) describing a model that is gone."""
    P, R = ctx.prog, ctx.res
    cl = P.func('PUBOMatrix.clear')
    sn = R.self_name(cl)
    g = cfg_of(cl.node)
    inits = [n for n in g.stmts() if isinstance(n, ast.Expr) and isinstance(n.value, ast.Call)
             and isinstance(n.value.func, ast.Attribute) and n.value.func.attr == '__init__'
             and is_name(n.value.func.value, sn) and not n.value.args and not n.value.keywords]
    ok = bool(inits) and g.must_pass_to_exit(ENTRY, set(inits))
    ctx.inst(rid, cl, inits[0] if inits else 'def clear', ok,
             "clear() re-initialises through %s.__init__() on every path" % sn if ok else
             "clear() does not re-run %s.__init__() on every path: the caches of the other parent classes (label mapping, "
             "next label) survive the clear and describe the old model" % sn)
    # ... and the terms themselves are emptied through the dict's clear on every path (dict.__init__() with no arguments
    # leaves the items in place)
    raw = [n for n in g.stmts() if isinstance(n, ast.Expr) and isinstance(n.value, ast.Call) and isinstance(n.value.func, ast.Attribute)
           and n.value.func.attr == 'clear' and (
               (isinstance(n.value.func.value, ast.Call) and is_name(n.value.func.value.func, 'super')) or
               (is_name(n.value.func.value, 'dict') and n.value.args and is_name(n.value.args[0], sn)))]
    okr = bool(raw) and g.must_pass_to_exit(ENTRY, set(raw))
    ctx.inst(rid, cl, raw[0] if raw else 'def clear', okr,
             "the terms are emptied by the dict's own clear on every path" if okr else
             "clear() does not empty the terms through super().clear() on every path: re-running __init__() does not remove "
             "the items of a dict, so the model keeps its terms while its caches say it is empty")


def registration_parity(ctx, rid):
    """R14.4: a label enters the mapping under the same guard and iteration domain as it enters the variable cache."""
    P, R = ctx.prog, ctx.res
    clear_reinit(ctx, rid)
    if rid != 'R14.4':
        set_and_count(ctx, rid)     # (C14 itself reports this part under R14.3)
    fn = P.func('PUBOMatrix.__setitem__')
    selfn = R.self_name(fn)
    # ------------------------------------------------------------ R14.4
    bo = P.func('BO.__setitem__')
    g1 = registration_profile(ctx, bo, '_mapping', R.self_name(bo))
    g2 = registration_profile(ctx, fn, '_variables', selfn)
    if not g1 or not g2:
        raise AnalysisError("R14.4: registration sites not found (G1 %d, G2 %d)" % (len(g1), len(g2)))
    ref_guards, ref_dom = g2[0][1], g2[0][2]
    for node, guards, dom in g1:
        ok = guards == ref_guards and dom == ref_dom and dom != '?'
        ctx.inst(rid, bo, node, ok,
                 "mapping registration under guards %s over the %s key, as the variable cache"
                 % (sorted(guards), dom) if ok else
                 "label enters the mapping under guards %s over the %s key, but enters the variable "
                 "cache under guards %s over the %s key: mapping and num_binary_variables can diverge"
                 % (sorted(guards), dom, sorted(ref_guards), ref_dom))
    for node, guards, dom in g2:
        ctx.inst(rid, fn, node, dom == 'squashed' and 'value' in guards,
                 "variable registration over the squashed key under `if value`"
                 if dom == 'squashed' and 'value' in guards else
                 "variable cache registers labels of the %s key under guards %s" % (dom, sorted(guards)))
    # the BO layer must call the Matrix layer (super().__setitem__) on every path
    gbo = cfg_of(bo.node)
    sup = [enclosing_stmt(c) for c in calls_in(bo.node, '__setitem__')
           if isinstance(c.func.value, ast.Call) and is_name(c.func.value.func, 'super')]
    ctx.inst(rid, bo, 'super().__setitem__', bool(sup) and gbo.must_pass_to_exit(ENTRY, set(sup)),
             "Matrix layer invoked on every path")
    # each labelled class resolves __setitem__ to BO then PUBOMatrix
    for c in LABELLED:
        a = P.lookup_method(c, '__setitem__')
        b = P.lookup_method(c, '__setitem__', after='BO')
        ok = isinstance(a, FuncInfo) and a.qual == 'BO.__setitem__' and isinstance(b, FuncInfo) \
            and b.qual == 'PUBOMatrix.__setitem__'
        ctx.inst(rid, (P.cls(c).module.relpath, c), '%s.__setitem__ chain' % c, ok,
                 "BO.__setitem__ -> PUBOMatrix.__setitem__" if ok else
                 "__setitem__ chain of %s is %s -> %s" % (c, getattr(a, 'qual', a), getattr(b, 'qual', b)))



def who_may_write(ctx, rid, fields):
    """R14.1 for the given field set."""
    P, R = ctx.prog, ctx.res
    model_classes = {c.name for c in P.subclasses_of('DictArithmetic')}
    # ------------------------------------------------------------ R14.1
    for fn in P.all_funcs():
        if fn.outer is not None:
            continue
        own_self = R.self_name(fn)
        for node, obj, f, kind, detail in field_writes(fn.node, fields):
            if fn.cls is not None and fn.cls.name not in model_classes and obj == own_self:
                continue   # e.g. GraphPartitioning._degree: not a model cache
            q = fn.qual
            ent = WRITERS.get(q)
            ok = ent is not None and f in ent[0]
            ctx.inst(rid, fn, node, ok,
                     ("allowed writer (%s)" % ent[1]) if ok else
                     "%s writes %s.%s but is not in the writer table for that field: the cache can be "
                     "changed outside the maintained paths" % (q, obj, f),
                     nontrivial=not ok or q not in ('BO.__init__', 'PUBOMatrix.__init__'))



def inverse_pairs(ctx, rid):
    """R14.2: mapping / reverse mapping written as inverse pairs."""
    P, R = ctx.prog, ctx.res
    # the two tables are two objects: never bound by one chained assignment or to each other
    pair = {'_mapping', '_reverse_mapping'}
    for fn in P.all_funcs():
        for n in ast.walk(fn.node):
            if not isinstance(n, ast.Assign):
                continue
            fl = [t.attr for t in n.targets if isinstance(t, ast.Attribute) and t.attr in pair]
            shared = len(set(fl)) == 2 and not isinstance(n.value, (ast.Constant, ast.Tuple))
            cross = any(isinstance(t, ast.Attribute) and t.attr in pair for t in n.targets) and \
                isinstance(n.value, ast.Attribute) and n.value.attr in pair - set(fl) and \
                src(n.value.value) in [src(t.value) for t in n.targets if isinstance(t, ast.Attribute)]
            if fl:
                ctx.inst(rid, fn, n, not (shared or cross),
                         "tables bound to separate objects" if not (shared or cross) else
                         "`%s` binds the mapping and the reverse mapping to ONE object: every later registration writes "
                         "label->index and index->label into the same dict, so integer labels collide with indices"
                         % src(n)[:70])
    # ------------------------------------------------------------ R14.2
    for q in ('BO.__setitem__', 'BO.set_mapping', 'BO.set_reverse_mapping', 'BO.__init__',
              'PUSO._create_pubo'):
        if not P.has_func(q):
            continue
        fn = P.func(q)
        ws = field_writes(fn.node, {'_mapping', '_reverse_mapping'})
        items = [w for w in ws if w[3] == 'item']
        for node, obj, f, kind, (k, v) in items:
            other = '_reverse_mapping' if f == '_mapping' else '_mapping'
            blk = parent(enclosing_stmt(node))
            mate = [w for w in items if w[2] == other and w[1] == obj and
                    parent(enclosing_stmt(w[0])) is blk and
                    src(w[4][0]) == src(v) and src(w[4][1]) == src(k)]
            ctx.inst(rid, fn, node, bool(mate),
                     "paired with the inverse entry" if mate else
                     "%s.%s[%s] = %s has no inverse entry %s[%s] = %s in the same block"
                     % (obj, f, src(k), src(v), other, src(v), src(k)))
        whole = [w for w in ws if w[3] == 'assign']
        for node, obj, f, kind, v in whole:
            other = '_reverse_mapping' if f == '_mapping' else '_mapping'
            blk = parent(enclosing_stmt(node))
            mate = [w for w in whole if w[2] == other and w[1] == obj and
                    parent(enclosing_stmt(w[0])) is blk]
            ok = bool(mate)
            msg = "both halves replaced together"
            if ok and v is not None and mate[0][4] is not None:
                a, b = src(v), src(mate[0][4])
                # same source: {} / {} or X.mapping / X.reverse_mapping
                def base(t):
                    return t.replace('reverse_mapping', 'M').replace('_mapping', 'M').replace('mapping', 'M')
                if not (a == b == '{}' or (base(a) == base(b) and a != b)):
                    ok, msg = False, "halves come from different sources: %s vs %s" % (a, b)
            elif not ok:
                msg = "%s.%s replaced without replacing %s in the same block" % (obj, f, other)
            ctx.inst(rid, fn, node, ok, msg)

