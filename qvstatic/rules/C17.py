"""C17 - memory safety of the C annealing kernels.  Rules M1 - M9 + Python-side
obligations O1 - O5 (DESIGN 4.17)."""
import ast
import re
import subprocess
import sysconfig

from ..pymodel import AnalysisError
from ..cmodel import S, strip, unparen, UNITS
from . import C11

EXPLANATION = (
    "Extent analysis over clang's typed syntax tree of the five translation units: every "
    "malloc/realloc/calloc is count * sizeof(T) with T the pointee of the receiving pointer (M1); "
    "each allocated local is freed exactly once at the exit, rows before their table, nothing is "
    "used after or returned (M2); buffer extents are propagated to pointer parameters through all "
    "call sites and must agree (M3); every array subscript falls into one sound class - loop-bounded "
    "by the extent, affine in two bounded loop variables, offset-of-count after realloc(k+1), "
    "bounded-random / index parameter whose call sites are bounded, constant with a size guard on "
    "the C or Python side, or a data-dependent index matching one of the recognised idioms (prefix "
    "rows, stored spin labels, counted rows, stored term numbers, running cursor) whose Python-side "
    "obligations O1-O5 are checked in the front end (M4); each heap array is fully written before it "
    "is read, conditionally initialised arrays are read only under the same flag (M5); no function "
    "reachable from the entry points touches writable file-scope state (M6); memcpy/memset sizes "
    "carry sizeof of the pointee (M8); PyList_GetItem indices are bounded by the size of the same "
    "list or by a front-end length obligation (M9).")
NOT_DECIDED = ("signed overflow of num_anneals * len_state and of the prefix sums; allocation failure (malloc "
               "results are not checked in the source; assumed to succeed); the values inside a user-supplied "
               "initial state; reference counting of the returned Python objects.")
TRUSTED = ["clang 14 parser", "CPython list API contracts", "PCG reference code (pcg_basic.c has no arrays)"]

KERNEL_UNITS = ('qubovert/sim/_canneal.c', 'qubovert/sim/src/anneal_quso.c', 'qubovert/sim/src/anneal_puso.c',
                'qubovert/sim/src/random.c')
# (list read, list that bounds the loop) -> Python obligation discharging equal lengths
PYLIST_PAIRS = {('py_num_neighbors', 'py_h'): 'O5', ('py_neighbors', 'py_J'): 'O1',
                ('py_num_couplings', 'py_couplings'): 'O1', ('py_initial_state', 'len_state'): 'O4',
                ('py_initial_state', 'py_h'): 'O4'}
LABEL_ARRAYS = {'neighbors', 'terms'}           # hold spin labels 0..len_state-1   (O2)
PREFIX = {'neighbors': 'num_neighbors', 'J': 'num_neighbors', 'terms': 'num_couplings'}


def nsp(t):
    return unparen((t or '').replace(' ', ''))


def isint(t):
    return re.fullmatch(r'-?\d+', t or '') is not None


class Extents:
    def __init__(self, C):
        self.C = C
        self.ext = {n: {} for n in C.funcs}
        self.conflicts = []
        for f in C.funcs.values():
            for a in f.allocs:
                v = a['var']
                key = re.sub(r'\[[^\]]*\]$', '[*]', v) if '[' in v else v
                self.ext[f.name].setdefault(key, [])
                self.ext[f.name][key].append(nsp(a['count']))
        changed, it = True, 0
        while changed and it < 10:
            changed, it = False, it + 1
            for f in C.funcs.values():
                for c in f.calls:
                    cal = C.funcs.get(c['callee'])
                    if cal is None:
                        continue
                    cps = [p for p, t in cal.params]
                    amap = {}
                    for a, p in zip(c['argtxt'], cps):
                        if re.fullmatch(r'[A-Za-z_]\w*', a):
                            amap[a] = p
                    for a, p in zip(c['argtxt'], cps):
                        a0 = a.lstrip('(&').rstrip(')')
                        for key in (a0, a0 + '[*]'):
                            if key in self.ext[f.name]:
                                pk = p + key[len(a0):]
                                es = [self._subst(e, amap) for e in self.ext[f.name][key]]
                                cur = self.ext[cal.name].get(pk)
                                if cur is None:
                                    self.ext[cal.name][pk] = es
                                    changed = True
                                elif sorted(set(cur)) != sorted(set(es)):
                                    self.conflicts.append((cal.name, pk, cur, es, f.name))

    @staticmethod
    def _subst(expr, mapping):
        return re.sub(r'[A-Za-z_]\w*', lambda m: mapping.get(m.group(0), m.group(0)), expr)

    def of(self, fname, base):
        b = nsp(base)
        d = self.ext.get(fname, {})
        if b in d:
            return d[b]
        m = re.fullmatch(r'(\w+)\[(.+)\]', b)
        if m and (m.group(1) + '[*]') in d:
            return d[m.group(1) + '[*]']
        return None


def loop_of(sub, name):
    for l in reversed(sub['loops']):
        if l['var'] == name:
            return l
    return None


def classify(C, X, f, s, obligations):
    """Return (class, ok, message)."""
    base, idx = nsp(s['base']), nsp(s['index'])
    E = X.of(f.name, base)
    if s['index'] == '<deref>':
        return 'deref', False, "pointer arithmetic dereference `%s` is not an accepted idiom (use a subscript)" % base
    if E is None:
        return 'no-extent', False, "no extent known for `%s` (not allocated here and not passed from a caller with an extent)" % base
    Es = sorted(set(E))
    is_row = base.endswith(']')

    def ext_is(t):
        return nsp(t) in Es

    # 1. loop variable
    l = loop_of(s, idx)
    if l is not None:
        if isint(l['lo']) and int(l['lo']) >= 0 and l['op'] == '<' and ext_is(l['hi']):
            return 'a:loop', True, "loop-bounded by the extent %s" % l['hi']
        if is_row and isint(l['lo']) and int(l['lo']) >= 1 and l['op'] == '<=' and nsp(l['hi']) == base + '[0]':
            return 'f:counted-row', True, "row cells 1..count, row allocated with count + 1 cells"
        return 'a?', False, "loop variable %s runs %s..%s%s but the extent of %s is %s" % (idx, l['lo'], l['op'], l['hi'], base, Es)
    # 2. constants
    if isint(idx):
        c = int(idx)
        if is_row:
            ok = all((isint(e) and int(e) > c) or re.fullmatch(r'\w+\+(\d+)', e) and int(re.fullmatch(r'\w+\+(\d+)', e).group(1)) > c for e in Es)
            return 'e:const-row', ok, ("every row has at least %d cells" % (c + 1)) if ok else "row extent %s does not cover cell %d" % (Es, c)
        if all(isint(e) and int(e) > c for e in Es):
            return 'e:const', True, "constant index below the literal extent"
        gs = [nsp(g) for g in s['guards']]
        for e in Es:
            if e in gs or ('%s>0' % e) in gs or ('%s>%d' % (e, c)) in gs or ('%s>=%d' % (e, c + 1)) in gs:
                return 'e:const-guarded', True, "constant index guarded in C by %s" % e
        if (f.name, base, Es[0]) in (('anneal_quso', 'index', 'len_state'),):
            obligations.add('O3')
            return 'e:const-python-guard', True, "constant index; extent len_state >= 1 is guaranteed by the front end (O3)"
        return 'e?', False, ("constant index %d into `%s` of extent %s has no size guard on either side: with a zero extent "
                             "this writes/reads outside the allocation" % (c, base, Es))
    # 3. v - 1
    m = re.fullmatch(r'(\w+)-1', idx)
    if m:
        l = loop_of(s, m.group(1))
        if l is not None and l['op'] == '<' and ext_is(l['hi']) and \
                ((isint(l['lo']) and int(l['lo']) >= 1) or m.group(1) in [nsp(g) for g in s['guards']]):
            return 'a:loop-1', True, "loop variable - 1 with the variable >= 1"
        return 'a?', False, "`%s` is not provably within 0..%s-1" % (idx, Es)
    # 4. affine
    m = re.fullmatch(r'\(?(\w+)\*(\w+)\)?\+(\w+)', idx)
    if m:
        la, lb = loop_of(s, m.group(1)), loop_of(s, m.group(3))
        L = m.group(2)
        if la and lb and la['op'] == '<' and lb['op'] == '<' and nsp(lb['hi']) == L and \
                any(e in ('%s*%s' % (nsp(la['hi']), L), '%s*%s' % (L, nsp(la['hi']))) for e in Es) and \
                isint(la['lo']) and int(la['lo']) >= 0 and isint(lb['lo']) and int(lb['lo']) >= 0:
            return 'b:affine', True, "row-major index within %s" % Es
        return 'b?', False, "`%s` is not a row-major index bounded by the extent %s" % (idx, Es)
    # 5. prefix row  P[s]+j   (s may itself be an expression, e.g. a stored term number)
    m = re.fullmatch(r'(\w+)\[(.+)\]\+(\w+)', idx)
    if m and m.group(2).count('[') == m.group(2).count(']'):
        pa, sv, jv = m.groups()
        lj = loop_of(s, jv)
        num = PREFIX.get(base)
        if lj is not None and num and lj['op'] == '<' and nsp(lj['hi']) == '%s[%s]' % (num, sv) and pa == 'index' \
                and isint(lj['lo']) and int(lj['lo']) >= 0:
            obligations.update({'O1', 'O5'})
            return 'f:prefix-row', True, "row %s of the flattened array: %s[%s] + j, j < %s[%s] (O1, O5)" % (sv, pa, sv, num, sv)
        return 'f?', False, "`%s[%s]` is not the prefix-row idiom index[s] + j with j < %s[s]" % (base, idx, num)
    # 6. index read straight from a label array
    m = re.fullmatch(r'(\w+)\[.+\]', idx)
    if m and m.group(1) in LABEL_ARRAYS:
        if any(e == 'len_state' for e in Es):
            obligations.add('O2')
            return 'f:stored-label', True, "spin label stored in %s (labels < len_state: O2)" % m.group(1)
        return 'f?', False, "a spin label read from %s indexes `%s` whose extent is %s, not len_state" % (m.group(1), base, Es)
    # 6b. index read straight from a subgraph row: a stored term number
    if re.fullmatch(r'subgraphs\[[^\]]+\]\[[^\]]+\]', idx):
        if any(e == 'num_terms' for e in Es):
            return 'f:stored-term', True, "term number stored in a subgraph row (written only from the term loop)"
        return 'f?', False, "a stored term number indexes `%s` whose extent is %s, not num_terms" % (base, Es)
    # 7. identifiers
    if re.fullmatch(r'[A-Za-z_]\w*', idx):
        # offset-of-count
        if is_row and any(e == '%s+1' % idx for e in Es):
            # the most recent (re)allocation of this row must be the k+1 one, in the same block
            al = [a for a in f.allocs if nsp(a['var']) == base and nsp(a['count']) == '%s+1' % idx]
            if al and al[0]['line'] <= s['line']:
                return 'c:offset-of-count', True, "cell k right after realloc to k + 1 cells"
        # parameter used as index
        if idx in [p for p, t in f.params]:
            bad = []
            sites = 0
            for g in C.funcs.values():
                for c in g.calls:
                    if c['callee'] != f.name:
                        continue
                    sites += 1
                    pos = [p for p, t in f.params].index(idx)
                    a = nsp(c['argtxt'][pos])
                    fake = dict(base=s['base'], index=a, loops=c['loops'], guards=c['guards'], line=c['line'], write=False)
                    # evaluate the argument as an index into an array of the caller with the same extent
                    ok = _bounded_value(C, g, a, c, Es_for_caller(X, g, f, c, base))
                    if not ok:
                        bad.append('%s(%s) in %s' % (f.name, a, g.name))
            if sites and not bad:
                return 'd:index-param', True, "index parameter; bounded at all %d call sites" % sites
            return 'd?', False, "index parameter `%s` is not bounded by the extent at: %s" % (idx, bad or 'no call site')
        # local variable: inspect its definitions
        defs = [a for a in f.assigns if a['lhs'] == idx and a['rhs'] is not None and not a.get('forinit')]
        # prefer the definitions in the same innermost loop as the use (the value used is the one just assigned)
        if s['loops']:
            same = [a for a in defs if a['loops'] and a['loops'][-1] is s['loops'][-1] and a['line'] <= s['line']]
            if same:
                defs = same
        incs = [a for a in f.assigns if a['lhs'] == idx and a['op'] in ('++', '+=')]
        if defs:
            kinds = set()
            for a in defs:
                r = strip(a['rhs'])
                rt = nsp(S(a['rhs']))
                if r.get('kind') == 'ConditionalOperator':
                    cnd, x, y = [nsp(S(z)) for z in r['inner']]
                    lx = loop_of(dict(loops=a['loops']), x)
                    mm = re.fullmatch(r'rand_int\(rng,(\w+)\)', y)
                    if lx is not None and lx['op'] == '<' and ext_is(lx['hi']) and mm and ext_is(mm.group(1)):
                        kinds.add('d:bounded-random')
                        continue
                mm = re.fullmatch(r'rand_int\(\(?&?rng\)?,(\w+)\)', rt)
                if mm and ext_is(mm.group(1)):
                    kinds.add('d:bounded-random')
                    continue
                mm = re.fullmatch(r'(\w+)\[.+\]', rt)
                if mm and mm.group(1) in LABEL_ARRAYS and any(e == 'len_state' for e in Es):
                    obligations.add('O2')
                    kinds.add('f:stored-label')
                    continue
                mm = re.fullmatch(r'(\w+)\[\w+\]\[\w+\]', rt)
                if mm and mm.group(1) == 'subgraphs' and any(e == 'num_terms' for e in Es):
                    kinds.add('f:stored-term')
                    continue
                if isint(rt) and int(rt) == 0 and incs and base in ('terms',):
                    kinds.add('f:cursor')
                    continue
                mm = re.fullmatch(r'(\w+)\[\w+\]\[0\]', rt)
                if mm and is_row and any(e == '%s+1' % idx for e in Es):
                    kinds.add('c:offset-of-count')
                    continue
                kinds.add('?' + rt)
            if len(kinds) == 1 and not list(kinds)[0].startswith('?'):
                k = list(kinds)[0]
                if k == 'f:cursor':
                    inner = s['loops'][-1] if s['loops'] else None
                    okc = inner is not None and nsp(inner['hi'] or '').startswith('num_couplings[') and \
                        all(a['loops'] and a['loops'][-1] is inner for a in incs if a['op'] == '++')
                    if okc:
                        obligations.add('O1')
                        return k, True, "running cursor advanced once per inner iteration over num_couplings[term] (O1)"
                    return 'f?', False, "cursor `%s` is not advanced exactly once per inner iteration" % idx
                return k, True, {'d:bounded-random': "index is the loop variable or rand_int(rng, extent)",
                                 'f:stored-label': "spin label read from the problem arrays (O2)",
                                 'f:stored-term': "term number stored in a subgraph row (written only from the term loop)",
                                 'c:offset-of-count': "cell k right after realloc to k + 1"}[k]
            return 'f?', False, "index `%s` is defined by %s, which matches no bounded idiom for extent %s" % (idx, sorted(kinds), Es)
    return '?', False, "subscript `%s[%s]` fits no class (extent %s)" % (base, idx, Es)


def Es_for_caller(X, g, f, c, base):
    """Extent(s), in the caller's vocabulary, of the callee array `base`."""
    cps = [p for p, t in f.params]
    b0 = re.sub(r'\[.*', '', base)
    if b0 in cps:
        a = nsp(c['argtxt'][cps.index(b0)])
        e = X.of(g.name, a)
        return sorted(set(e)) if e else []
    return []


def _bounded_value(C, g, a, c, Es):
    """Is the scalar argument `a` at call site c of function g within 0..E-1?"""
    loops = c['loops']
    for l in reversed(loops):
        if l['var'] == a and l['op'] == '<' and nsp(l['hi']) in Es and isint(l['lo']) and int(l['lo']) >= 0:
            return True
    defs = [x for x in g.assigns if x['lhs'] == a and x['rhs'] is not None]
    if defs:
        for x in defs:
            r = strip(x['rhs'])
            if r.get('kind') == 'ConditionalOperator':
                cnd, p, q = [nsp(S(z)) for z in r['inner']]
                lp = [l for l in x['loops'] if l['var'] == p]
                mm = re.fullmatch(r'rand_int\(rng,(\w+)\)', q)
                if lp and lp[-1]['op'] == '<' and nsp(lp[-1]['hi']) in Es and mm and mm.group(1) in Es:
                    continue
            return False
        return True
    return False


def rules(ctx):
    C = ctx.cprog
    P = ctx.prog
    ctx.rule('M1', "every allocation is count * sizeof(T) with T the pointee type of the receiving pointer", floor=18)
    ctx.rule('M2', "every allocated local is freed exactly once at the exit (rows before the table), never used after, "
                   "never returned; parameters are not freed", floor=18)
    ctx.rule('M3', "extents propagated to pointer parameters agree at all call sites", floor=1)
    ctx.rule('M4', "every subscript is loop-bounded / affine / offset-of-count / bounded-random / guarded constant / a "
                   "recognised data-dependent idiom", floor=80)
    ctx.rule('M5', "heap arrays are fully written before they are read; conditional initialisation is read only under "
                   "the same flag", floor=12)
    ctx.rule('M6', "no writable file-scope state reachable from the entry points", floor=10)
    ctx.rule('M8', "memcpy/memmove/memset sizes are count * sizeof(pointee) within the extent", floor=1)
    ctx.rule('M9', "PyList_GetItem indices are bounded by the size of the same list or by a checked front-end obligation", floor=10)
    ctx.rule('O', "Python front-end obligations O1-O5 behind the data-dependent subscripts", floor=10)

    funcs = [f for f in C.funcs.values() if f.unit in KERNEL_UNITS]
    # ---------------------------------------------------------------- M1
    for f in funcs:
        for a in f.allocs:
            v = a['var']
            decl = f.ptype(re.sub(r'\[.*', '', v)) or ''
            depth = v.count('[')
            pointee = decl
            for _ in range(depth + 1):
                pointee = re.sub(r'\s*\*\s*$', '', pointee, count=1) if pointee.rstrip().endswith('*') else None
                if pointee is None:
                    break
            elem = a['elem']
            m = re.fullmatch(r'sizeof\((.+)\)', elem or '')
            et = nsp(m.group(1)) if m else None
            ok = pointee is not None and et is not None and nsp(pointee) == et
            ctx.inst('M1', (f.unit, f.name), '%s = %s(%s * %s)' % (v, a['fn'], a['count'], elem), ok,
                     "element type %s matches the pointee of `%s %s`" % (et, decl, v) if ok else
                     "`%s` (declared `%s`) is allocated as %s elements of %s: the element size does not match the pointee "
                     "type, so indexing by the count overruns the allocation" % (v, decl, a['count'], elem))
    # ---------------------------------------------------------------- M2
    for f in funcs:
        top = {}
        for a in f.allocs:
            v = a['var']
            if '[' in v:
                continue
            top.setdefault(v, []).append(a)
        pnames = [p for p, t in f.params]
        for fr in f.frees:
            b = re.sub(r'\[.*', '', fr['arg'])
            if b in pnames and b not in top:
                ctx.inst('M2', (f.unit, f.name), 'free(%s)' % fr['arg'], False,
                         "%s frees memory it did not allocate (parameter `%s`): the owner frees it again" % (f.name, b))
        for v, als in top.items():
            allfrees = [x for x in f.frees if x['arg'] == v]

            def on_exit_path(fr):
                # a free inside a conditional block that ends the function (error exit): `if(failed) { free(..); return ..; }`
                gs = [nsp(g) for g in fr['guards']]
                return bool(gs) and not fr['loops'] and any(
                    [nsp(g) for g in r['guards']] == gs and r['line'] >= fr['line'] for r in f.returns)
            exits = [x for x in allfrees if on_exit_path(x)]
            frees = [x for x in allfrees if not on_exit_path(x)]
            ok = len(frees) == 1 and not frees[0]['loops'] and not frees[0]['guards']
            msg = "freed exactly once, unconditionally, at the exit" + (
                " (and once on each of %d early error exits)" % len({tuple(nsp(g) for g in x['guards']) for x in exits}) if exits else '')
            if not frees:
                msg = "`%s` is allocated but never freed: every call leaks it" % v
            elif len(frees) > 1:
                msg = "`%s` is freed %d times (double free)" % (v, len(frees))
            elif not ok:
                msg = "`%s` is freed inside a loop / under a condition" % v
            if ok and exits:
                ctxs = [tuple(nsp(g) for g in x['guards']) for x in exits]
                first_alloc = min(a_['line'] for a_ in als)
                if len(set(ctxs)) != len(ctxs):
                    ok, msg = False, "`%s` is freed twice on one error exit" % v
                elif any(x['line'] < first_alloc for x in exits):
                    ok, msg = False, "`%s` is freed on an error exit before it was allocated (wild pointer)" % v
                elif any(x['line'] > frees[0]['line'] for x in exits):
                    ok, msg = False, "`%s` is freed on an error exit after the regular free (double free)" % v
            if ok:
                fl = frees[0]['line']
                later = [s_ for s_ in f.subs if re.sub(r'\[.*', '', s_['base']) == v and s_['line'] > fl] + \
                        [c for c in f.calls if c['callee'] != 'free' and any(re.sub(r'\[.*', '', nsp(a_)) == v for a_ in c['argtxt']) and c['line'] > fl]
                if later:
                    ok, msg = False, "`%s` is used at line %s after it was freed at line %s" % (v, later[0]['line'], fl)
                for r in f.returns:
                    if r['value'] is not None and re.search(r'\b%s\b' % re.escape(v), S(r['value'])):
                        ok, msg = False, "`%s` is returned although it is freed" % v
            ctx.inst('M2', (f.unit, f.name), 'lifetime of %s' % v, ok, msg)
        rows = {}
        for a in f.allocs:
            if '[' in a['var'] and a['fn'] in ('malloc', 'calloc'):
                rows.setdefault(re.sub(r'\[.*', '', a['var']), []).append(a)
        for tv, als in rows.items():
            rf = [x for x in f.frees if x['arg'].startswith(tv + '[')]
            tf = [x for x in f.frees if x['arg'] == tv]
            ok = len(rf) == 1 and len(rf[0]['loops']) == 1 and als[0]['loops'] and \
                nsp(rf[0]['loops'][0]['hi']) == nsp(als[0]['loops'][-1]['hi']) and \
                nsp(rf[0]['loops'][0]['lo']) == nsp(als[0]['loops'][-1]['lo']) and rf[0]['loops'][0]['op'] == als[0]['loops'][-1]['op'] and bool(tf) and \
                [id(x) for x in f.frees].index(id(rf[0])) < [id(x) for x in f.frees].index(id(tf[0]))      # order of occurrence
            ctx.inst('M2', (f.unit, f.name), 'rows of %s' % tv, ok,
                     "rows freed in a loop over the allocation bound, before the table" if ok else
                     "the rows of `%s` are not freed once each (loop bound %s vs allocation bound %s) before the table itself"
                     % (tv, rf[0]['loops'][0]['hi'] if rf and rf[0]['loops'] else None, als[0]['loops'][-1]['hi'] if als[0]['loops'] else None))

    # ---------------------------------------------------------------- M3
    X = Extents(C)
    for cal, pk, cur, es, frm in X.conflicts:
        ctx.inst('M3', (C.funcs[cal].unit, cal), 'extent of %s' % pk, False,
                 "call sites disagree on the extent of `%s` in %s: %s vs %s (from %s)" % (pk, cal, cur, es, frm))
    ctx.inst('M3', ('qubovert/sim', ''), 'extent propagation', not X.conflicts,
             "extents of %d pointer parameters propagated through the call graph without disagreement"
             % sum(len(v) for v in X.ext.values()), nontrivial=True)

    # ---------------------------------------------------------------- M4
    obligations = set()
    stats = {}
    for f in funcs:
        for s_ in f.subs:
            cls, ok, msg = classify(C, X, f, s_, obligations)
            stats[cls] = stats.get(cls, 0) + 1
            ctx.inst('M4', (f.unit, f.name), '%s[%s] (%s, line-independent)' % (nsp(s_['base']), nsp(s_['index']), 'W' if s_['write'] else 'R'),
                     ok, '%s: %s' % (cls, msg))
    ctx.note("M4 classes: %s; obligations: %s" % (sorted(stats.items()), sorted(obligations)))
    # stored term numbers: rows of subgraphs (cells >= 1) are only written from the loop variable of the term loop
    ap = C.func('anneal_puso')
    for s_ in ap.subs:
        if s_['write'] and re.fullmatch(r'subgraphs\[\w+\]', nsp(s_['base'])) and nsp(s_['index']) != '0':
            asg = [a for a in ap.assigns if nsp(a['lhs']) == '%s[%s]' % (nsp(s_['base']), nsp(s_['index']))]
            ok = bool(asg)
            for a in asg:
                v = nsp(S(a['rhs'])) if a['rhs'] is not None else ''
                lv = [l for l in a['loops'] if l['var'] == v]
                ok = ok and bool(lv) and lv[0]['op'] == '<' and nsp(lv[0]['hi']) == 'num_terms'
            ctx.inst('M4', (ap.unit, 'anneal_puso'), 'values stored in subgraph rows', ok,
                     "rows store only term numbers < num_terms" if ok else
                     "a subgraph row cell is written with something other than the loop variable of the term loop: stored "
                     "term numbers are no longer bounded by num_terms")
    # prefix sums built from the same count array
    for kname, num in (('anneal_quso', 'num_neighbors'), ('anneal_puso', 'num_couplings')):
        k = C.func(kname)
        pre = [a for a in k.assigns if re.fullmatch(r'index\[\w+\]', nsp(a['lhs'])) and a['rhs'] is not None and a['loops']]
        ok = bool(pre)
        for a in pre:
            v = nsp(a['lhs'])[6:-1]
            ok = ok and nsp(S(a['rhs'])) == 'index[%s-1]+%s[%s-1]' % (v, num, v)
        ctx.inst('M4', (k.unit, kname), 'prefix sums of %s' % num, ok,
                 "index[s] = index[s-1] + %s[s-1]: rows of the flattened arrays do not overlap (O5)" % num if ok else
                 "index is not built as the prefix sums of %s, the array that bounds the row loops" % num)

    # ---------------------------------------------------------------- M5
    init_rules(ctx, C, X, funcs)

    # ---------------------------------------------------------------- M6
    reach = set()
    for e in ('c_anneal_quso', 'c_anneal_puso'):
        reach |= C.reachable(e)
    writable = {g for g, info in C.globals.items() if 'const' not in info['type'] and 'docstring' not in g
                and g not in ('_canneal_name', 'CAnnealMethods', 'CAnnealModule')}
    for fname in sorted(reach):
        f = C.funcs.get(fname)
        if f is None:
            continue
        used = f.globals_used & writable
        ctx.inst('M6', (f.unit, fname), 'file-scope state used by %s' % fname, not used,
                 "none" if not used else "%s touches the writable global %s: later calls are affected by earlier ones" % (fname, sorted(used)))
        statics = [n for n, (t, init, ln) in f.locals.items() if t.startswith('static ')]
        if statics:
            ctx.inst('M6', (f.unit, fname), 'static locals of %s' % fname, False, "static local %s keeps state across calls" % statics)

    # ---------------------------------------------------------------- M8
    block_copy_rules(ctx, 'M8', funcs)

    # ---------------------------------------------------------------- M9
    def list_sizes(f):
        sizes = {}
        for a in f.assigns:
            if a['rhs'] is not None:
                m = re.search(r'PyList_Size\((\w+)\)', nsp(S(a['rhs'])))
                if m:
                    sizes[nsp(a['lhs'])] = m.group(1)
        return sizes

    def m9_decide(f, lst, hi, depth=0):
        """(ok, message) for reading items [0, hi) of the list `lst` inside f."""
        src_list = list_sizes(f).get(hi)
        if src_list == lst:
            return True, "bounded by PyList_Size of the same list"
        ob = PYLIST_PAIRS.get((lst, src_list or hi))
        if ob:
            obligations.add(ob)
            return True, "bounded by the size of %s; equal lengths are a front-end obligation (%s)" % (src_list or hi, ob)
        pnames = [p for p, _ in f.params]
        if lst in pnames and hi in pnames and depth < 3:
            # a helper that receives list and bound: decide at every call site with the caller's names
            sites = [(g, c) for g in C.funcs.values() for c in g.calls if c['callee'] == f.name]
            if sites:
                res = []
                for g, c in sites:
                    if len(c['argtxt']) != len(pnames):
                        res.append((False, "call of %s in %s does not bind its parameters" % (f.name, g.name)))
                        continue
                    b = dict(zip(pnames, [nsp(a) for a in c['argtxt']]))
                    ok_, msg_ = m9_decide(g, b[lst], b[hi], depth + 1)
                    res.append((ok_, "%s(%s) in %s: %s" % (f.name, ', '.join(c['argtxt']), g.name, msg_)))
                bad_ = [m_ for ok_, m_ in res if not ok_]
                return (not bad_), (bad_[0] if bad_ else "at every call site: " + res[0][1])
        return False, ("items of `%s` are read up to the size of `%s`; no front-end rule guarantees `%s` is that long "
                       "(PyList_GetItem returns NULL beyond the end)" % (lst, src_list or hi, lst))

    for f in funcs:
        for c in f.calls:
            if c['callee'] != 'PyList_GetItem':
                continue
            lst, idx = nsp(c['argtxt'][0]), nsp(c['argtxt'][1])
            l = [x for x in c['loops'] if x['var'] == idx]
            if not l or l[-1]['op'] != '<' or not (isint(l[-1]['lo']) and int(l[-1]['lo']) >= 0):
                ctx.inst('M9', (f.unit, f.name), 'PyList_GetItem(%s, %s)' % (lst, idx), False,
                         "index `%s` is not a loop variable bounded from 0" % idx)
                continue
            hi = nsp(l[-1]['hi'])
            ok_, msg_ = m9_decide(f, lst, hi)
            ctx.inst('M9', (f.unit, f.name), 'PyList_GetItem(%s, %s)' % (lst, idx), ok_, msg_)

    # ---------------------------------------------------------------- O1 - O5 (Python front end)
    ctx.note("obligations to discharge on the Python side: %s" % sorted(obligations))
    for name in ('anneal_quso', 'anneal_puso'):
        fn = P.func('_anneal.%s' % name)
        C11.marshalling_python(ctx, 'O', fn)
        C11.same_source_rules(ctx, 'O', fn)
    # O2 premise: every label of the enumerated model is < num_binary_variables (mapping in step with the count)
    from .C14 import registration_parity
    registration_parity(ctx, 'O')


# =====================================================================
def block_copy_rules(ctx, rid, funcs):
    """M8: sizes of memcpy / memmove / memset are count * sizeof(pointee)."""
    nmem = 0
    for f in funcs:
        for c in f.calls:
            if c['callee'] in ('memcpy', 'memmove', 'memset'):
                nmem += 1
                size = nsp(c['argtxt'][-1])
                dst = re.sub(r'^\(?&', '', nsp(c['argtxt'][0]))
                dbase = re.sub(r'[\[\+].*', '', dst)
                decl = f.ptype(dbase) or ''
                pt = nsp(re.sub(r'\*\s*$', '', decl))
                m = re.search(r'sizeof\(([^)]+)\)', size)
                ok = bool(m) and nsp(m.group(1)) == pt
                ctx.inst(rid, (f.unit, f.name), '%s(%s)' % (c['callee'], ', '.join(c['argtxt'])), ok,
                         "size carries sizeof(%s)" % pt if ok else
                         "%s size `%s` is not a count times sizeof(%s): only part of the elements is copied / the copy overruns"
                         % (c['callee'], size, pt))
    ctx.inst(rid, ('qubovert/sim', ''), 'block copies', True, "%d memcpy/memset calls checked" % nmem, nontrivial=False)


def init_rules(ctx, C, X, funcs, rid='M5'):
    """M5: fully written before read."""
    summ = {}
    early = {}

    def events(f, v):
        """Ordered events on pointer variable v in f."""
        ev = []
        E = X.of(f.name, v) or []
        for s_ in f.subs:
            if nsp(s_['base']) != v:
                continue
            idx = nsp(s_['index'])
            gs = tuple(nsp(g) for g in s_['guards'])
            if s_['write']:
                l = loop_of(s_, idx)
                full = l is not None and l['op'] == '<' and nsp(l['hi']) in E and isint(l['lo'])
                lo = int(l['lo']) if full else None
                aff = re.fullmatch(r'\(?(\w+)\*(\w+)\)?\+(\w+)', idx)
                if aff:
                    la, lb = loop_of(s_, aff.group(1)), loop_of(s_, aff.group(3))
                    full = bool(la and lb and la['lo'] == '0' and lb['lo'] == '0' and any(
                        e in ('%s*%s' % (nsp(la['hi']), nsp(lb['hi'])), '%s*%s' % (nsp(lb['hi']), nsp(la['hi']))) for e in E))
                    lo = 0 if full else None
                ev.append((s_['line'], 0, 'w', dict(full=full, lo=lo, guards=gs, idx=idx)))
            else:
                ev.append((s_['line'], 1, 'r', dict(guards=gs, idx=idx)))
        for c in f.calls:
            cal = C.funcs.get(c['callee'])
            for pos, a_ in enumerate(c['argtxt']):
                if nsp(a_) == v and cal is not None and pos < len(cal.params):
                    ev.append((c['line'], 2, 'call', dict(callee=cal.name, param=cal.params[pos][0],
                                                          guards=tuple(nsp(g) for g in c['guards']))))
        for r_ in f.returns:
            ev.append((r_['line'], 3, 'ret', dict(guards=tuple(nsp(g) for g in r_['guards']))))
        ev.sort(key=lambda e: (e[0], e[1]))
        return ev

    def scan(f, v, depth):
        """(state at end, reads-before-init list, fully written at end)"""
        inited, rb, wrote0, partial = None, [], False, []
        early[(f.name, v)] = False
        for line, _, kind, d in events(f, v):
            if kind == 'ret':
                # leaving the function before the buffer is completely written: the caller must not take it as written
                if not (inited and inited[0] == 'full'):
                    early[(f.name, v)] = True
                continue
            if kind == 'w':
                if d['idx'] == '0':
                    wrote0 = True
                if d['full']:
                    gs = list(d['guards'])
                    if d['lo'] == 0 and not gs:
                        inited = ('full',)
                    elif d['lo'] == 1 and wrote0 and not gs:
                        inited = ('full',)
                    elif d['lo'] == 0 and gs:
                        g0 = gs[-1]
                        if g0 == d['idx'] and wrote0 and len(gs) == 1:
                            inited = ('full',)      # for(t=0..){ if(t) a[t] = .. } plus a[0] written before
                        else:
                            comp = g0[1:] if g0.startswith('!') else '!' + g0
                            if comp in partial:
                                inited = ('full',)
                            elif inited is None:
                                inited = ('cond', g0)
                            partial.append(g0)
            elif kind == 'r':
                if inited is None or (inited[0] == 'cond' and inited[1] not in d['guards']):
                    rb.append((line, 'read of %s[%s]' % (v, d['idx']), d['guards']))
            elif kind == 'call' and depth < 6:
                k, G, later = summary(d['callee'], d['param'], depth + 1)
                if k == 'R' and (inited is None or inited[0] == 'cond'):
                    rb.append((line, 'passed to %s, which reads it' % d['callee'], d['guards']))
                elif k == 'RG' and not (inited and (inited[0] == 'full' or inited[1] == G)):
                    rb.append((line, 'passed to %s, which reads it under `%s`' % (d['callee'], G), d['guards'] + (G,)))
                if k == 'W' or later:
                    inited = ('full',)
        return inited, rb

    def summary(fname, p, depth=0):
        key = (fname, p)
        if key in summ:
            return summ[key]
        summ[key] = ('R', None, False)      # pessimistic for recursion
        f = C.funcs[fname]
        inited, rb = scan(f, p, depth)
        writes_full = inited is not None and inited[0] == 'full' and not early.get((fname, p))
        if not rb:
            out = ('W' if writes_full else 'N', None, writes_full)
        else:
            gsets = [set(g) for line, what, g in rb]
            common = set.intersection(*gsets) if gsets else set()
            out = ('RG', sorted(common)[0], writes_full) if common else ('R', None, writes_full)
        summ[key] = out
        return out

    for f in funcs:
        seen = set()
        for a in f.allocs:
            v = a['var']
            if '[' in v or v in seen:
                continue
            seen.add(v)
            inited, rb = scan(f, v, 0)
            ok = not rb
            ctx.inst(rid, (f.unit, f.name), 'initialisation of %s' % v, ok,
                     "fully written before every read%s" % (' (conditionally under `%s`, read only under it)' % inited[1]
                                                            if inited and inited[0] == 'cond' else '') if ok else
                     "`%s`: %s at line %s before it has been fully written: uninitialised heap memory is used" % (v, rb[0][1], rb[0][0]))
    # pointer tables: rows allocated over the whole extent before any row access, and cell 0 initialised
    for f in funcs:
        tables = {}
        for a in f.allocs:
            if '[' not in a['var'] and (f.ptype(a['var']) or '').count('*') >= 2:
                tables[a['var']] = a
        for tv, a in tables.items():
            E = [nsp(a['count'])]
            rows = [r for r in f.allocs if re.fullmatch(r'%s\[(\w+)\]' % tv, nsp(r['var'])) and r['fn'] in ('malloc', 'calloc')]
            full = [r for r in rows if r['loops'] and r['loops'][-1]['var'] == nsp(r['var'])[len(tv) + 1:-1]
                    and r['loops'][-1]['op'] == '<' and nsp(r['loops'][-1]['hi']) in E and r['loops'][-1]['lo'] == '0'
                    and not r['guards']]
            ok = bool(full)
            first_use = min([s_['line'] for s_ in f.subs if re.fullmatch(r'%s\[\w+\]' % tv, nsp(s_['base']))] +
                            [c['line'] for c in f.calls if tv in [nsp(x) for x in c['argtxt']] and c['callee'] != 'free'] + [10 ** 9])
            if ok:
                ok = full[0]['line'] <= first_use
            ctx.inst(rid, (f.unit, f.name), 'rows of %s allocated' % tv, ok,
                     "every row is allocated in a loop over the whole table before any row is accessed" if ok else
                     "rows of `%s` are not all allocated (loop over the whole extent %s) before rows are dereferenced: a row "
                     "that was never (re)allocated is a NULL / wild pointer" % (tv, E))
            z = [s_ for s_ in f.subs if s_['write'] and re.fullmatch(r'%s\[\w+\]' % tv, nsp(s_['base'])) and nsp(s_['index']) == '0'
                 and s_['loops'] and nsp(s_['loops'][-1]['hi']) in E and not s_['guards']]
            zc = bool(full) and all(r['fn'] == 'calloc' for r in full)
            ctx.inst(rid, (f.unit, f.name), 'count cell of every row of %s initialised' % tv, bool(z) or zc,
                     "cell 0 (the count) of every row is written in the allocation loop" if z else
                     "every row comes zero-filled from calloc" if zc else
                     "the count cell [0] of the rows of `%s` is not initialised for every row" % tv)


def thorough_extra(ctx):
    """M7: generic analyzers as cross-reference (gating only for UAF / double free / null deref / uninitialised)."""
    repo = ctx.repo
    inc = sysconfig.get_paths().get('include') or ''
    srcs = [str(repo / u) for u in UNITS]
    reports, gating = [], []
    cmds = [
        ['clang', '--analyze', '-Xanalyzer', '-analyzer-output=text',
         '-Xanalyzer', '-analyzer-checker=core,unix,security.insecureAPI.UncheckedReturn,alpha.security.ArrayBoundV2,'
                       'alpha.unix.cstring.OutOfBounds,alpha.core.PointerArithm',
         '-I', str(repo / 'qubovert/sim/src'), '-I', inc, '-o', '/dev/null'],
        ['gcc', '-fanalyzer', '-fsyntax-only', '-Wall', '-Wextra', '-I', str(repo / 'qubovert/sim/src'), '-I', inc],
    ]
    tools = {}
    for cmd in cmds:
        for s_ in srcs:
            try:
                r = subprocess.run(cmd + [s_], capture_output=True, text=True, timeout=300)
            except Exception as e:
                tools[cmd[0]] = 'not run: %s' % e
                continue
            tools[cmd[0]] = 'ran'
            for line in (r.stderr + r.stdout).splitlines():
                if 'warning:' in line:
                    reports.append(line.strip()[-300:])
                    low = line.lower()
                    if any(k in low for k in ('use after free', 'use-after-free', 'double free', 'double-free', 'null pointer',
                                              'dereference of null', 'garbage', 'uninitialized', 'out of bound', 'out-of-bound',
                                              'overflow in')) and 'allocation size' not in low and '/sim/' in line:
                        gating.append(dict(text='generic analyzer: ' + line.strip()[-300:]))
    return dict(summary=dict(tools=tools, reports=len(reports), gating=len(gating), samples=reports[:8]), gating=gating)


def buffers_initialised(ctx, rid):
    """Premise for the result properties: every buffer the wrappers and kernels read (the state rows handed to the
    kernels first of all) is fully written before - M5 and M8 under the caller's rule id."""
    C = ctx.cprog
    funcs = [f for f in C.funcs.values() if f.unit in KERNEL_UNITS]
    X = Extents(C)
    init_rules(ctx, C, X, funcs, rid)
    block_copy_rules(ctx, rid, funcs)
