"""C12 - annealer dynamics.  Rules R12.1 - R12.5 (DESIGN 4.12)."""
import ast
import re

from ..pymodel import AnalysisError, FuncInfo
from ..astutil import (expand_names, canon_src, src, is_name, is_const, call_name, walk_no_nested, strip_docstring, calls_in,
                       assignments_to, enclosing_stmt)
from ..cmodel import S, strip, unparen

EXPLANATION = (
    "Decides the structural clauses of reproducibility and of the Metropolis rule: in the C call "
    "graph from both entry points the clock is read only under seed < 0, only the explicit-state "
    "PCG functions are reachable (no global generator state, no libc generators), the generator is "
    "a local initialised exactly once per call outside the anneal loop; seed (None -> -1) and "
    "in_order travel through matching positions from Python to rand_init / the visiting-order "
    "ternary; the flip is control-dependent on `dE <= 0 || (T > 0 && u < exp(-dE/T))` with every "
    "division by T conjoined with T > 0 and the random draw only inside that conjunct, identically "
    "in both kernels; quso pairs every flip with the cached-dE update of the same spin and reads dE "
    "from the cache, puso recomputes dE from the current state inside the step; the visited index "
    "is in_order ? j : rand_int(rng, len_state); no unordered-set iteration or other entropy in "
    "the Python front end.")
NOT_DECIDED = "the k-step distribution of final states and the exactness of the dE arithmetic (coefficients 2, 4, signs)."
TRUSTED = ["PCG32 reference implementation (pcg_basic.c)", "libm exp/ldexp"]

ENTRY = ['c_anneal_quso', 'c_anneal_puso']
FORBIDDEN = {'rand', 'srand', 'random', 'srandom', 'rand_r', 'drand48', 'erand48', 'lrand48', 'clock', 'getpid',
             'gettimeofday', 'clock_gettime', 'pcg32_random', 'pcg32_boundedrand', 'pcg32_srandom', 'arc4random'}


def find_accept(f):
    """The IfStmt whose then-branch flips state[i]."""
    for i in f.ifs:
        then = i['node']['inner'][1]
        txt = json_text(then)
        if re.search(r'state\[\w+\]\*=', txt):
            return i
    return None


def json_text(n):
    out = []

    def rec(x):
        if isinstance(x, dict):
            k = x.get('kind')
            if k in ('CompoundAssignOperator', 'BinaryOperator', 'CallExpr', 'UnaryOperator'):
                out.append(unparen(S(x)))
            for c in x.get('inner', []) or []:
                rec(c)
    rec(n)
    return ' ; '.join(out)


def _ret_of(block):
    """The returned expression when `block` is `return E;` / `{ return E; }`, else None."""
    b = block
    if b.get('kind') == 'CompoundStmt':
        inner = [x for x in b.get('inner', []) if x.get('kind') != 'NullStmt']
        if len(inner) != 1:
            return None
        b = inner[0]
    if b.get('kind') == 'ReturnStmt' and b.get('inner'):
        return b['inner'][0]
    return None


def _fold_returns(stmts):
    """A predicate written with early returns (`if(c) return 1; if(d) return E; return 0;`) as one boolean
    expression (`c || (d && E)`); None when the body has any other shape."""
    def const(e):
        t = unparen(S(e)).strip()
        return t if t in ('0', '1') else None

    def par(e):
        return dict(kind='ParenExpr', inner=[e])

    def binop(op, a, b):
        return dict(kind='BinaryOperator', opcode=op, inner=[par(a), par(b)])

    def neg(e):
        return dict(kind='UnaryOperator', opcode='!', inner=[par(e)])

    def ite(c, e, f):
        if const(e) == '1':
            return binop('||', c, f) if const(f) != '0' else c
        if const(e) == '0':
            return binop('&&', neg(c), f)
        if const(f) == '0':
            return binop('&&', c, e)
        if const(f) == '1':
            return binop('||', neg(c), e)
        return None

    s0 = stmts[0]
    r = _ret_of(s0)
    if r is not None:
        return r
    if s0.get('kind') == 'IfStmt':
        inner = s0['inner']
        cond, then = inner[0], inner[1]
        e = _ret_of(then)
        if e is None:
            return None
        if len(inner) > 2:
            f = _ret_of(inner[2])
            if f is None:
                f = _fold_returns([inner[2]]) if inner[2].get('kind') == 'IfStmt' else None
        else:
            f = _fold_returns(stmts[1:]) if len(stmts) > 1 else None
        if f is None:
            return None
        return ite(cond, e, f)
    return None


def resolve_cond(C, f, cond, depth=2):
    """Inline a trivial predicate helper call, or rebuild the condition from a flag variable
    (int a = A; if(!a && G) a = B;  ==>  A || (G && B))."""
    c = strip(cond)
    if depth <= 0 or not isinstance(c, dict):
        return cond
    if c.get('kind') == 'CallExpr':
        g = C.funcs.get(S(c['inner'][0]))
        if g is not None:
            stmts = [x for x in g.body.get('inner', []) if x.get('kind') != 'NullStmt']
            if len(stmts) > 1:
                folded = _fold_returns(stmts)
                if folded is not None:
                    stmts = [dict(kind='ReturnStmt', inner=[folded])]
            if len(stmts) == 1 and stmts[0].get('kind') == 'ReturnStmt' and stmts[0].get('inner'):
                amap = dict(zip([p for p, t in g.params], c['inner'][1:]))

                def sub(n):
                    if not isinstance(n, dict):
                        return n
                    n0 = strip(n)
                    if n0.get('kind') == 'DeclRefExpr' and n0['referencedDecl'].get('name') in amap:
                        return dict(kind='ParenExpr', inner=[amap[n0['referencedDecl']['name']]])
                    if not n.get('inner'):
                        return n
                    m = dict(n)
                    m['inner'] = [sub(x) for x in n['inner']]
                    return m
                return resolve_cond(C, f, sub(stmts[0]['inner'][0]), depth - 1)
    if c.get('kind') == 'DeclRefExpr':
        v = c['referencedDecl'].get('name')
        defs = [a for a in f.assigns if a['lhs'] == v and a['rhs'] is not None and a['op'] == '=' and not a.get('forinit')]
        if defs and v in f.locals:
            expr = defs[0]['rhs']
            base_guards = defs[0]['guards']
            for d in defs[1:]:
                extra = [g for g in d['guards'][len(base_guards):]]
                if ('!' + v) not in [g.replace(' ', '') for g in extra]:
                    return cond
                conj = d['rhs']
                others = [g for g in extra if g.replace(' ', '') != '!' + v]
                for gt in reversed(others):
                    if getattr(gt, 'node', None) is None:
                        return cond
                    conj = dict(kind='BinaryOperator', opcode='&&', inner=[gt.as_node(), conj])
                expr = dict(kind='BinaryOperator', opcode='||', inner=[expr, conj])
            return expr
    return cond


def cond_shape(cond):
    """Normalise the acceptance condition to a dict describing its shape."""
    c = strip(cond)
    d = dict(ok=False, why='')
    if not (c.get('kind') == 'BinaryOperator' and c.get('opcode') == '||'):
        d['why'] = "condition `%s` is not a disjunction A || (B && C)" % unparen(S(cond))
        return d
    a, b = [strip(x) for x in c['inner']]
    # deterministic disjunct
    if not (a.get('kind') == 'BinaryOperator' and a.get('opcode') in ('<=', '<') and unparen(S(a['inner'][1])) in ('0', '0.0', '0.')):
        d['why'] = "deterministic disjunct `%s` is not `dE <= 0` (or < 0)" % unparen(S(a))
        return d
    d['energy'] = unparen(S(a['inner'][0]))
    d['det_op'] = a['opcode']
    if not (b.get('kind') == 'BinaryOperator' and b.get('opcode') == '&&'):
        d['why'] = "stochastic disjunct `%s` is not guarded by a conjunction with T > 0" % unparen(S(b))
        return d
    g, r = [strip(x) for x in b['inner']]
    while g.get('kind') == 'UnaryOperator' and g.get('opcode') == '!' and strip(g['inner'][0]).get('kind') == 'UnaryOperator' \
            and strip(g['inner'][0]).get('opcode') == '!':
        g = strip(strip(g['inner'][0])['inner'][0])          # !!x is x in a condition
    if not (g.get('kind') == 'BinaryOperator' and g.get('opcode') == '>' and unparen(S(g['inner'][1])) in ('0', '0.0', '0.')):
        d['why'] = "guard `%s` of the stochastic disjunct is not `T > 0`" % unparen(S(g))
        return d
    d['temp'] = unparen(S(g['inner'][0]))
    rt = unparen(S(r))
    if 'rand_double' not in rt or ('/%s' % d['temp']) not in rt.replace(' ', '') or 'exp(' not in rt:
        d['why'] = "stochastic test `%s` is not u < exp(-dE / T) with a fresh uniform draw" % rt
        return d
    if not (r.get('kind') == 'BinaryOperator' and r.get('opcode') == '<' and 'rand_double' in unparen(S(r['inner'][0]))):
        d['why'] = "stochastic test `%s` does not accept when the draw is BELOW the Boltzmann factor" % rt
        return d
    ex = unparen(S(r['inner'][1]))
    if not re.fullmatch(r'exp\(\(?\(?-%s\)?/%s\)?\)' % (re.escape(d['energy']), re.escape(d['temp'])), ex.replace(' ', '')):
        d['why'] = "Boltzmann factor `%s` is not exp(-dE / T) of the same dE and T" % ex
        return d
    # the random draw must not occur in A or in the guard
    if 'rand_' in unparen(S(a)) or 'rand_' in unparen(S(g)):
        d['why'] = "a random number is drawn outside the T > 0 conjunct"
        return d
    d['ok'] = True
    d['norm'] = '%s %s 0 || (T > 0 && u < exp(-dE/T))' % ('dE', d['det_op'])
    return d


def rules(ctx):
    P, R = ctx.prog, ctx.res
    ctx.rule('R12.8', "no function writes module-level state (memo / registry): results independent of earlier calls", floor=1)
    from .C14 import no_module_state as _nms
    _nms(ctx, 'R12.8')
    C = ctx.cprog
    ctx.rule('R12.7', "the order and the start the kernels see are the caller's: Matrix models keep their own integer labels "
                      "(identity mapping, N = max_index + 1), and the initial states are laid out in the rows the kernels read", floor=8)
    from . import C11
    for name in ('anneal_quso', 'anneal_puso'):
        C11.same_source_rules(ctx, 'R12.7', ctx.prog.func('_anneal.%s' % name))
    C11.layout_agreement(ctx, 'R12.7')
    C11.state_value_set(ctx, 'R12.7')       # each anneal starts from its own row of the supplied states (or a +-1 draw)
    C11.boolean_wrappers(ctx, 'R12.7', 'R12.7', 'R12.7')
    for name in ('anneal_quso', 'anneal_puso'):
        C11.marshalling_python(ctx, 'R12.7', ctx.prog.func('_anneal.%s' % name))
    ctx.rule('R12.1', "entropy sources: clock only under seed < 0; only explicit-state PCG reachable; one local "
                      "generator per call initialised outside the anneal loop; no other entropy", floor=8)
    ctx.rule('R12.2', "seed and in_order forwarding chain Python -> wrapper -> kernel -> rand_init / ternary", floor=10)
    ctx.rule('R12.3', "acceptance condition dE <= 0 || (T > 0 && u < exp(-dE/T)); kernels agree", floor=5)
    ctx.rule('R12.4', "quso: flip paired with cached-dE update, dE read from the cache; puso: dE recomputed in the step", floor=4)
    ctx.rule('R12.5', "visited index is in_order ? j : rand_int(rng, len_state)", floor=2)
    # the generator wrappers: uniform on [0, stop) is the bounded draw of the generator itself (rescaling a double by
    # rounding is not uniform), uniform on [0, 1) is the 32-bit draw scaled by 2**-32
    C_ = ctx.cprog
    for fname_, want_ in (('rand_int', r'pcg32_boundedrand_r\(rng,stop\)'), ('rand_double', r'ldexp\(pcg32_random_r\(rng\),-32\)')):
        try:
            f_ = C_.func(fname_)
        except Exception:
            continue
        rv = [unparen(S(f_.expand(r_['value']))).replace(' ', '') for r_ in f_.returns if r_['value'] is not None]
        # a draw given a name first (`bits = pcg32_random_r(rng); return ldexp(bits, -32)`): one declaration, one use
        for nm_, (ty_, init_, ln_) in f_.locals.items():
            if init_ is not None and len(rv) == 1 and len(re.findall(r'\b%s\b' % re.escape(nm_), rv[0])) == 1 \
                    and sum(1 for a_ in f_.assigns if a_['lhs'] == nm_) == 1:
                rv = [re.sub(r'\b%s\b' % re.escape(nm_), unparen(S(init_)).replace(' ', ''), rv[0])]
        okg = len(rv) == 1 and re.fullmatch(want_, rv[0]) is not None and not f_.fors
        ctx.inst('R12.5', (f_.unit, fname_), 'return of %s' % fname_, okg,
                 "%s returns the generator's own %s draw" % (fname_, 'bounded' if fname_ == 'rand_int' else 'scaled 32-bit') if okg else
                 "%s returns `%s`, not the generator's own draw (%s): the proposal / acceptance distribution is no longer uniform"
                 % (fname_, rv[:1], want_.replace('\\', '')))
    ctx.rule('R12.6', "user-specified temperatures are never altered: only an automatically computed (0, 0) range is "
                      "replaced, an explicit schedule is used as given", floor=2)

    # ---------------------------------------------------------------- R12.1
    reach = set()
    for e in ENTRY:
        C.func(e)
        reach |= C.reachable(e)
    for name in sorted(reach & FORBIDDEN):
        ctx.inst('R12.1', ('qubovert/sim', name), 'call of %s' % name, False,
                 "%s() is reachable from the annealing entry points: results depend on hidden / global generator state" % name)
    ctx.inst('R12.1', ('qubovert/sim', ''), 'forbidden entropy sources', not (reach & FORBIDDEN),
             "none of %d forbidden generators reachable (%d functions reachable)" % (len(FORBIDDEN), len(reach)), nontrivial=False)
    writable = {g for g, info in C.globals.items() if 'const' not in info['type'] and not g.endswith('docstring')
                and g not in ('_canneal_name', '_canneal_docstring', 'CAnnealMethods', 'CAnnealModule')}
    for fname in sorted(reach):
        f = C.funcs.get(fname)
        if f is None:
            continue
        used = f.globals_used & writable
        ctx.inst('R12.1', (f.unit, fname), 'globals used by %s' % fname, not used,
                 "no writable file-scope state" if not used else
                 "%s uses the writable global %s: calls influence each other" % (fname, sorted(used)))
        for c in f.calls:
            if c['callee'] == 'time':
                ok = any(re.fullmatch(r'seed<0|0>seed', g.replace(' ', '')) for g in c['guards'])
                ctx.inst('R12.1', (f.unit, fname), 'time() in %s' % fname, ok,
                         "clock read only under seed < 0" if ok else
                         "the clock is read under guards %s, not only when seed < 0: a fixed seed no longer fixes the run" % c['guards'])
    for k in ('anneal_quso', 'anneal_puso'):
        f = C.func(k)
        inits = [c for c in f.calls if c['callee'] in ('rand_init', 'rand_seed')]
        ok = len(inits) == 1 and not inits[0]['loops'] and inits[0]['argtxt'][-1] == 'seed'
        ctx.inst('R12.1', (f.unit, k), 'generator initialisation in %s' % k, ok,
                 "one local generator seeded once per call, outside the anneal loop" if ok else
                 "the generator is initialised %d times / inside a loop / not from `seed` in %s: anneals of one call repeat "
                 "the same stream or the seed is ignored" % (len(inits), k))
        rng_local = [n for n, (t, init, ln) in f.locals.items() if 'pcg32_random_t' in t or t == 'rng_t']
        ctx.inst('R12.1', (f.unit, k), 'generator is a local of %s' % k, len(rng_local) == 1,
                 "generator state lives in a local" if len(rng_local) == 1 else "generator state is not a single local variable")
    # rand_seed branches
    rs = C.func('rand_seed')
    seeded = [c for c in rs.calls if c['callee'] == 'pcg32_srandom_r']
    ok = any(any(g.replace(' ', '') in ('seed>=0', '!seed<0', '0<=seed') for g in c['guards']) and 'seed' in c['argtxt'][1] and 'time' not in ''.join(c['argtxt'])
             and 'rng' not in c['argtxt'][2] for c in seeded)
    ctx.inst('R12.1', (rs.unit, 'rand_seed'), 'seeded branch', ok,
             "with seed >= 0 the state and stream depend only on the seed" if ok else
             "for seed >= 0 the generator is not initialised from the seed and a constant stream alone")
    # python side: no random / numpy.random, sets only into order-insensitive reducers
    for modname in ('qubovert.sim._anneal', 'qubovert.sim._anneal_temperature_range', 'qubovert.sim._anneal_results'):
        m = P.modules[modname]
        bad = []
        for n in ast.walk(m.tree):
            if isinstance(n, (ast.Import, ast.ImportFrom)):
                names = [a.name for a in n.names] + ([n.module] if isinstance(n, ast.ImportFrom) and n.module else [])
                if any(x in ('random', 'secrets', 'time', 'os') or x.startswith('numpy.random') for x in names):
                    bad.append(src(n))
            if isinstance(n, ast.Attribute) and n.attr == 'random' and src(n.value) in ('np', 'numpy'):
                bad.append(src(n))
        ctx.inst('R12.1', (m.relpath, ''), 'entropy imports in %s' % m.relpath, not bad,
                 "no random / time / os entropy in the front end" if not bad else "front end uses %s" % bad)
    tr = P.func('_anneal_temperature_range.anneal_temperature_range')
    for n in ast.walk(tr.node):
        if isinstance(n, (ast.For, ast.comprehension)) and is_name(n.iter, 'variables'):
            # must be inside an order-insensitive reducer
            p_ = getattr(n, '_parent', None)
            red = None
            while p_ is not None:
                if isinstance(p_, ast.Call) and is_name(p_.func, 'max', 'min', 'any', 'all', 'len', 'sum', 'set', 'sorted'):
                    red = p_.func.id
                    break
                p_ = getattr(p_, '_parent', None)
            ctx.inst('R12.1', tr, 'iteration over the variable set', red is not None,
                     "set consumed by the order-insensitive reducer %s()" % red if red else
                     "the unordered variable set is iterated outside an order-insensitive reducer: the schedule depends "
                     "on hash order")

    # ---------------------------------------------------------------- R12.2
    for pyname, wname, kname, sname in (('anneal_quso', 'c_anneal_quso', 'anneal_quso', 'single_anneal_quso'),
                                        ('anneal_puso', 'c_anneal_puso', 'anneal_puso', 'single_anneal_puso')):
        fn = P.func('_anneal.%s' % pyname)
        call = [c for c in calls_in(fn.node) if is_name(c.func, wname)][0]
        last = expand_names(fn.node, call.args[-1])
        ok = canon_src(last) == '-1 if seed is None else seed'
        ctx.inst('R12.2', fn, last, ok, "seed (None -> -1) is the last argument" if ok else
                 "the last argument of %s is `%s`, not `seed if seed is not None else -1`" % (wname, src(last)))
        io = call.args[-3]
        ok = src(io) == 'int(in_order)'
        ctx.inst('R12.2', fn, io, ok, "int(in_order) in the in_order slot" if ok else
                 "the in_order slot receives `%s`" % src(io))
        w = C.func(wname)
        parse = [c for c in w.calls if c['callee'] == 'PyArg_ParseTuple'][0]
        tg = [re.sub(r'^\(?&', '', t).rstrip(')') for t in parse['argtxt'][2:]]
        ok = tg[-1] == 'seed' and tg[-3] == 'in_order'
        ctx.inst('R12.2', (w.unit, wname), 'parse targets of %s' % wname, ok,
                 "seed parsed last, in_order third from last" if ok else "parse targets %s: seed / in_order slots moved" % tg)
        kc = [c for c in w.calls if c['callee'] == kname]
        k = C.func(kname)
        kparams = [p for p, t in k.params]
        ok = len(kc) == 1 and len(kc[0]['argtxt']) == len(kparams) and \
            kc[0]['argtxt'][kparams.index('seed')] == 'seed' and kc[0]['argtxt'][kparams.index('in_order')] == 'in_order'
        ctx.inst('R12.2', (w.unit, wname), 'call of %s' % kname, ok,
                 "seed and in_order passed to their namesakes of the kernel" if ok else
                 "seed / in_order are not passed to the kernel parameters of the same name")
        sc = [c for c in k.calls if c['callee'] == sname]
        s_ = C.func(sname)
        sparams = [p for p, t in s_.params]
        ok = len(sc) == 1 and sc[0]['argtxt'][sparams.index('in_order')] == 'in_order' and \
            sc[0]['argtxt'][sparams.index('rng')] in ('&rng', '(&rng)')
        ctx.inst('R12.2', (k.unit, kname), 'call of %s' % sname, ok,
                 "in_order and &rng passed to the sweep" if ok else "in_order / the generator are not passed to the sweep")
        # all parameters passed by same name (A12 in C): every argument that is a bare identifier equal to a callee
        # parameter name must be in that parameter's position
        for caller, callee, cc in ((w, k, kc), (k, s_, sc)):
            for c in cc:
                cps = [p for p, t in callee.params]
                for pos, a in enumerate(c['argtxt']):
                    if a in cps and pos < len(cps):
                        okp = cps[pos] == a
                        ctx.inst('R12.2', (caller.unit, caller.name), '%s -> %s.%s' % (a, callee.name, cps[pos]), okp,
                                 "bound to its namesake" if okp else
                                 "`%s` is passed in the position of parameter `%s` of %s" % (a, cps[pos], callee.name))

    schedule_rules(ctx, 'R12.6')
    from .C11 import energy_loops
    energy_loops(ctx, 'R12.4')       # the cached / recomputed dE visits every neighbour / term

    # ---------------------------------------------------------------- R12.3 / R12.4 / R12.5
    norms = {}
    for sname in ('single_anneal_quso', 'single_anneal_puso'):
        f = C.func(sname)
        acc = find_accept(f)
        if acc is None:
            ctx.inst('R12.3', (f.unit, sname), 'acceptance test', False, "no `if (...) state[i] *= -1` found: flips are unconditional or missing")
            continue
        rc = resolve_cond(C, f, acc['cond'])
        d = cond_shape(rc)
        ctx.inst('R12.3', (f.unit, sname), 'if(%s)' % unparen(S(rc)), d['ok'],
                 "accepts iff dE %s 0 or (T > 0 and u < exp(-dE/T))" % d.get('det_op') if d['ok'] else d['why'])
        norms[sname] = d.get('norm')
        # every division by T anywhere in the function is under T > 0
        temp = d.get('temp', 'T')
        for c in f.calls:
            if c['callee'] == 'exp':
                okg = any(g.replace(' ', '') in ('%s>0' % temp, '%s>0.' % temp, '%s>0.0' % temp) for g in c['guards'])
                ctx.inst('R12.3', (f.unit, sname), 'exp(...) guarded', okg,
                         "Boltzmann factor evaluated only under T > 0" if okg else
                         "exp(-dE/T) is evaluated under guards %s, not under T > 0: division by a zero temperature" % c['guards'])
        # every visit reaches the acceptance test: it is not nested under another condition and the sweep
        # loops contain no continue / break / goto
        ok = not acc['guards'] and not f.jumps
        ctx.inst('R12.3', (f.unit, sname), 'every visited spin is tested', ok,
                 "the acceptance test is reached on every iteration of the sweep" if ok else
                 "the acceptance test is skipped for some spins (nested under %s / %d jump statements in the sweep): a "
                 "spin whose dE <= 0 is not flipped, which is not the Metropolis rule" % (acc['guards'], len(f.jumps)))
        # flip inside the accepted branch, at depth of two loops (sweeps x spins)
        ok = len(acc['loops']) == 2
        ctx.inst('R12.3', (f.unit, sname), 'acceptance inside the sweep loops', ok,
                 "one acceptance test per spin per temperature" if ok else "acceptance test is not inside the (temperature, spin) loops")
        # R12.5 visiting order
        vis = [a for a in f.assigns if a['rhs'] is not None and strip(a['rhs']).get('kind') == 'ConditionalOperator'
               and 'rand_int' in S(a['rhs'])]
        okv = False
        for a in vis:
            cnd, x, y = [unparen(S(z)) for z in strip(a['rhs'])['inner']]
            inner = acc['loops'][-1]['var'] if acc['loops'] else None
            okv = cnd == 'in_order' and x == inner and re.fullmatch(r'rand_int\(rng,len_state\)', y) is not None and \
                acc['loops'][-1]['hi'] == 'len_state'
            ctx.inst('R12.5', (f.unit, sname), '%s = %s' % (a['lhs'], unparen(S(a['rhs']))), okv,
                     "in order: the loop index; otherwise a uniform index below len_state" if okv else
                     "visited index `%s` is not `in_order ? <loop index> : rand_int(rng, len_state)`" % unparen(S(a['rhs'])))
            idx = a['lhs']
        if not vis:
            ctx.inst('R12.5', (f.unit, sname), 'visited index', False, "no in_order / random selection of the visited spin")
            idx = None
        then_txt = json_text(acc['node']['inner'][1])
        if sname.endswith('quso'):
            rec = re.search(r'recompute_flip_dE\((\w+),', then_txt)
            flip = re.search(r'state\[(\w+)\]\*=\(?-1', then_txt)
            ok = bool(rec) and bool(flip) and rec.group(1) == flip.group(1) == idx
            # ... under exactly the guards of the flip (a recompute that is skipped for some spins - no neighbours, say - leaves
            # that spin's own cached dE with the wrong sign)
            rc_ = [c_ for c_ in f.calls if c_['callee'] == 'recompute_flip_dE']
            fl_ = [a_ for a_ in f.assigns if re.fullmatch(r'state\[\w+\]', a_['lhs']) and a_['op'] == '*=']
            if ok and rc_ and fl_:
                ok = all([str(g_) for g_ in c_['guards']] == [str(g_) for g_ in fl_[0]['guards']] for c_ in rc_)
            ctx.inst('R12.4', (f.unit, sname), 'flip <=> cache update', ok,
                     "the accepted flip of spin %s updates the cached dE of the same spin" % idx if ok else
                     "the accepted branch does not both flip state[%s] and recompute the cached dE for %s" % (idx, idx))
            dread = [a for a in f.assigns if a['lhs'] == d.get('energy') and a['rhs'] is not None]
            ok = bool(dread) and all(unparen(S(a['rhs'])) == 'flip_spin_dE[%s]' % idx and len(a['loops']) == 2 for a in dread)
            if not dread and (d.get('energy') or '').replace(' ', '') == 'flip_spin_dE[%s]' % idx:
                ok = True       # the acceptance test reads the cache entry directly
            ctx.inst('R12.4', (f.unit, sname), 'dE read from the cache', ok,
                     "dE is the cached value of the visited spin" if ok else "dE is not read from flip_spin_dE[%s] in the step" % idx)
            init = [c for c in f.calls if c['callee'] == 'compute_flip_dE' and not c['loops']]
            ctx.inst('R12.4', (f.unit, sname), 'cache initialised', len(init) == 1,
                     "cache computed once before the sweeps" if len(init) == 1 else "cached dE is not initialised once before the sweeps")
            rf = C.func('recompute_flip_dE')
            own = [a for a in rf.assigns if a['lhs'] == 'flip_spin_dE[spin]' and a['op'] == '*=']
            nb = [a for a in rf.assigns if re.fullmatch(r'flip_spin_dE\[\w+\]', a['lhs']) and a['op'] == '+=' and a['loops']]
            ok = len(own) == 1 and len(nb) == 1 and nb[0]['loops'][0]['hi'] == 'num_neighbors[spin]'
            ctx.inst('R12.4', (rf.unit, 'recompute_flip_dE'), 'own sign flip + every neighbour updated', ok,
                     "flipped spin's dE negated, each of its num_neighbors[spin] neighbours updated" if ok else
                     "recompute_flip_dE does not negate the flipped spin's dE and update each neighbour")
        else:
            dset = [a for a in f.assigns if a['lhs'] == d.get('energy') and a['rhs'] is not None]
            ok = bool(dset) and all('puso_subgraph_value(state,%s' % idx in unparen(S(a['rhs'])).replace(' ', '') and len(a['loops']) == 2
                                    for a in dset)
            ctx.inst('R12.4', (f.unit, sname), 'dE recomputed in the step', ok,
                     "dE recomputed from the current state for the visited spin" if ok else
                     "dE of the step is not recomputed from puso_subgraph_value(state, %s, ...)" % idx)
            flip = re.search(r'state\[(\w+)\]\*=\(?-1', then_txt)
            ok = bool(flip) and flip.group(1) == idx
            ctx.inst('R12.4', (f.unit, sname), 'flip of the visited spin', ok, "flips the visited spin" if ok else
                     "the flipped spin is not the visited spin")
    if len(norms) == 2:
        a, b = norms.get('single_anneal_quso'), norms.get('single_anneal_puso')
        ctx.inst('R12.3', ('qubovert/sim/src', ''), 'kernels agree on the acceptance rule', a == b and a is not None,
                 "both kernels: %s" % a if a == b else "quso accepts on `%s`, puso on `%s`" % (a, b))


_CONSUMERS = {'list', 'tuple', 'any', 'all', 'sum', 'min', 'max', 'sorted', 'set', 'frozenset', 'dict', 'enumerate', 'zip',
              'map', 'filter', 'iter', 'next', 'reversed'}


def single_consumption(ctx, rid, fn, param):
    """An iterable argument that may be a one-shot iterator (generator, map, iter(...)) is consumed at most once on every
    path, unless it is first rebound to a materialised copy (`p = list(p)`)."""
    from ..cfg import cfg_of, ENTRY, EXIT
    g = cfg_of(fn.node)

    def events(node):
        """(consumptions of param, materialised rebinding?) of one CFG node (own expressions only)."""
        exprs = []
        if isinstance(node, ast.For):
            exprs = [node.iter]
            own_iter = is_name_(node.iter, param)
        else:
            own_iter = False
        if isinstance(node, (ast.If, ast.While)):
            exprs = [node.test]
        elif isinstance(node, ast.stmt) and not isinstance(node, (ast.For, ast.FunctionDef, ast.ClassDef, ast.Try, ast.With)):
            exprs = [node]
        n = 1 if own_iter else 0
        for e in exprs:
            for x in ast.walk(e):
                if isinstance(x, ast.Call):
                    nm = x.func.id if isinstance(x.func, ast.Name) else None
                    for a in list(x.args) + [k.value for k in x.keywords]:
                        a0 = a.value if isinstance(a, ast.Starred) else a
                        if is_name_(a0, param) and nm not in ('isinstance', 'type', 'callable', 'id', 'hasattr', 'repr', 'str'):
                            n += 1
                elif isinstance(x, ast.comprehension) and is_name_(x.iter, param):
                    n += 1
                elif isinstance(x, ast.Compare) and any(isinstance(o, (ast.In, ast.NotIn)) for o in x.ops) \
                        and any(is_name_(c, param) for c in x.comparators):
                    n += 1
        mat = isinstance(node, ast.Assign) and len(node.targets) == 1 and is_name_(node.targets[0], param) and \
            isinstance(node.value, ast.Call) and isinstance(node.value.func, ast.Name) and \
            node.value.func.id in ('list', 'tuple') and len(node.value.args) == 1 and is_name_(node.value.args[0], param)
        return n, mat

    def is_name_(e, nm):
        return isinstance(e, ast.Name) and e.id == nm
    worst, where = 0, None
    for path in g.paths(ENTRY, (EXIT,), limit=4000):
        cnt = 0
        for node, lab in path:
            if isinstance(node, str):
                continue
            n, mat = events(node)
            if mat:
                cnt = 0 if cnt == 0 else cnt + 1     # materialising after a consumption is too late
                if cnt == 0:
                    break
                continue
            cnt += n
            if cnt > worst:
                worst, where = cnt, node
    ok = worst <= 1
    ctx.inst(rid, fn, where if (where is not None and not ok) else 'uses of %s in %s' % (param, fn.name), ok,
             "`%s` is consumed at most once on every path" % param if ok else
             "`%s` is iterated %d times on one path: a schedule given as a generator / iterator is exhausted by the first pass, "
             "the anneal then runs with an empty schedule" % (param, worst))


def schedule_rules(ctx, rid):
    P = ctx.prog
    from ..cfg import cfg_of
    from ..astutil import compare_atoms
    single_consumption(ctx, rid, P.func('_anneal._create_spin_schedule'), 'schedule')
    for nm in ('anneal_quso', 'anneal_puso', 'anneal_qubo', 'anneal_pubo'):
        single_consumption(ctx, rid, P.func('_anneal.%s' % nm), 'schedule')
    fn = P.func('_anneal._create_spin_schedule')
    g = cfg_of(fn.node)
    tr = 'temperature_range'
    # explicit schedule returned unchanged
    rets = [n for n in g.stmts() if isinstance(n, ast.Return)]
    first = [r for r in rets if src(r.value) in ('list(schedule)', 'schedule')]
    okx = False
    for r in first:
        facts = []
        for t, pol, o in g.edge_dominators(r):
            facts += compare_atoms(t, pol)
        okx = ('falsy', 'isinstance(schedule, str)') in facts
    ctx.inst(rid, fn, first[0] if first else 'explicit schedule', okx,
             "an explicit schedule is returned as given" if okx else
             "an explicit (non-string) schedule is not returned unchanged as list(schedule)")
    # any assignment overriding T0 / Tf after they were read must be under `temperature_range is None`
    t_names = None
    ATR = 'anneal_temperature_range'

    def tr_test(t, want_given):
        """`t` is true exactly when temperature_range was given (want_given) / was not given"""
        at = compare_atoms(t, True)
        if want_given:
            return ('truthy', tr) in at or (tr, 'is not', 'None') in at
        return ('falsy', tr) in at or (tr, 'is', 'None') in at
    arms = {}          # target names -> {'given': stmt, 'auto': stmt}
    defining = set()
    for n in g.stmts():
        if not (isinstance(n, ast.Assign) and isinstance(n.targets[0], ast.Tuple) and len(n.targets[0].elts) == 2):
            continue
        v, vs = n.value, src(n.value)
        has_tr = any(isinstance(x, ast.Name) and x.id == tr for x in ast.walk(v))
        if not has_tr and ATR not in vs:
            continue
        names = tuple(src(e) for e in n.targets[0].elts)
        is_atr = isinstance(v, ast.Call) and call_name(v) == ATR
        if has_tr and ATR in vs:
            t_names = list(names)
            defining.add(n)
            okv = isinstance(v, ast.BoolOp) and isinstance(v.op, ast.Or) and len(v.values) == 2 and src(v.values[0]) == tr
            if isinstance(v, ast.IfExp):
                okv = (tr_test(v.test, True) and src(v.body) == tr and isinstance(v.orelse, ast.Call) and call_name(v.orelse) == ATR) or \
                      (tr_test(v.test, False) and src(v.orelse) == tr and isinstance(v.body, ast.Call) and call_name(v.body) == ATR)
            ctx.inst(rid, fn, n, okv, "a given temperature range takes precedence over the computed one" if okv else
                     "the temperatures are not `temperature_range or anneal_temperature_range(...)`")
        elif vs == tr or is_atr:
            facts = []
            for t, pol, o in g.edge_dominators(n):
                facts += compare_atoms(t, pol)
            given = ('truthy', tr) in facts or (tr, 'is not', 'None') in facts
            absent = ('falsy', tr) in facts or (tr, 'is', 'None') in facts
            if vs == tr and given:
                arms.setdefault(names, {})['given'] = n
                defining.add(n)
            elif is_atr and absent:
                arms.setdefault(names, {})['auto'] = n
                defining.add(n)
            elif is_atr:
                defining.add(n)
                ctx.inst(rid, fn, n, False, "the temperatures are computed automatically also when temperature_range is given: "
                                            "the temperatures are not `temperature_range or anneal_temperature_range(...)`")
    for names, d in arms.items():
        okv = 'given' in d and 'auto' in d
        t_names = t_names or list(names)
        ctx.inst(rid, fn, d.get('given') or d.get('auto'), okv,
                 "a given temperature range takes precedence over the computed one (two arms)" if okv else
                 "the temperatures are not `temperature_range or anneal_temperature_range(...)`: only one arm of the choice assigns them")
    if not t_names:
        ctx.inst(rid, fn, 'T0, Tf', False, "temperature pair not found")
        return
    for n in g.stmts():
        if isinstance(n, ast.Assign) and any(src(t) in t_names for tt in n.targets for t in ([tt] if not isinstance(tt, ast.Tuple) else tt.elts)) \
                and 'anneal_temperature_range' not in src(n.value) and n not in defining:
            facts = []
            for t, pol, o in g.edge_dominators(n):
                facts += compare_atoms(t, pol)
            ok = (tr, 'is', 'None') in facts
            ctx.inst(rid, fn, n, ok,
                     "temperatures are replaced only when they were computed automatically" if ok else
                     "`%s` replaces the temperatures also when the user supplied temperature_range: a requested "
                     "zero-temperature run is annealed at another temperature" % src(n))
