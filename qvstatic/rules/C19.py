"""C19 - copies, info round trip, no aliasing.  Rules R19.1 - R19.5."""
import ast

from ..pymodel import AnalysisError, FuncInfo, parent
from ..astutil import (src, is_name, is_const, call_name, walk_no_nested, strip_docstring,
                       compare_atoms, enclosing_stmt, calls_in, names_in, assignments_to, kwarg)
from ..cfg import cfg_of, ENTRY, EXIT
from ..effects import Effects, root
from . import C02

EXPLANATION = (
    "Interprocedural effect analysis over the whole package: no exported function and no "
    "non-mutator method mutates an argument or its receiver (frozen exemptions with reasons; "
    "private out-parameter helpers only receive self-of-a-mutator or fresh objects); the getters "
    "mapping / reverse_mapping / variables / constraints return fresh objects (constraints at both "
    "container levels and with copied polynomials); copy() and the PCBO/PCSO copy constructor "
    "copy through the class / the copying getter; constraint polynomials enter a model's record "
    "only as fresh copies; get_info and create_from_info agree on their key tables, reflection "
    "targets exist, constraints are re-added with lam=0 after the counter was restored, and no "
    "field is restored under a truthiness guard that would drop a legitimate falsy value.")
NOT_DECIDED = "equality of the reproduced terms (dict copy semantics trusted); behaviour of user subclasses."
TRUSTED = ["dict / list / set copy semantics of CPython"]

MUTATORS = {'__init__', '__new__', '__setitem__', '__delitem__', 'update', 'clear', 'refresh', 'normalize',
            'simplify', 'set_mapping', 'set_reverse_mapping', 'name', '_append_constraint',
            '_pop_constraint', '_next_ancilla', '__iadd__', '__isub__', '__imul__', '__ipow__',
            '__itruediv__', '__ifloordiv__',
            'append', 'extend', 'insert', 'remove', 'pop', 'add_state'}
# (function qual, parameter) -> reason
EXEMPT = {
    ('_solve_bruteforce._solve_bruteforce', 'D'): "offset popped and re-inserted on every path (paired; decided by R09.5)",
    ('_solve_bruteforce.solve_pubo_bruteforce', 'P'): "wrapper of _solve_bruteforce (R09.5)",
    ('_solve_bruteforce.solve_qubo_bruteforce', 'Q'): "wrapper of _solve_bruteforce (R09.5)",
    ('_solve_bruteforce.solve_puso_bruteforce', 'H'): "wrapper of _solve_bruteforce (R09.5)",
    ('_solve_bruteforce.solve_quso_bruteforce', 'L'): "wrapper of _solve_bruteforce (R09.5)",
    ('PUBOMatrix.solve_bruteforce', 'self'): "passes self to the paired pop/re-insert of _solve_bruteforce (R09.5)",
    ('PUSOMatrix.solve_bruteforce', 'self'): "as above",
    ('QUBOMatrix.solve_bruteforce', 'self'): "as above",
    ('QUSOMatrix.solve_bruteforce', 'self'): "as above",
    ('_binary_helpers.sum', 'start'): "accumulates in place by design (documented); not a constraint method, "
                                      "conversion, solver or annealer",
}
# private helpers: the out-parameter is identified by position (their parameter names are free to change)
OUT_PARAM_POS = {'_pcbo._special_constraints_eq_zero': 0, '_pcbo._special_constraints_le_zero': 0,
                 'PUBO._reduce_degree': 1}
OUT_PARAM_HELPERS = {}
EXEMPT_POS = {'_solve_bruteforce._solve_bruteforce': 0}


def _resolve_tables(P):
    # a module-level function that was moved to another module keeps its entry (Program.func finds it by name)
    for (q, prm) in list(EXEMPT):
        if q not in P.functions and '.' in q and q.split('.')[0] not in P.classes and P.has_func(q):
            EXEMPT[(P.func(q).qual, prm)] = EXEMPT[(q, prm)]
    OUT_PARAM_HELPERS.clear()
    for q, i in OUT_PARAM_POS.items():
        if P.has_func(q) and len(P.func(q).all_params) > i:
            OUT_PARAM_HELPERS[q] = P.func(q).all_params[i]
    for q, i in EXEMPT_POS.items():
        if P.has_func(q) and len(P.func(q).all_params) > i:
            f_ = P.func(q)
            old = [k for k in EXEMPT if k[0] in (q, f_.qual)]
            for k in old:
                EXEMPT[(f_.qual, f_.all_params[i])] = EXEMPT[k]
GETTERS = [('BO', 'mapping', '_mapping'), ('BO', 'reverse_mapping', '_reverse_mapping'),
           ('PUBOMatrix', 'variables', '_variables')]


def _public(P, fn):
    if fn.outer is not None:
        return False
    if fn.cls:
        return True
    return True


def offset_pairing(ctx, rid):
    """R09.5: in _solve_bruteforce the only mutation of the argument is
    pop(K) whose value is stored back under the same K on every path to exit."""
    P, R = ctx.prog, ctx.res
    fn = P.func('_solve_bruteforce._solve_bruteforce')
    D = fn.params[0]
    g = cfg_of(fn.node)
    E = Effects(P, R)
    fe = E.effects(fn)
    pops, stores, other = [], [], []
    for n, os_, how in fe.mutations:
        if 'param:' + D not in {root(o) for o in os_}:
            continue
        st = n if isinstance(n, ast.stmt) else enclosing_stmt(n)
        if isinstance(n, ast.Call) and call_name(n) == 'pop' and is_name(n.func.value, D):
            pops.append((st, n))
        elif isinstance(n, ast.Assign) and isinstance(n.targets[0], ast.Subscript) and is_name(n.targets[0].value, D):
            stores.append(n)
        else:
            other.append((n, how))
    for n, how in other:
        ctx.inst(rid, fn, enclosing_stmt(n) or n, False, "the model passed to the solver is mutated: %s" % how)
    for st, c in pops:
        key = src(c.args[0]) if c.args else '?'
        var = src(st.targets[0]) if isinstance(st, ast.Assign) else None
        good = [s for s in stores if src(s.targets[0].slice) == key and var and src(s.value) == var]
        ok = bool(good) and g.must_pass_to_exit(st, set(good), exits=(EXIT,))
        # nothing that can raise between pop and re-insert: only tests / the stores themselves
        between = set()
        if ok:
            reach = g.reachable(st, avoid=set(good))
            between = {n for n in reach if n not in (st,) and not isinstance(n, str)}
            def harmless(n):
                # a test without calls, or a flag assignment built from names / constants / not / and / or only
                if isinstance(n, ast.If):
                    return not calls_in(n.test)
                if isinstance(n, ast.Assign) and len(n.targets) == 1 and isinstance(n.targets[0], ast.Name):
                    return all(isinstance(x, (ast.Name, ast.Constant, ast.UnaryOp, ast.Not, ast.BoolOp, ast.And, ast.Or,
                                              ast.Load)) for x in ast.walk(n.value))
                return False
            risky = [n for n in between if not harmless(n)]
            ok = not risky
        ctx.inst(rid, fn, st, ok,
                 "%s popped and stored back under the same key on every path, with nothing in between that "
                 "can raise" % key if ok else
                 "the offset popped from the argument is not stored back under %s on every path to the exit: "
                 "the caller's model is changed by solving it" % key)
    if not pops:
        ctx.inst(rid, fn, 'def _solve_bruteforce', not other, "the argument is never modified", nontrivial=False)


def copy_through_class(ctx, rid):
    """copy() returns self.__class__(self): the copy constructor of the model's own class is what carries the ancilla
    counter, the constraint record and the label mapping over.  An empty instance of the own class filled by update(self)
    on every path is accepted too, given that update merges the record together with the counter (premise, checked here:
    C14.record_and_counter_together)."""
    P, R = ctx.prog, ctx.res
    cp = P.func('DictArithmetic.copy')
    sn = R.self_name(cp)
    g = cfg_of(cp.node)
    rets = [n for n in walk_no_nested(strip_docstring(cp.node.body)) if isinstance(n, ast.Return)]
    own = ('%s.__class__' % sn, 'type(%s)' % sn)
    via_update = False
    for r in rets:
        v = r.value
        ok = isinstance(v, ast.Call) and src(v.func) in own and len(v.args) == 1 and is_name(v.args[0], sn) and not v.keywords
        if not ok and isinstance(v, ast.Name):
            defs = [(s_, d_) for s_, d_ in assignments_to(cp.node, v.id)]
            fresh = len(defs) == 1 and isinstance(defs[0][1], ast.Call) and src(defs[0][1].func) in own and \
                not defs[0][1].args and not defs[0][1].keywords
            ups = [enclosing_stmt(c) for c in calls_in(cp.node, 'update') if isinstance(c.func, ast.Attribute) and is_name(c.func.value, v.id)
                   and len(c.args) == 1 and is_name(c.args[0], sn) and not c.keywords]
            others = [c for c in calls_in(cp.node) if isinstance(c.func, ast.Attribute) and is_name(c.func.value, v.id) and call_name(c) != 'update']
            if fresh and ups and not others and g.dominates(ups, r) and all(g.dominates([defs[0][0]], u) for u in ups):
                ok = via_update = True
        ctx.inst(rid, cp, r, ok, "copy constructs through the model's own class" if ok else
                 "copy() does not return self.__class__(self): type or bookkeeping (ancilla counter, constraints, mapping) of "
                 "the copy differ")
    if not rets:
        ctx.inst(rid, cp, 'def copy', False, "copy() returns nothing")
    if via_update:
        from .C14 import record_and_counter_together
        record_and_counter_together(ctx, rid)


def rules(ctx):
    P, R = ctx.prog, ctx.res
    ctx.rule('R19.6', "no function writes module-level state (memo / registry): results independent of earlier calls", floor=1)
    from .C14 import no_module_state as _nms
    _nms(ctx, 'R19.6')
    from .C14 import derived_fields as _df
    _df(ctx, 'R19.6')      # ... nor keeps derived state on a model that some mutator forgets (stale memo)
    _resolve_tables(P)
    E = Effects(P, R)
    E.build()
    ctx.rule('R19.1', "no exported function / non-mutator method mutates an argument or its receiver", floor=150)
    ctx.rule('R19.2', "getters of private mutable state return fresh objects (constraints: two levels)", floor=5)
    ctx.rule('R19.3', "copy() and the copy constructors copy through the class / the copying getter", floor=3)
    ctx.rule('R19.4', "constraint polynomials enter the record only as fresh copies", floor=12)
    ctx.rule('R19.5', "get_info / create_from_info key tables, reflection targets and restore order agree", floor=8)

    # ---------------------------------------------------------------- R19.1
    for fn in P.all_funcs():
        if fn.outer is not None:
            continue
        s = E.summary(fn)
        sn = R.self_name(fn)
        is_mut = bool(fn.cls) and (fn.name in MUTATORS or fn.name.startswith('add_constraint_') or fn.is_setter)
        for p in fn.all_params:
            if p == sn and is_mut:
                continue
            if fn.qual in OUT_PARAM_HELPERS and OUT_PARAM_HELPERS[fn.qual] == p:
                continue
            bad = p in s['mut']
            ex = EXEMPT.get((fn.qual, p))
            if bad and ex:
                ctx.inst('R19.1', fn, 'parameter %s of %s' % (p, fn.qual), True, "exempt: " + ex)
                continue
            detail = ''
            if bad:
                fe = E.effects(fn)
                for n, os_, how in fe.mutations:
                    if any(root(o) == 'param:' + p for o in os_):
                        detail = "%s (line %s)" % (how, getattr(n, 'lineno', '?'))
                        break
            ctx.inst('R19.1', fn, 'parameter %s of %s' % (p, fn.qual), not bad,
                     "never mutated" if not bad else
                     "%s may mutate its %s `%s`: %s" % (fn.qual, 'receiver' if p == sn else 'argument', p, detail),
                     nontrivial=bool(fn.cls) or not fn.name.startswith('_'))
    # out-parameter helpers: every call site passes self of a mutator or a fresh object
    for q, prm in OUT_PARAM_HELPERS.items():
        if not P.has_func(q):
            continue
        helper = P.func(q)
        for caller in P.all_funcs():
            recv = caller.cls.name if caller.cls else None
            for c in calls_in(caller.node, helper.name):
                tg = [t for t, r, h in R.resolve_call(c, caller, recv) if t is helper]
                if not tg:
                    continue
                from ..astutil import bind_args
                b = bind_args(c, helper, skip_self=bool(helper.cls))
                a = b.get(prm)
                fe = E.effects(caller)
                st = enclosing_stmt(c)
                o = E.origins(a, fe.state_at.get(st, {}), caller, recv, None) if a is not None else frozenset()
                csn = R.self_name(caller)
                caller_mut = bool(caller.cls) and (caller.name in MUTATORS or caller.name.startswith('add_constraint_'))
                ok = all(x.startswith('fresh@') or (x == 'param:%s' % csn and caller_mut) for x in o) and bool(o)
                ctx.inst('R19.1', caller, c, ok,
                         "out-parameter receives a fresh object / self of a mutator" if ok else
                         "out-parameter helper %s receives %s, which is neither fresh nor the receiver of a mutator: "
                         "an argument of the public API is modified" % (q, sorted(o)))
    # the exemption for the solvers rests on the pairing rule
    offset_pairing(ctx, 'R19.1')

    # ---------------------------------------------------------------- R19.2
    for cname, prop, field in GETTERS:
        fn = P.cls(cname).methods.get(prop)
        if fn is None or not fn.is_property:
            ctx.inst('R19.2', (P.cls(cname).module.relpath, cname), 'property %s' % prop, False, "getter vanished")
            continue
        s = E.summary(fn)
        alias = sorted(o for o in s['ret'] if root(o).startswith('param:'))
        ctx.inst('R19.2', fn, 'def %s' % prop, not alias,
                 "returns a fresh container" if not alias else
                 "%s.%s returns the model's own %s (%s): the caller can modify the model's bookkeeping through it"
                 % (cname, prop, field, alias))
    for cname in ('PCBO', 'PCSO'):
        fn = P.cls(cname).methods.get('constraints')
        if fn is None:
            ctx.inst('R19.2', (P.cls(cname).module.relpath, cname), 'property constraints', False, "getter vanished")
            continue
        sn = R.self_name(fn)
        for r in [n for n in walk_no_nested(strip_docstring(fn.node.body)) if isinstance(n, ast.Return)]:
            v = r.value
            ok, why = False, "not a dict comprehension over self._constraints building fresh lists of copies"
            if isinstance(v, ast.Call) and src(v.func) == 'PCBO.constraints.fget':
                ok, why = True, "delegates to PCBO's getter"
            if isinstance(v, ast.DictComp) and len(v.generators) == 1 and \
                    src(v.generators[0].iter) == '%s._constraints.items()' % sn:
                inner = v.value
                if isinstance(inner, ast.ListComp) and len(inner.generators) == 1:
                    x = src(inner.generators[0].target)
                    e = inner.elt
                    copied = isinstance(e, ast.Call) and (
                        (isinstance(e.func, ast.Attribute) and e.func.attr == 'copy' and src(e.func.value) == x) or
                        (e.args and src(e.args[0]) == x and src(e.func) in ('type(%s)' % x, '%s.__class__' % x, 'PUBO', 'PUSO')))
                    if copied and not inner.generators[0].ifs and not v.generators[0].ifs:
                        ok, why = True, "fresh dict of fresh lists of copied polynomials"
                    elif not copied:
                        why = "inner lists hold the model's own constraint polynomials (no copy of each element)"
                elif isinstance(inner, ast.Call) and is_name(inner.func, 'list'):
                    why = "inner lists are new but hold the model's own constraint polynomials"
                else:
                    why = "inner lists are shared with the model (`%s`)" % src(inner)
            ctx.inst('R19.2', fn, r, ok,
                     why if ok else "%s.constraints: %s - editing the returned value edits the model's record" % (cname, why))

    # ---------------------------------------------------------------- R19.3
    copy_through_class(ctx, 'R19.3')
    init = P.func('PCBO.__init__')
    sn = R.self_name(init)
    va = init.node.args.vararg.arg if init.node.args.vararg else 'args'
    g = cfg_of(init.node)
    got = {'_constraints': None, '_ancilla': None}
    for n in g.stmts():
        if isinstance(n, ast.Assign):
            for t in n.targets:
                if isinstance(t, ast.Attribute) and is_name(t.value, sn) and t.attr in got:
                    facts = []
                    for tt, pol, o in g.edge_dominators(n):
                        facts += compare_atoms(tt, pol)
                    if any(f[0] == 'truthy' and 'isinstance(%s[0]' % va in f[1] for f in facts if len(f) == 2):
                        got[t.attr] = n
    n = got['_constraints']
    ok = n is not None and src(n.value) == '%s[0].constraints' % va
    ctx.inst('R19.3', init, n if n is not None else 'copy branch: _constraints', ok,
             "constraints taken through the copying getter" if ok else
             "the copy constructor takes the constraints as `%s`, not through the copying getter "
             "`.constraints`: a model and its copy share constraint lists" % (src(n.value) if n is not None else 'nothing'))
    n = got['_ancilla']
    ok = n is not None and src(n.value) in ('%s[0].num_ancillas' % va, '%s[0]._ancilla' % va)
    ctx.inst('R19.3', init, n if n is not None else 'copy branch: _ancilla', ok,
             "ancilla counter copied by value" if ok else "the copy constructor does not copy the ancilla counter")
    # copy branch guard: isinstance(args[0], self.__class__) (PCSO uses this code too)
    for cname, prop in (('PCBO', '__round__'),):
        rf = P.func('PCBO.__round__')
        sn_ = R.self_name(rf)
        for n in walk_no_nested(strip_docstring(rf.node.body)):
            if isinstance(n, ast.Assign) and any(isinstance(t, ast.Attribute) and t.attr == '_constraints' for t in n.targets):
                ok = src(n.value) == '%s.constraints' % sn_
                ctx.inst('R19.3', rf, n, ok, "rounded model gets a copy of the constraints" if ok else
                         "__round__ shares the constraint record with its result")

    # ---------------------------------------------------------------- R19.4
    for cls_, kind in (('PCBO', 'PUBO'), ('PCSO', 'PUSO')):
        for rel, fn in C02.rel_methods(P, cls_).items():
            C02.recorded_copy_rules(ctx, E, fn, 'R19.4', 'R19.4', kind)

    # ---------------------------------------------------------------- R19.5
    gi = P.func('_info.get_info')
    cf = P.func('_info.create_from_info')
    produced = set()
    terms_fresh = False
    for n in ast.walk(gi.node):
        if isinstance(n, ast.Call) and is_name(n.func, 'dict') and n.keywords and not n.args:
            for k in n.keywords:
                if k.arg:
                    produced.add(k.arg)
                    if k.arg == 'terms':
                        terms_fresh = isinstance(k.value, ast.Call) and is_name(k.value.func, 'dict') or \
                            (isinstance(k.value, ast.Call) and call_name(k.value) == 'copy')
        if isinstance(n, ast.Dict):
            for k in n.keys:
                if isinstance(k, ast.Constant):
                    produced.add(k.value)
        if isinstance(n, ast.For) and isinstance(n.iter, (ast.Tuple, ast.List)) and \
                any(isinstance(s_, ast.Assign) and isinstance(s_.targets[0], ast.Subscript) for s_ in ast.walk(n)):
            for e in n.iter.elts:
                if isinstance(e, ast.Constant):
                    produced.add(e.value)
    ip = cf.params[0]
    consumed = set()
    for n in ast.walk(cf.node):
        if isinstance(n, ast.Subscript) and is_name(n.value, ip) and isinstance(n.slice, ast.Constant):
            consumed.add(n.slice.value)
        if isinstance(n, ast.Call) and isinstance(n.func, ast.Attribute) and n.func.attr == 'get' and \
                is_name(n.func.value, ip) and n.args and isinstance(n.args[0], ast.Constant):
            consumed.add(n.args[0].value)
    want = {'type', 'terms', 'name', 'mapping', 'num_ancillas', 'constraints'}
    ctx.inst('R19.5', gi, 'keys produced by get_info', produced == want,
             "produces %s" % sorted(produced) if produced == want else
             "get_info produces %s, expected %s: %s is not serialised" % (sorted(produced), sorted(want), sorted(want - produced)))
    ctx.inst('R19.5', cf, 'keys consumed by create_from_info', consumed == produced,
             "consumes exactly the produced keys" if consumed == produced else
             "create_from_info reads %s but get_info writes %s" % (sorted(consumed), sorted(produced)))
    ctx.inst('R19.5', gi, 'terms=dict(model)', terms_fresh,
             "terms are a fresh dict" if terms_fresh else "get_info hands out the model itself as `terms`")
    # getattr reads use the public (copying) attributes
    for n in ast.walk(gi.node):
        if isinstance(n, ast.Call) and is_name(n.func, 'getattr') and len(n.args) >= 2:
            pass
    # reflection targets
    for cls_ in ('PCBO', 'PCSO'):
        for rel in C02.RELS:
            m = P.lookup_method(cls_, 'add_constraint_%s_zero' % rel)
            ctx.inst('R19.5', cf, 'reflection target %s.add_constraint_%s_zero' % (cls_, rel),
                     isinstance(m, FuncInfo) and 'lam' in m.all_params,
                     "exists and accepts lam", nontrivial=False)
    fmt = [n for n in ast.walk(cf.node) if isinstance(n, ast.Constant) and isinstance(n.value, str) and n.value.startswith('add_constraint_') and len(n.value) < 40]
    ctx.inst('R19.5', cf, fmt[0] if fmt else 'reflected method name', bool(fmt) and fmt[0].value == 'add_constraint_%s_zero',
             "constraints re-added through add_constraint_<key>_zero")
    g = cfg_of(cf.node)
    readd = [c for c in calls_in(cf.node) if kwarg(c, 'lam') is not None]
    ok = bool(readd) and all(is_const(kwarg(c, 'lam'), 0) for c in readd)
    ctx.inst('R19.5', cf, readd[0] if readd else 're-adding constraints', ok,
             "constraints re-added with lam=0 (record only, R02.6)" if ok else
             "constraints are not re-added with lam=0: the round trip adds penalty terms / ancillas a second time")
    from ..fields import field_writes
    anc = [enclosing_stmt(w[0]) for w in field_writes(cf.node, {'_ancilla'})]
    loops = [n for n in g.stmts() if isinstance(n, ast.For) and any(c in readd for c in calls_in(n))]
    ok = bool(anc) and bool(loops) and all(not g.reaches(l, a) for l in loops for a in anc)
    ctx.inst('R19.5', cf, anc[0] if anc else 'model._ancilla = info[...]', ok,
             "ancilla counter restored before the constraints are re-added" if ok else
             "the ancilla counter is not restored (before re-adding the constraints)")
    # the replay relies on `lam == 0 -> record only` in every relational method of both classes
    for cls_ in ('PCBO', 'PCSO'):
        for rel, m_ in C02.rel_methods(P, cls_).items():
            C02.lam_zero_rule(ctx, 'R19.5', m_)
    # restore guards: value-truthiness guards only where the falsy value is the default
    model_var = None
    for n in g.stmts():
        tg = None
        if isinstance(n, ast.Assign) and isinstance(n.targets[0], ast.Attribute) and n.targets[0].attr == 'name':
            tg = 'name'
        if tg:
            facts = []
            for t, pol, o in g.edge_dominators(n):
                facts += compare_atoms(t, pol)
            bad = [f for f in facts if f[0] in ('truthy', 'falsy') and ('"name"' in f[1] or "'name'" in f[1]) and ' in ' not in f[1]]
            # the restored value itself must not be filtered by truthiness either (`x or None`, `x if x else None`)
            v_ = n.value
            if isinstance(v_, ast.BoolOp) or isinstance(v_, ast.IfExp):
                bad = bad or [('truthy', src(v_))]
            ctx.inst('R19.5', cf, n, not bad,
                     "name restored unconditionally / on key presence only" if not bad else
                     "the name is restored only if truthy (%s): falsy names such as 0 or '' are lost in the round trip" % bad[0][1])
    names = [n for n in g.stmts() if isinstance(n, ast.Assign) and isinstance(n.targets[0], ast.Attribute) and n.targets[0].attr == 'name']
    if not names:
        ctx.inst('R19.5', cf, 'model.name = ...', False, "the name is never restored")
    # mapping restored through set_mapping
    sm = [c for c in calls_in(cf.node, 'set_mapping')]
    ctx.inst('R19.5', cf, sm[0] if sm else 'set_mapping', bool(sm), "mapping restored through set_mapping" if sm else
             "the mapping is never restored")
    # ... whenever the info has one: the restoring call is guarded by the presence of the entry only (the mapping of a model
    # may know more labels than its terms; any condition on the rebuilt model's variables drops such mappings)
    from ..astutil import expand_names as _xn
    for c in sm:
        extra = []
        for t, pol, o in g.edge_dominators(enclosing_stmt(c)):
            for a_ in compare_atoms(_xn(cf.node, t), pol):
                txt = ' '.join(str(x) for x in a_)
                if 'mapping' in txt and not any(w in txt for w in ('len(', 'num_binary_variables', 'variables', '_variables', 'degree')):
                    continue
                extra.append(a_)
        ctx.inst('R19.5', cf, c, not extra,
                 "the mapping is restored whenever the info carries one" if not extra else
                 "the mapping is restored only under %s: a mapping that does not meet it (e.g. one that knows a label no term uses "
                 "any more) is dropped, and the copy's mapping / get_info differ from the original's" % (extra[:2],))


def thorough_rules(ctx):
    """R19.1 re-evaluated for every concrete model class as the receiver."""
    P, R = ctx.prog, ctx.res
    ctx.rule('R19.1c', "R19.1 for the methods of every model class in that class's receiver context", floor=300)
    for c in sorted(x.name for x in P.subclasses_of('DictArithmetic')):
        E = Effects(P, R, context=c)
        E.build()
        seen = set()
        for K in P.cls(c).mro:
            if isinstance(K, str):
                continue
            for name, fn in K.methods.items():
                if name in seen or P.lookup_method(c, name) is not fn:
                    continue
                seen.add(name)
                s = E.summary(fn)
                sn = R.self_name(fn)
                is_mut = name in MUTATORS or name.startswith('add_constraint_') or fn.is_setter
                for p in fn.all_params:
                    if p == sn and is_mut:
                        continue
                    if fn.qual in OUT_PARAM_HELPERS and OUT_PARAM_HELPERS[fn.qual] == p:
                        continue
                    bad = p in s['mut'] and (fn.qual, p) not in EXEMPT
                    ctx.inst('R19.1c', fn, '%s.%s(%s)' % (c, name, p), not bad,
                             "never mutated" if not bad else
                             "with receiver %s, %s may mutate its %s `%s`" % (c, fn.qual, 'receiver' if p == sn else 'argument', p))
