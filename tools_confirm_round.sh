#!/bin/bash
# usage: tools_confirm_round.sh <suffix-of-worktrees e.g. y> <id-letter e.g. p> props...   (confirms 6 properties in parallel)
SUF=$1; LET=$2; shift 2
confirm_prop() { p=$1; for k in 1 2 3; do [ -f /tmp/wt/${p}$SUF/_out/m$k/patch.diff ] && /verif/tools_confirm_seed.sh /tmp/wt/${p}$SUF /tmp/wt/${p}$SUF/_out/m$k $p-$LET$k $p 2>&1 | grep -v condarc; done; }
export -f confirm_prop; export SUF LET
printf "%s\n" "$@" | xargs -P 5 -I{} bash -c 'confirm_prop {}'
