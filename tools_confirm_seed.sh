#!/bin/bash
# usage: tools_confirm_seed.sh <worktree> <m-dir> <seed-id> <property>
# Confirms an independently written breaking change in a scratch worktree (tests pass, demo fails
# with / passes without) and stores it under /verif/seeded/<seed-id>/.
set -u
WT=$1; M=$2; ID=$3; PROP=$4
cd "$WT" || exit 2
git checkout -q -- . ; git apply --check "$M/patch.diff" || { echo "patch does not apply"; exit 2; }
cp "$M/demo.py" /tmp/_demo_$ID.py
PYTHONPATH=$WT /venv/bin/python /tmp/_demo_$ID.py >/tmp/_demo_$ID.base 2>&1; base=$?
git apply "$M/patch.diff"
if git diff --name-only | grep -q '\.c$'; then /venv/bin/python setup.py build_ext --inplace >/dev/null 2>&1; rm -rf build; fi
PYTHONPATH=$WT /venv/bin/python -m pytest -q -p no:cacheprovider -n 5 2>&1 | tail -1 > /tmp/_tests_$ID.txt
PYTHONPATH=$WT /venv/bin/python /tmp/_demo_$ID.py >/tmp/_demo_$ID.mut 2>&1; mut=$?
CFILES=$(git diff --name-only | grep '\.c$')
git checkout -q -- .
if [ -n "$CFILES" ]; then /venv/bin/python setup.py build_ext --inplace >/dev/null 2>&1; rm -rf build; fi
tests=$(cat /tmp/_tests_$ID.txt)
echo "$ID: demo base exit=$base, mutated exit=$mut, tests: $tests"
if [ $base -eq 0 ] && [ $mut -ne 0 ] && echo "$tests" | grep -q "2 failed, 398 passed"; then
  mkdir -p /verif/seeded/$ID; cp "$M/patch.diff" "$M/demo.py" /verif/seeded/$ID/; [ -f "$M/notes.md" ] && cp "$M/notes.md" /verif/seeded/$ID/
  python3 - "$ID" "$PROP" "$tests" <<'PY'
import json,sys
i,p,t=sys.argv[1:4]
json.dump(dict(id=i, property=p, confirmed=dict(tests_with_change=t, demo_without_change="exit 0", demo_with_change="non-zero exit"),
  what_i_ran="scratch worktree: git apply patch.diff; pytest -n 8 (same result as baseline); demo.py fails; git checkout; demo.py passes",
  needs_to_manifest="see notes.md", detected_by=None), open('/verif/seeded/%s/meta.json'%i,'w'), indent=1)
PY
  echo "  kept"
else echo "  NOT confirmed"; fi
rm -f /tmp/_demo_$ID.* /tmp/_tests_$ID.txt
