#!/usr/bin/env python3
"""Regenerate MANIFEST.json from the rule modules present in qvstatic/rules."""
import importlib, json, pathlib, sys
sys.path.insert(0, str(pathlib.Path(__file__).parent))
ROOT = pathlib.Path(__file__).parent
props = [json.loads(l) for l in open(ROOT / 'properties.jsonl')]
NA = {
    'C10': "Feasibility of decoded solutions and ground energies of the seven problem encodings are "
           "integer/real arithmetic over instance data (set systems, graphs, weights); no clause of the "
           "property is visible in the shape of the code, so no sound static rule applies (DESIGN 4.10). "
           "The two structural sites (validity filter / comparator of the problem-specific "
           "solve_bruteforce) are checked as extra instances under C09 and not claimed as C10.",
}
checks, na = [], []
for p in props:
    pid = p['id']
    try:
        mod = importlib.import_module('qvstatic.rules.%s' % pid)
    except ModuleNotFoundError:
        mod = None
    if pid in NA or mod is None:
        na.append(dict(property_id=pid, reason=NA.get(pid, "check not built yet in this revision of /verif; "
                                                      "not claimed until its rules exist")))
        continue
    checks.append(dict(
        property_id=pid,
        quick_cmd="./check %s --tier quick" % pid,
        thorough_cmd="./check %s --tier thorough" % pid,
        evidence_file="evidence/%s.json" % pid,
        replay_cmd_template="./check %s --replay {path}" % pid,
        engine="qvstatic",
        level_claimed=dict(
            category="other",
            text=getattr(mod, 'LEVEL_TEXT', None) or (
                "Static analysis (no execution of qubovert): decides the structural clauses of the "
                "property for all inputs / histories because their truth is visible in the shape of the "
                "code on every path. " + mod.EXPLANATION),
            design_ref=getattr(mod, 'DESIGN_REF', 'DESIGN.md section 4')),
        level_note="Not decided (behavioural remainder): " + mod.NOT_DECIDED + " Trusted base: " +
                   "; ".join(mod.TRUSTED),
        technique=getattr(mod, 'TECHNIQUE', "static analysis: custom AST/CFG/call-graph rules over "
                                            "the resolved program (Python ast; clang JSON AST for C)"),
    ))
man = dict(
    version=1,
    setup_cmd="true",
    hooks=dict(guard="JTIOSUE_QUBOVERT_VERIF", enable="none: static analysis needs no instrumentation; "
               "no hook commits exist in /repo", baseline_off_cmd=
               "cd /repo && /venv/bin/python -m pytest -ra -q -p no:cacheprovider --timeout=900 "
               "--continue-on-collection-errors", source_commits=[], add_only=True),
    engines=[dict(name="qvstatic", path="qvstatic/", serves_properties=[c['property_id'] for c in checks],
                  kind_free_text="repository-specific static analyser: Python program model (imports, C3 MRO, "
                  "per-receiver call resolution), statement CFG with dominance/path queries, effect/"
                  "taint/nullness/sign analyses, clang-JSON-AST model of the C kernels; stdlib only")],
    checks=checks,
    notes="All checks are static: they parse /repo's current working tree on every run and never import "
          "or execute qubovert. Exit 0 = all rule instances hold; 1 = VIOLATION (unlisted finding); "
          "2 = ANALYSIS-ERROR (anchor vanished / unparseable). Known and fixed findings: known_findings.json.",
    not_applicable=na,
)
(ROOT / 'MANIFEST.json').write_text(json.dumps(man, indent=1))
print("checks:", [c['property_id'] for c in checks], "n/a:", [n['property_id'] for n in na])
