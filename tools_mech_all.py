#!/usr/bin/env python3
"""Mechanical benign rewrites of every function (all kinds) for the given properties (default all): prints the non-silent ones."""
import sys, json
sys.path.insert(0,'/verif')
from qvstatic import selftest
props = sys.argv[1:] or ['C01','C02','C03','C04','C05','C06','C07','C08','C09','C11','C12','C13','C14','C15','C16','C17','C18','C19']
for p in props:
    rs = selftest.run_mechanical(p, '/repo')
    bad = [r for r in rs if r['status'] != 'silent']
    print(p, len(rs), 'non-silent', len(bad))
    for r in bad: print('   ', r['name'], r['status'], str(r.get('fired'))[:300])
