#!/usr/bin/env python3
"""Debug aid: apply a patch to a scratch worktree, build the C model and print the assignments / subscripts of a function.
usage: tools_cdump.py <patch.diff|-> <function> [assigns|subs|calls|fors]"""
import sys, os, subprocess, tempfile, shutil
sys.path.insert(0, '/verif')
from qvstatic.cmodel import CProgram, S, unparen
patch, fname = sys.argv[1], sys.argv[2]
what = sys.argv[3:] or ['assigns']
wt = None
root = '/repo'
if patch != '-':
    patch = os.path.abspath(patch)
    wt = tempfile.mkdtemp(prefix='cdump', dir='/tmp'); shutil.rmtree(wt)
    subprocess.run(['git', '-C', '/repo', 'worktree', 'add', '--detach', '-q', wt], check=True)
    root = wt
try:
    if wt:
        subprocess.run(['git', '-C', wt, 'apply', patch], check=True)
    C = CProgram(root)
    print('\n'.join(C.notes))
    f = C.func(fname)
    if 'assigns' in what:
        for a in f.assigns:
            print('A', a['lhs'], a['op'], unparen(S(a['rhs'])) if a['rhs'] is not None else None, '| loops', [l['var'] for l in a['loops']], '| guards', [str(g) for g in a['guards']])
    if 'subs' in what:
        for s_ in f.subs:
            print('S', s_['base'], '[', s_['index'], ']', 'W' if s_['write'] else 'R', [l['var'] for l in s_['loops']])
    if 'calls' in what:
        for c in f.calls:
            print('C', c['callee'], c['argtxt'])
    if 'fors' in what:
        for l in f.fors:
            print('F', l['var'], l['lo'], l['op'], l['hi'], l['inc'])
finally:
    if wt:
        subprocess.run(['git', '-C', '/repo', 'worktree', 'remove', '--force', wt])
