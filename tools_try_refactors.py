#!/usr/bin/env python3
"""Apply each benign refactoring patch to /repo, run ALL quick checks, undo. Any non-zero exit is a false alarm."""
import json, pathlib, subprocess, sys
dirs = [pathlib.Path(a).resolve() for a in sys.argv[1:]]
man = json.load(open('/verif/MANIFEST.json'))
claimed = [c['property_id'] for c in man['checks']]
for d in dirs:
    pf = d / 'patch.diff'
    st = subprocess.run(['git', '-C', '/repo', 'status', '--porcelain'], capture_output=True, text=True).stdout
    assert not st.strip(), st
    r = subprocess.run(['git', '-C', '/repo', 'apply', str(pf)], capture_output=True, text=True)
    if r.returncode:
        print(d, 'PATCH DOES NOT APPLY', r.stderr[:100]); continue
    try:
        res = {}
        for p in claimed:
            o = subprocess.run(['./check', p], cwd='/verif', capture_output=True, text=True)
            if o.returncode:
                lines = [l.strip() for l in o.stdout.splitlines() if l.strip().startswith('rule ') or 'ANALYSIS-ERROR' in l]
                res[p] = (o.returncode, lines[:3])
        print(d, res or 'silent (ok)')
    finally:
        subprocess.run(['git', '-C', '/repo', 'checkout', '--', '.'])
        subprocess.run(['git', '-C', '/repo', 'clean', '-fdq', '--', 'qubovert'])
subprocess.run(['git', '-C', '/verif', 'checkout', '--', 'evidence'], capture_output=True)
