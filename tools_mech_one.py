#!/usr/bin/env python3
"""usage: tools_mech_one.py <prop> <relpath> <qual> <kind> [--show]: one mechanical rewrite, with the findings."""
import sys
sys.path.insert(0,'/verif')
from qvstatic import cli, renamer
prop, rel, qual, kind = sys.argv[1:5]
src=open('/repo/'+rel).read()
new=renamer.transform(src, qual, kind)
if '--show' in sys.argv:
    import ast
    t=ast.parse(new)
    for n in ast.walk(t):
        if isinstance(n, ast.FunctionDef) and n.name==qual.split('.')[-1]:
            body=n.body[1:] if isinstance(n.body[0],ast.Expr) else n.body
            print('\n'.join(ast.unparse(b) for b in body)); break
code, ctx, findings = cli.run(prop,'quick','/repo',{rel:new},None,False,True)
print(code)
for f in findings: print(f.get('rule'), f.get('where'), f.get('message') or f)
