#!/usr/bin/env python3
"""Inline each reference private helper at its statement-level call sites (model inliner), unparse, and run all checks."""
import sys, ast, copy
sys.path.insert(0,'/verif')
from qvstatic import inliner, pymodel, cli
from qvstatic.pymodel import Program
helpers = sorted({(rel, cls or '', name) for (rel, cls), t in Program.PRIVATE_HELPERS.items() for name in t})
props = ['C01','C02','C03','C04','C05','C06','C07','C08','C09','C11','C12','C13','C14','C15','C16','C17','C18','C19']
only = sys.argv[1:]
for rel, cls, name in helpers:
    if only and name not in only: continue
    saved_k = set(inliner.KNOWN_HELPERS); saved_p = copy.deepcopy(Program.PRIVATE_HELPERS)
    try:
        inliner.KNOWN_HELPERS.discard(name)
        for k in Program.PRIVATE_HELPERS: Program.PRIVATE_HELPERS[k].pop(name, None)
        P = Program('/repo')
        n = inliner.inline_program(P)
        log = list(P.inlined_log)
        dropped = [l for l in log if l.startswith('dropped')]
        if not dropped:
            print(name, 'not fully inlinable (%s)' % log[:3]); continue
        # unparse all modules that changed: compare with original
        overrides = {}
        for m in P.modules.values():
            # remove the helper def from module tree if dropped
            for node in ast.walk(m.tree):
                body = getattr(node, 'body', None)
                if isinstance(body, list):
                    node.body = [b for b in body if not (isinstance(b, ast.FunctionDef) and b.name == name and
                                 (('dropped %s.%s' % (m.name.split('.')[-1], name)) in dropped or any(d.endswith('.'+name) for d in dropped)))] or [ast.Pass()]
            txt = ast.unparse(m.tree)
            orig = ast.unparse(ast.parse(open('/repo/'+m.relpath).read()))
            if txt != orig:
                overrides[m.relpath] = txt
    finally:
        inliner.KNOWN_HELPERS.clear(); inliner.KNOWN_HELPERS.update(saved_k)
        Program.PRIVATE_HELPERS.clear(); Program.PRIVATE_HELPERS.update(saved_p)
    res = {}
    for p in props:
        code, ctx, findings = cli.run(p, 'quick', '/repo', overrides, None, False, True)
        if code != 0:
            from qvstatic import core
            res[p] = (code, sorted({f.get('rule') for f in findings}) or core.LAST_ERROR[-150:])
    print(name, sorted(overrides), res or 'silent')
