#!/usr/bin/env python3
"""Debug aid: apply a patch to a scratch worktree, build the model with all normalisations and print the
normalised source of the named functions.  usage: tools_dump.py <patch.diff|-> <Qual.name> [...]"""
import sys, ast, subprocess, tempfile, shutil
sys.path.insert(0, '/verif')
from qvstatic import inliner
from qvstatic.pymodel import Program
import os
patch, names = sys.argv[1], sys.argv[2:]
if patch != '-': patch = os.path.abspath(patch)
wt = None
root = '/repo'
if patch != '-':
    wt = tempfile.mkdtemp(prefix='dump', dir='/tmp')
    shutil.rmtree(wt)
    subprocess.run(['git', '-C', '/repo', 'worktree', 'add', '--detach', '-q', wt], check=True)
    root = wt
try:
    if wt:
        subprocess.run(['git', '-C', wt, 'apply', patch], check=True)
    P = Program(root)
    inliner.inline_program(P)
    print('\n'.join(P.inlined_log))
    for n in names:
        f = P.func(n)
        print('#', n); print(ast.unparse(f.node))
finally:
    if wt:
        subprocess.run(['git', '-C', '/repo', 'worktree', 'remove', '--force', wt])
